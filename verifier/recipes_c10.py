"""Self-test recipes of C10 (same tuple format as selftest.RECIPES): behaviour-preserving rewrites the value-level rules must accept and
behaviour-breaking edits each obligation must report."""

CYC = "pyyeti/cyclecount.py"
LOC = "pyyeti/locate.py"
FDE = "pyyeti/fdepsd.py"

_GB_TRUE = '''                if mn <= bb[0] or mx > bb[-1]:
                    out_of_bounds = True
                else:
                    out_of_bounds = False
'''

_GB_FALSE = '''                if mn < bb[0] or mx >= bb[-1]:
                    out_of_bounds = True
                else:
                    out_of_bounds = False
'''

_NUMBA_END = '''        if np.abs(nxt - y[-2]) > stol:
            PV[-1] = True
        else:
            PV[j] = True
'''

_DF_LOOP = '''    for j in range(LF):
        Df4[j] = (BinAmps[j] ** b4).dot(BinCount[j])
        Df8[j] = (BinAmps[j] ** b8).dot(BinCount[j])
        Df12[j] = (BinAmps[j] ** b12).dot(BinCount[j])
'''

_COUNT_LOOP = '''            for jj in range(nbins):
                pv = amp >= BinAmps[j, jj]
                Count[j, jj] = np.sum(count[pv])
'''

RECIPES = [
    # ---------------------------------------------------------------------------------------------------------------- break
    ("C10", "break", ["C10-R5"], CYC, _GB_TRUE, "                out_of_bounds = bool(mn < bb[0] or mx > bb[-1])\n",
     "right=True lower edge, verdict written as a boolean assignment (seeded change D)"),
    ("C10", "break", ["C10-R5"], CYC, _GB_FALSE, "                out_of_bounds = not (mn >= bb[0] and mx <= bb[-1])\n",
     "right=False upper edge, verdict written as a negated conjunction"),
    ("C10", "break", ["C10-R5"], CYC, "            if (0 <= bim < num_bins_mean) and (0 <= bir < num_bins_range):",
     "            if (0 <= bim <= num_bins_mean) and (0 <= bir < num_bins_range):", "_binify guard admits the row index one past the end"),
    ("C10", "break", ["C10-R5"], CYC, "        out = out_amp or out_ave", "        out = out_amp and out_ave", "guard only when both axes are out of bounds"),
    ("C10", "break", ["C10-R5"], CYC, "    ampb = getbins(ampbins, *maxmin(rf[:, 0]), right, check_bounds)", "    ampb = getbins(ampbins, *maxmin(rf[:, 1]), right, check_bounds)",
     "amplitude bins checked against the range of the mean column"),
    ("C10", "break", ["C10-R6"], CYC, "            if np.abs(nxt - cur) > stol:", "            if np.abs(nxt - cur) >= stol:", "loop variant: non-strict tolerance comparison"),
    ("C10", "break", ["C10-R6"], CYC, "        stol = np.abs(tol * np.abs(np.diff(y)).max())", "        stol = np.abs(tol * np.abs(np.diff(y)).min())",
     "loop variant: tolerance relative to the smallest difference"),
    ("C10", "break", ["C10-R6"], CYC, "        s = np.sign(np.diff(yu))", "        s = np.sign(np.diff(y)[u[1:]])", "slope signs from raw differences at the retained samples (seeded change C)"),
    ("C10", "break", ["C10-R6"], CYC, "        PV[u] = pv\n", "        PV[~u] = pv[: (~u).sum()]\n", "expansion scatters onto the removed samples"),
    ("C10", "break", ["C10-R3"], FDE, "                pv = amp >= BinAmps[j, jj]", "                pv = amp > BinAmps[j, jj]", "cumulative count excludes cycles on the level"),
    ("C10", "break", ["C10-R3"], FDE, "            BinAmps[j] *= Amax[j]", "            BinAmps[j] *= SRSmax[j]", "levels scaled by the SRS peak instead of the largest cycle amplitude"),
    ("C10", "break", ["C10-R1"], FDE, 'np.column_stack((Df4, Df8, Df12)), columns=["b=4", "b=8", "b=12"]', 'np.column_stack((Df8, Df4, Df12)), columns=["b=4", "b=8", "b=12"]',
     "di_sig columns swapped under their labels"),
    ("C10", "break", ["C10-R1"], FDE, "        sig2_8 = (Df8 / Dt8) ** (1 / 4)\n        G8 = sig2_8 / ((Q * pi / 2) * freq)", "        sig2_8 = (Df8 / Dt8) ** (1 / 2)\n        G8 = sig2_8 / ((Q * pi / 2) * freq)",
     "absacce variance exponent for b=8"),
    ("C10", "break", ["C10-R7"], FDE, "            if tantheta[k] > 0:", "            if tantheta[k] > 1e-12:", "absolute threshold on a quantity of dimension 1/amplitude^2 (seeded change E)"),
    ("C10", "break", ["C10-R7"], FDE, "        pv = BinAmps[j] >= Amax[j] / 3  # ignore small amp cycles", "        pv = BinAmps[j] >= 1 / 3  # ignore small amp cycles",
     "absolute amplitude cut-off"),
    ("C10", "break", ["C10-R7"], FDE, "        G2 = G2max / (Q * pi * freq * lnN0)", "        G2 = np.sqrt(G2max) / (Q * pi * freq * lnN0)", "G2 of degree 1 in the amplitude"),
    # -------------------------------------------------------------------------------------------------------------- neutral
    ("C10", "neutral", [], CYC, _GB_TRUE, "                out_of_bounds = bool(mn <= bb[0] or mx > bb[-1])\n", "verdict as a boolean assignment"),
    ("C10", "neutral", [], CYC, _GB_FALSE, "                out_of_bounds = not (mn >= bb[0] and mx < bb[-1])\n", "verdict as a negated conjunction (De Morgan)"),
    ("C10", "neutral", [], CYC, _GB_TRUE, "                out_of_bounds = bb[0] >= mn\n                if not out_of_bounds:\n                    out_of_bounds = bb[-1] < mx\n",
     "verdict in two steps with swapped operands"),
    ("C10", "neutral", [], CYC, "        out = out_amp or out_ave", "        out = bool(out_amp) | bool(out_ave)", "bitwise or of booleans"),
    ("C10", "neutral", [], CYC, "            if (0 <= bim < num_bins_mean) and (0 <= bir < num_bins_range):",
     "            if not (bim < 0 or bim >= num_bins_mean or bir < 0 or bir >= num_bins_range):", "guard as a negated disjunction"),
    ("C10", "neutral", [], LOC, "    pv = np.hstack((True, abs(m) > stol))", "    pv = np.hstack((True, stol < np.abs(m)))", "swapped operands"),
    ("C10", "neutral", [], LOC, "    pv = np.hstack((True, abs(m) > stol))", "    pv = np.concatenate(([True], ~(abs(m) <= stol)))", "negated complement"),
    ("C10", "neutral", [], CYC, _NUMBA_END, "        if np.abs(nxt - y[-2]) <= stol:\n            PV[j] = True\n        else:\n            PV[-1] = True\n", "complement test, arms swapped"),
    ("C10", "neutral", [], CYC, "        s = np.sign(np.diff(yu))", "        steps = yu[1:] - yu[:-1]\n        s = np.sign(steps)", "diff written out"),
    ("C10", "neutral", [], FDE, "            if tantheta[k] > 0:", "            if 0 < tantheta[k]:", "swapped operands"),
    ("C10", "neutral", [], FDE, "        pv = BinAmps[j] >= Amax[j] / 3  # ignore small amp cycles", "        pv = 3 * BinAmps[j] >= Amax[j]  # ignore small amp cycles", "cut-off multiplied out"),
    ("C10", "neutral", [], FDE, _DF_LOOP, "    Df4 = np.array([BinCount[j] @ BinAmps[j] ** b4 for j in range(LF)])\n    Df8 = np.array([np.dot(BinAmps[j] ** b8, BinCount[j]) for j in range(LF)])\n"
                                            "    for j in range(LF):\n        Df12[j] = (BinAmps[j] ** 12) @ BinCount[j]\n",
     "damage indicators by comprehension / np.dot / literal exponent"),
    ("C10", "neutral", [], FDE, _COUNT_LOOP, "            Count[j] = [count[amp >= lev].sum() for lev in BinAmps[j]]\n", "cumulative count row by comprehension over the levels"),
    ("C10", "neutral", [], FDE, "    BinCount = np.hstack((Count[:, :-1] - Count[:, 1:], Count[:, -1:]))", "    drop = Count[:, :-1] - Count[:, 1:]\n    BinCount = np.concatenate([drop, Count[:, -1:]], axis=1)",
     "concatenate with a temporary"),
    ("C10", "neutral", [], FDE, "        Gmax = np.sqrt(np.vstack((G4, G8, G12)) * (Q * pi * freq * lnN0))", "        kk = lnN0 * freq * pi * Q\n        Gmax = np.vstack((np.sqrt(G4 * kk), np.sqrt(kk * G8), np.sqrt(G12 * kk)))",
     "peak amplitudes row by row"),
]


# ============================================================================================ second hardening pass (neutral patches N5-N8)
_GB_VEC = """        if check_bounds:
            if right:
                if mn <= bb[0] or mx > bb[-1]:
                    out_of_bounds = True
                else:
                    out_of_bounds = False
            else:
                if mn < bb[0] or mx >= bb[-1]:
                    out_of_bounds = True
                else:
                    out_of_bounds = False
"""

_BINIFY_LOOPS = """    if ensure_boundaries:
        for i in range(len(cycles)):
            bim = bin_indices_mean[i]
            bir = bin_indices_range[i]
            if (0 <= bim < num_bins_mean) and (0 <= bir < num_bins_range):
                markov_matrix[bim, bir] += cycles[i, 2]
    else:
        for i in range(len(cycles)):
            markov_matrix[bin_indices_mean[i], bin_indices_range[i]] += cycles[i, 2]
"""

_FINDAP_TAIL = """        if allu:
            return pv

        # expand to full size:
        PV = np.zeros(y.size, bool)  # non-uniques are not peaks
        PV[u] = pv
        # [ True, False, False,  True, False,  True, False, False]
        return PV
"""

_FINDAP_YU = """        if np.all(u):
            yu = y
            allu = True
        else:
            yu = y[u]
            # [ 1,  2,  3,  4, -2]
            allu = False
"""

_FINDAP_MASK = """        pv = np.ones(yu.size, bool)
        pv[1:-1] = np.abs(np.diff(s)) == 2
        if yu.size > 2:
            pv[-1] = yu[-1] != yu[-2]
"""

_SERIAL_COUNT = """            amp = rf["amp"]
            count = rf["count"]
            Amax[j] = amp.max()
            BinAmps[j] *= Amax[j]

            # cumulative bin count:
            for jj in range(nbins):
                pv = amp >= BinAmps[j, jj]
                Count[j, jj] = np.sum(count[pv])
"""

_BINCOUNT = "    BinCount = np.hstack((Count[:, :-1] - Count[:, 1:], Count[:, -1:]))"


def _df(text):
    return ("C10", "neutral", [], FDE, _DF_LOOP, text)


def _row_helper(level_update, mask):
    """the per-frequency counting block through a helper defined in the loop's function, working on row views of the caller's arrays"""
    return ("            def _cum(levels, crow):\n"
            "                amax = amp.max()\n"
            f"                {level_update}\n"
            "                for jj in range(levels.shape[0]):\n"
            f"                    crow[jj] = np.sum(count[{mask}])\n"
            "                return amax\n\n"
            "            amp = rf[\"amp\"]\n"
            "            count = rf[\"count\"]\n"
            "            Amax[j] = _cum(BinAmps[j], Count[j])\n")


RECIPES += [
    # -------------------------------------------------------------------------------------------------------------- neutral
    _df("    rows = list(zip(BinAmps, BinCount))\n    Df4 = np.array([(amps**b4).dot(cnts) for amps, cnts in rows])\n"
        "    Df8 = np.array([(amps**b8).dot(cnts) for amps, cnts in rows])\n    Df12 = np.array([(amps**b12).dot(cnts) for amps, cnts in rows])\n")
    + ("damage indicators over list(zip(BinAmps, BinCount))",),
    _df("    for j, (amps, cnts) in enumerate(zip(BinAmps, BinCount)):\n        Df4[j] = (amps ** b4).dot(cnts)\n        Df8[j] = (amps ** b8).dot(cnts)\n"
        "        Df12[j] = (amps ** b12).dot(cnts)\n") + ("damage indicators in an enumerate(zip(...)) loop",),
    _df("    Df4 = np.array(list(map(lambda a, c: (a ** b4).dot(c), BinAmps, BinCount)))\n"
        "    Df8 = np.fromiter(map(lambda a, c: (a ** b8).dot(c), BinAmps, BinCount), float)\n"
        "    Df12 = np.array([*map(lambda a, c: np.inner(np.power(a, b12), c), BinAmps, BinCount)])\n") + ("damage indicators through map / lambda / np.inner / np.power",),
    _df("    def _di(b):\n        out = np.empty(LF)\n        for j in range(LF):\n            out[j] = (BinAmps[j] ** b).dot(BinCount[j])\n        return out\n\n"
        "    row12 = lambda k: (BinAmps[k] ** b12).dot(BinCount[k])\n    Df4, Df8 = _di(b4), _di(b8)\n    for j in range(LF):\n        Df12[j] = row12(j)\n")
    + ("damage indicators through a closure and a named lambda",),
    ("C10", "neutral", [], FDE, _COUNT_LOOP, "            Count[j, :] = list(map(lambda lv: np.sum(count[amp >= lv]), BinAmps[j]))\n", "cumulative count row through map, stored with a trailing full slice"),
    ("C10", "neutral", [], FDE, _SERIAL_COUNT, _row_helper("levels *= amax", "amp >= levels[jj]"), "counting block in a helper that updates row views of the caller's arrays in place"),
    ("C10", "neutral", [], FDE, _BINCOUNT, "    BinCount = np.empty_like(Count)\n    BinCount[:, :-1] = -np.diff(Count, axis=1)\n    BinCount[:, -1] = Count[:, -1]",
     "BinCount allocated and stored block by block, -np.diff along the columns"),
    ("C10", "neutral", [], FDE, '    if resp == "absacce":\n        G1 = Amax**2 / (Q * pi * freq * lnN0)', '    if resp != "pvelo":\n        G1 = Amax**2 / (Q * pi * freq * lnN0)',
     "response arm selected by testing the other literal"),
    ("C10", "neutral", [], FDE, '    if parallel == "yes":', '    if not parallel == "no":', "serial arm selected by testing 'no'"),
    ("C10", "neutral", [], FDE, "    if sig.ndim > 1 or freq.ndim > 1:", "    if max(sig.ndim, freq.ndim) > 1:", "input check through max()"),
    ("C10", "neutral", [], FDE, "            b, a = coeffunc(Q, dT, wn)\n            resphist = signal.lfilter(b, a, sig)", "            resphist = signal.lfilter(*coeffunc(Q, dT, wn), sig)",
     "filter coefficients passed with a star"),
    ("C10", "neutral", [], CYC, _GB_VEC, "        if check_bounds:\n            below = (lambda v, e: v <= e) if right else (lambda v, e: v < e)\n"
     "            out_of_bounds = (True if below(mn, bb[0]) else mx > bb[-1]) if right else bool(below(mn, bb[0]) or mx >= bb[-1])\n", "verdict through ternaries and a lambda chosen by `right`"),
    ("C10", "neutral", [], CYC, _BINIFY_LOOPS, "    for (bim, bir), cyc in zip(zip(bin_indices_mean, bin_indices_range), cycles):\n"
     "        if ensure_boundaries and (bim < 0 or bim >= num_bins_mean or bir < 0 or bir >= num_bins_range):\n            continue\n        markov_matrix[bim, bir] += cyc[2]\n",
     "the two _binify loops merged, zip over the index vectors, continue guard"),
    ("C10", "neutral", [], CYC, _FINDAP_TAIL, "        def _full():\n            PV = np.full(len(y), False)\n            PV[u] = pv\n            return PV\n\n        return pv if allu else _full()\n",
     "ternary return, expansion in a closure, np.full(n, False)"),
    ("C10", "neutral", [], CYC, _FINDAP_TAIL, "        if not allu:\n            PV = np.zeros(y.size, bool)\n            PV[u] = pv\n            pv = PV\n        return pv\n", "single exit: the mask name re-bound to the expanded array"),
    ("C10", "neutral", [], CYC, _FINDAP_YU, "        allu = bool(u.all())\n        yu = y[u] if not allu else y\n", "all-unique flag and retained samples by ternary"),
    ("C10", "neutral", [], CYC, _FINDAP_MASK, "        n = yu.size\n        pv = np.full(n, True)\n        pv[1 : n - 1] = np.abs(np.diff(s)) == 2\n        if n >= 3:\n            pv[n - 1] = yu[n - 1] != yu[n - 2]\n",
     "indices from the end written with the length"),
    ("C10", "neutral", [], CYC, "    return [form.format(i, j) for i, j in zip(bins[:-1], bins[1:])]",
     "    labels = []\n    for k in range(len(bins) - 1):\n        labels.append(form.format(bins[k], bins[k + 1]))\n    return labels", "labels built by append in a loop"),
    ("C10", "neutral", [], CYC, "    return [form.format(i, j) for i, j in zip(bins[:-1], bins[1:])]", "    return list(map(lambda lo, hi: form.format(lo, hi), bins[:-1], bins[1:]))", "labels through map"),
    ("C10", "neutral", [], LOC, "    stol = abs(tol * abs(m).max())\n    pv = np.hstack((True, abs(m) > stol))\n    return pv",
     "    scaled = lambda d: abs(tol * d.max())\n    return np.hstack(([True], np.array([d > scaled(abs(m)) for d in abs(m)])))", "tolerance through a lambda, mask spelled element by element"),
    ("C10", "neutral", [], FDE, _SERIAL_COUNT, "            def _cumrow(levels):\n                out = np.zeros(len(levels))\n                for k in range(len(levels)):\n"
     "                    out[k] = np.sum(count[amp >= levels[k]])\n                return out\n\n            amp = rf[\"amp\"]\n            count = rf[\"count\"]\n"
     "            Amax[j] = amp.max()\n            BinAmps[j] *= Amax[j]\n            Count[j] = _cumrow(BinAmps[j])\n", "cumulative counts of a frequency returned by a helper as a freshly filled row"),
    ("C10", "neutral", [], CYC, "            bim = bin_indices_mean[i]\n            bir = bin_indices_range[i]\n", "            bim = (bin_indices_mean + 1)[i] - 1\n            bir = bin_indices_range[i]\n",
     "digitize offset applied partly to the vector and partly to the element"),
    # ---------------------------------------------------------------------------------------------------------------- break (in refactored spellings)
    ("C10", "break", ["C10-R5"], CYC, "    bin_indices_range = np.digitize(cycles[:, 0], bins_range, right=right) - 1", "    bin_indices_range = np.digitize(cycles[0, :], bins_range, right=right) - 1",
     "amplitudes taken from row 0 instead of column 0 (the evaluator writes X[0, :] as X[0])"),
    ("C10", "break", ["C10-R3"], FDE, _BINCOUNT, "    BinCount = np.hstack((Count[:-1, :] - Count[:, 1:], Count[:, -1:]))", "differences taken along the frequencies"),
    ("C10", "break", ["C10-R5"], CYC, "            bim = bin_indices_mean[i]\n            bir = bin_indices_range[i]\n", "            bim = bin_indices_mean[i] - 1\n            bir = bin_indices_range[i]\n",
     "bin index shifted once more at the element"),
    ("C10", "break", ["C10-R1"], FDE, _DF_LOOP, "    rows = list(zip(BinAmps, BinCount))\n    Df4 = np.array([(amps**b4).dot(cnts) for amps, cnts in rows])\n"
     "    Df8 = np.array([(amps**b4).dot(cnts) for amps, cnts in rows])\n    Df12 = np.array([(amps**b12).dot(cnts) for amps, cnts in rows])\n", "wrong exponent inside a comprehension over zipped rows"),
    ("C10", "break", ["C10-R1"], FDE, _DF_LOOP, "    Df4 = np.array(list(map(lambda a, c: (a ** b4).dot(c), BinAmps, BinCount)))\n"
     "    Df8 = np.array(list(map(lambda a, c: (a ** b8).dot(c), BinAmps, Count)))\n    Df12 = np.array(list(map(lambda a, c: (a ** b12).dot(c), BinAmps, BinCount)))\n",
     "map over the cumulative instead of the non-cumulative counts"),
    ("C10", "break", ["C10-R3"], FDE, _SERIAL_COUNT, _row_helper("levels *= amax", "amp > levels[jj]"), "helper on row views: cycles on the level excluded"),
    ("C10", "break", ["C10-R3"], FDE, _SERIAL_COUNT, _row_helper("levels *= amp.min()", "amp >= levels[jj]"), "helper on row views: levels scaled in place by the smallest amplitude"),
    ("C10", "break", ["C10-R3"], FDE, _BINCOUNT, "    BinCount = np.empty_like(Count)\n    BinCount[:, :-1] = np.diff(Count, axis=1)\n    BinCount[:, -1] = Count[:, -1]", "block-wise BinCount with the sign of the differences lost"),
    ("C10", "break", ["C10-R5"], CYC, _BINIFY_LOOPS, "    for (bim, bir), cyc in zip(zip(bin_indices_mean, bin_indices_range), cycles):\n"
     "        if ensure_boundaries and (bim < 0 or bim > num_bins_mean or bir < 0 or bir >= num_bins_range):\n            continue\n        markov_matrix[bim, bir] += cyc[2]\n",
     "merged _binify loop whose continue guard admits the row one past the end"),
    ("C10", "break", ["C10-R5"], CYC, _GB_VEC, "        if check_bounds:\n            out_of_bounds = (mn < bb[0] or mx > bb[-1]) if right else (mn < bb[0] or mx >= bb[-1])\n", "nested ternary verdict with the right=True lower edge open"),
    ("C10", "break", ["C10-R6"], CYC, _FINDAP_TAIL, "        def _full():\n            PV = np.full(len(y), False)\n            PV[~u] = pv\n            return PV\n\n        return pv if allu else _full()\n",
     "closure scatters onto the removed samples"),
    ("C10", "break", ["C10-R6"], CYC, _FINDAP_YU, "        allu = bool(u.all())\n        yu = y[u] if allu else y\n", "ternary arms of the retained samples swapped"),
    ("C10", "break", ["C10-R6"], CYC, "        pv = np.ones(yu.size, bool)", "        pv = np.zeros(yu.size, bool)", "mask created all False: the first sample is dropped"),
    ("C10", "break", ["C10-R7"], FDE, "        if np.any(pv):\n            x = BinAmps[j, pv] ** 2", "        if not pv.any():\n            continue\n        if True:\n            x = BinAmps[j, pv]", "continue guard; x of degree 1 compared through np.interp / tantheta"),
]


# ============================================================================================ third pass: the reversal test of the vectorised findap
_FINDAP_REV = '''        s = np.sign(np.diff(yu))
        # [ 1,  1,  1, -1]

        # locate local max/mins:
        pv = np.ones(yu.size, bool)
        pv[1:-1] = np.abs(np.diff(s)) == 2
'''


def _rev(kind, pre, test, text, rules=()):
    return ("C10", kind, list(rules), CYC, _FINDAP_REV, pre + "        pv = np.ones(yu.size, bool)\n        pv[1:-1] = " + test + "\n", text)


_S = "        s = np.sign(np.diff(yu))\n"
_D = "        d = np.diff(yu)\n"

RECIPES += [
    # ---------------------------------------------------------------------------------------------------------------- break
    _rev("break", _D, "d[:-1] * d[1:] < 0", "reversal test as the sign of the product of two slopes in the signal's own dtype: wraps around for int16 / int32 signals (seeded change F)", ["C10-R6"]),
    _rev("break", "", "(yu[1:-1] - yu[:-2]) * (yu[1:-1] - yu[2:]) > 0", "local-extreme test as a product of the two one-sided differences (same overflow, multiplied out by the evaluator)", ["C10-R6"]),
    _rev("break", _D, "np.sign(d[:-1] * d[1:]) == -1", "sign taken after the product", ["C10-R6"]),
    _rev("break", _D, "d[:-1] * d[1:] <= 0", "non-strict product test (a product that wraps to exactly 0 marks a non-reversal)", ["C10-R6"]),
    _rev("break", "        d = np.diff(yu)\n        q = d * d\n", "(q[:-1] + q[1:]) > (d[:-1] + d[1:]) ** 2", "d0^2 + d1^2 > (d0 + d1)^2, algebraically d0 d1 < 0: squares of slopes wrap as well", ["C10-R6"]),
    _rev("break", _S, "np.diff(s) == 2", "only valleys (slope sign going from -1 to +1) are marked", ["C10-R6"]),
    _rev("break", _S, "s[:-1] > s[1:]", "only peaks are marked", ["C10-R6"]),
    _rev("break", _S, "s[1:] == s[:-1]", "samples on monotone stretches are marked instead of the reversals", ["C10-R6"]),
    _rev("break", _S, "np.abs(np.diff(s)) == 1", "a jump of 1 between slope signs never happens on retained samples: no interior reversal is marked", ["C10-R6"]),
    # -------------------------------------------------------------------------------------------------------------- neutral
    _rev("break", _S, "s[1:] != s[:-1]", "neighbouring slope signs differ [pass 6: NOT neutral - a zero slope between two equal retained samples of a drift signal marks both]", ["C10-R6"]),
    _rev("neutral", _S, "s[:-1] * s[1:] < 0", "product of the slope SIGNS (values in {-1, 0, 1}: cannot overflow)"),
    _rev("break", _D, "(d[:-1] > 0) != (d[1:] > 0)", "slopes compared with 0, masks compared [pass 6: NOT neutral - a zero slope between two equal retained samples of a drift signal marks both]", ["C10-R6"]),
    _rev("neutral", _D, "((d[:-1] > 0) & (d[1:] < 0)) | ((d[:-1] < 0) & (d[1:] > 0))", "peak-or-valley spelled with mask operators"),
    _rev("neutral", "        mid, lft, rgt = yu[1:-1], yu[:-2], yu[2:]\n", "((mid > lft) & (mid > rgt)) | ((mid < lft) & (mid < rgt))", "samples compared directly with both neighbours, no differences at all"),
    _rev("neutral", "        d = np.diff(yu.astype(float))\n", "d[:-1] * d[1:] < 0", "slope product after converting the samples to float (identical unless the product underflows, |slope| < 1e-162)"),
    _rev("neutral", "        d = np.diff(yu).astype(np.float64)\n", "d[:-1] * d[1:] < 0", "slope product after converting the slopes to float64"),
    _rev("break", _D, "np.logical_xor(d[:-1] > 0, d[1:] > 0)", "np.logical_xor of the two slope tests [pass 6: NOT neutral - a zero slope between two equal retained samples of a drift signal marks both]", ["C10-R6"]),
    _rev("break", _D, "(d[:-1] > 0) ^ (d[1:] > 0)", "^ on the two slope masks [pass 6: NOT neutral - a zero slope between two equal retained samples of a drift signal marks both]", ["C10-R6"]),
    _rev("break", _D, "np.signbit(d[:-1]) != np.signbit(d[1:])", "np.signbit of the slopes [pass 6: NOT neutral - a zero slope between two equal retained samples of a drift signal marks both]", ["C10-R6"]),
    _rev("break", _D, "np.sign(d[:-1]) + np.sign(d[1:]) == 0", "the two slope signs cancel [pass 6: NOT neutral - a zero slope between two equal retained samples of a drift signal marks both]", ["C10-R6"]),
    _rev("break", _S, "np.where(s[:-1] == s[1:], False, True)", "np.where over equal signs [pass 6: NOT neutral - a zero slope between two equal retained samples of a drift signal marks both]", ["C10-R6"]),
    _rev("break", _S, "~(s[:-1] == s[1:])", "inverted equality mask [pass 6: NOT neutral - a zero slope between two equal retained samples of a drift signal marks both]", ["C10-R6"]),
    _rev("break", _S, "np.abs(np.diff(s)) > 0", "any non-zero jump of the slope sign (0 and 2 are the only jumps on retained samples) [pass 6: NOT neutral - a zero slope between two equal retained samples of a drift signal marks both]", ["C10-R6"]),
    _rev("neutral", _D, "d[:-1] / d[1:] < 0", "sign of the quotient of the slopes (true division is floating point; slopes of retained samples are never 0)"),
]

# ---- third pass: refactorings of other kinds (each verified on the pyyeti tests and, for findap, on random int8 .. float64 signals) and their broken siblings
_FU_TAIL = "    pv = np.hstack((True, abs(m) > stol))\n    return pv"
_SCATTER = "        PV = np.zeros(y.size, bool)  # non-uniques are not peaks\n        PV[u] = pv\n"
_ENDPOINT = "        if yu.size > 2:\n            pv[-1] = yu[-1] != yu[-2]\n"
_GB_SIDES = _GB_VEC.split("        if check_bounds:\n", 1)[1]

RECIPES += [
    ("C10", "neutral", [], CYC, _GB_SIDES, "            lo_out = (mn <= bb[0]) if right else (mn < bb[0])\n            hi_out = (mx > bb[-1]) if right else (mx >= bb[-1])\n"
     "            out_of_bounds = bool(lo_out or hi_out)\n", "verdict assembled from one ternary per side"),
    ("C10", "neutral", [], CYC, _GB_SIDES, "            where = np.digitize([mn, mx], bb, right=right)\n            out_of_bounds = bool(where[0] == 0 or where[1] == len(bb))\n",
     "verdict obtained by asking np.digitize itself where the extremes fall"),
    ("C10", "break", ["C10-R5"], CYC, _GB_SIDES, "            where = np.digitize([mn, mx], bb)\n            out_of_bounds = bool(where[0] == 0 or where[1] == len(bb))\n",
     "np.digitize verdict without `right`: a smallest value on the first edge of right-closed bins is reported in bounds"),
    ("C10", "neutral", [], LOC, _FU_TAIL, "    pv = np.ones(y.size, bool)\n    pv[1:] = abs(m) > stol\n    return pv", "find_unique's mask allocated and block-stored instead of concatenated"),
    ("C10", "break", ["C10-R6"], LOC, _FU_TAIL, "    pv = np.ones(y.size, bool)\n    pv[1:] = abs(m) >= stol\n    return pv", "allocated mask with the non-strict tolerance comparison"),
    ("C10", "neutral", [], CYC, _SCATTER, "        PV = u.copy()  # non-uniques are not peaks\n        PV[u] = pv\n", "expansion starts from a copy of the retained-samples mask (False exactly where nothing is stored)"),
    ("C10", "break", ["C10-R6"], CYC, _SCATTER, "        PV = np.ones(y.size, bool)\n        PV[u] = pv\n", "expansion starts all True: every removed repeat is reported as a peak"),
    ("C10", "neutral", [], CYC, _ENDPOINT, "        pv[-1] = yu.size <= 2 or yu[-1] != yu[-2]\n", "end-point guard folded into the stored value"),
    ("C10", "break", ["C10-R6"], CYC, _ENDPOINT, "        pv[-1] = yu.size > 2 and yu[-1] != yu[-2]\n", "folded the wrong way: the second of two retained samples is dropped"),
    ("C10", "break", ["C10-R6"], CYC, _ENDPOINT, "        if yu.size > 2:\n            pv[-1] = yu[-1] == yu[-2]\n", "end-point test inverted: the last retained sample is always dropped"),
    ("C10", "neutral", [], CYC, "        if y.size == 1:\n            return np.array([True])\n\n        # first, find", "        if len(y) < 2:\n            return np.ones(len(y), bool)\n\n        # first, find",
     "short-signal exit tested with len(y) < 2"),
    ("C10", "neutral", [], FDE, _BINCOUNT, "    BinCount = Count - np.hstack((Count[:, 1:], np.zeros((LF, 1))))", "BinCount as Count minus Count shifted by one column"),
    ("C10", "break", ["C10-R3"], FDE, _BINCOUNT, "    BinCount = Count - np.hstack((np.zeros((LF, 1)), Count[:, :-1]))", "shifted the wrong way: differences of the wrong sign, first bin keeps the total"),
    ("C10", "neutral", [], FDE, "        G1 = Amax**2 / (Q * pi * freq * lnN0)", "        G1 = np.square(Amax) / Q / pi / freq / lnN0", "G1 with np.square and chained divisions"),
    ("C10", "neutral", [], FDE, "            k = np.argmax(tantheta)\n            if tantheta[k] > 0:", "            k = int(tantheta.argmax())\n            if tantheta.max() > 0:", "argmax as a method, the test on max()"),
]


# ---- fourth pass: refactorings of further kinds (array-API spellings, vectorised row sums, copies updated in place, out= stores, counted while loops,
# callables through locals / partial / operator tables / nested functions, regime tables, string formatting, loop-filled masks) - every neutral text was
# verified in a scratch copy of the repository (pyyeti tests + 432 differential cases against the unchanged tree) - and broken siblings of the same constructs
RECIPES += [
    # -------------------------------------------------------------------------------------------------------------- neutral
    ("C10", "neutral", [], FDE, '    for j in range(LF):\n        Df4[j] = (BinAmps[j] ** b4).dot(BinCount[j])\n        Df8[j] = (BinAmps[j] ** b8).dot(BinCount[j])\n        Df12[j] = (BinAmps[j] ** b12).dot(BinCount[j])\n',
     '    Df4[:] = np.sum(BinAmps**b4 * BinCount, axis=1)\n    Df8[:] = (BinAmps**b8 * BinCount).sum(axis=1)\n    Df12[:] = np.einsum("ij,ij->i", BinAmps**b12, BinCount)\n',
     'damage indicators as whole-array row sums stored with [:] (np.sum axis=1, .sum(axis=1), einsum)'),
    ("C10", "neutral", [], FDE, '    Df4 = np.zeros(LF)\n    Df8 = np.zeros(LF)\n    Df12 = np.zeros(LF)\n    for j in range(LF):\n        Df4[j] = (BinAmps[j] ** b4).dot(BinCount[j])\n        Df8[j] = (BinAmps[j] ** b8).dot(BinCount[j])\n        Df12[j] = (BinAmps[j] ** b12).dot(BinCount[j])\n',
     '    Df4 = np.sum(BinAmps**b4 * BinCount, axis=1)\n    Df8 = (BinAmps**b8 * BinCount).sum(axis=-1)\n    Df12 = np.sum(BinCount * BinAmps**b12, 1)\n',
     'damage indicators as row sums bound directly (axis=1, axis=-1, positional axis)'),
    ("C10", "neutral", [], FDE, '    Df4 = np.zeros(LF)\n    Df8 = np.zeros(LF)\n    Df12 = np.zeros(LF)\n    for j in range(LF):\n        Df4[j] = (BinAmps[j] ** b4).dot(BinCount[j])\n        Df8[j] = (BinAmps[j] ** b8).dot(BinCount[j])\n        Df12[j] = (BinAmps[j] ** b12).dot(BinCount[j])\n',
     '    Df = {b: np.zeros(LF) for b in (b4, b8, b12)}\n    for j in range(LF):\n        for b, arr in Df.items():\n            arr[j] = (BinAmps[j] ** b).dot(BinCount[j])\n    Df4, Df8, Df12 = Df[b4], Df[b8], Df[b12]\n',
     'damage-indicator arrays kept in a dict keyed by the exponent and filled through .items()'),
    ("C10", "neutral", [], FDE, '    for j in range(LF):\n        Df4[j] = (BinAmps[j] ** b4).dot(BinCount[j])\n        Df8[j] = (BinAmps[j] ** b8).dot(BinCount[j])\n        Df12[j] = (BinAmps[j] ** b12).dot(BinCount[j])\n',
     '    for j, (amps, cnts) in enumerate(zip(BinAmps, BinCount)):\n        Df4[j] = np.dot(amps**b4, cnts)\n        Df8[j] = np.sum(amps**b8 * cnts)\n        Df12[j] = (cnts * amps**b12).sum()\n',
     'damage indicators from zipped rows with np.dot / np.sum of the product / .sum()'),
    ("C10", "neutral", [], FDE, '    for j in range(LF):\n        Df4[j] = (BinAmps[j] ** b4).dot(BinCount[j])\n        Df8[j] = (BinAmps[j] ** b8).dot(BinCount[j])\n        Df12[j] = (BinAmps[j] ** b12).dot(BinCount[j])\n',
     '    for j in range(LF):\n        Df4[j] = BinAmps[j] ** b4 @ BinCount[j]\n        Df8[j] = BinCount[j] @ BinAmps[j] ** b8\n        Df12[j] = np.inner(BinAmps[j] ** b12, BinCount[j])\n',
     'damage indicators with @ and np.inner'),
    ("C10", "neutral", [], FDE, 'BinCount = np.hstack((Count[:, :-1] - Count[:, 1:], Count[:, -1:]))',
     'BinCount = np.hstack((-np.diff(Count, axis=1), Count[:, -1:]))',
     'BinCount from -np.diff(Count, axis=1)'),
    ("C10", "neutral", [], FDE, 'BinCount = np.hstack((Count[:, :-1] - Count[:, 1:], Count[:, -1:]))',
     'BinCount = np.column_stack((Count[:, :-1] - Count[:, 1:], Count[:, -1]))',
     'BinCount by np.column_stack with the last column as a 1-D piece'),
    ("C10", "neutral", [], FDE, 'BinCount = np.hstack((Count[:, :-1] - Count[:, 1:], Count[:, -1:]))',
     'BinCount = np.c_[Count[:, :-1] - Count[:, 1:], Count[:, -1]]',
     'BinCount by np.c_'),
    ("C10", "neutral", [], FDE, 'BinCount = np.hstack((Count[:, :-1] - Count[:, 1:], Count[:, -1:]))',
     'BinCount = np.append(Count[:, :-1] - Count[:, 1:], Count[:, -1:], axis=1)',
     'BinCount by np.append(..., axis=1)'),
    ("C10", "neutral", [], FDE, 'BinCount = np.hstack((Count[:, :-1] - Count[:, 1:], Count[:, -1:]))',
     'BinCount = np.hstack((np.subtract(Count[:, :-1], Count[:, 1:]), Count[:, [-1]]))',
     'BinCount with np.subtract and a list index for the last column'),
    ("C10", "neutral", [], FDE, '            rf = cyclecount.rainflow(resphist[ind])\n\n            amp = rf["amp"]\n            count = rf["count"]\n',
     '            rf = cyclecount.rainflow(resphist[ind], use_pandas=False)\n\n            amp = rf[:, 0]\n            count = rf[:, 2]\n',
     'cycle table requested as an ndarray, columns by position'),
    ("C10", "neutral", [], FDE, '            amp = rf["amp"]\n            count = rf["count"]\n            Amax[j] = amp.max()',
     '            amp = rf.amp\n            count = rf["count"]\n            Amax[j] = amp.max()',
     'amplitude column by attribute access'),
    ("C10", "neutral", [], FDE, '            amp = rf["amp"]\n            count = rf["count"]\n            Amax[j] = amp.max()',
     '            amp = rf["amp"].values\n            count = rf["count"].to_numpy()\n            Amax[j] = amp.max()',
     'columns through .values / .to_numpy()'),
    ("C10", "neutral", [], FDE, '            amp = rf["amp"]\n            count = rf["count"]\n            Amax[j] = amp.max()',
     '            amp = rf.loc[:, "amp"]\n            count = rf.iloc[:, 2]\n            Amax[j] = amp.max()',
     'columns through .loc / .iloc'),
    ("C10", "neutral", [], FDE, '                pv = amp >= BinAmps[j, jj]\n                Count[j, jj] = np.sum(count[pv])',
     '                Count[j, jj] = np.where(amp >= BinAmps[j, jj], count, 0).sum()',
     'cumulative count as the sum of np.where(mask, count, 0)'),
    ("C10", "neutral", [], FDE, '                pv = amp >= BinAmps[j, jj]\n                Count[j, jj] = np.sum(count[pv])',
     '                pv = ~(amp < BinAmps[j, jj])\n                Count[j, jj] = count[pv].sum()',
     'cumulative-count mask as the complement of amp < level'),
    ("C10", "neutral", [], FDE, '                pv = amp >= BinAmps[j, jj]\n                Count[j, jj] = np.sum(count[pv])',
     '                Count[j, jj] = np.sum(count[BinAmps[j, jj] <= amp])',
     'cumulative-count mask with swapped operands, no temporary'),
    ("C10", "neutral", [], FDE, '                pv = amp >= BinAmps[j, jj]\n                Count[j, jj] = np.sum(count[pv])',
     '                pv = np.greater_equal(amp, BinAmps[j, jj])\n                Count[j, jj] = np.sum(count[pv])',
     'cumulative-count mask by np.greater_equal'),
    ("C10", "neutral", [], FDE, '    if resp == "absacce":\n        G1 =',
     '    acce = {"absacce": True, "pvelo": False}[resp]\n    if acce:\n        G1 =',
     'response regime through a literal truth table'),
    ("C10", "neutral", [], FDE, '    if resp == "absacce":\n        G1 =',
     '    if resp in ("absacce",):\n        G1 =',
     'response regime tested with `in`'),
    ("C10", "neutral", [], FDE, '    if resp == "absacce":\n        G1 =',
     '    if resp[0] == "a":\n        G1 =',
     'response regime tested on the first character'),
    ("C10", "neutral", [], FDE, '        sig2_8 = (Df8 / Dt8) ** (1 / 4)\n        G8 = sig2_8 / (',
     '        sig2_8 = np.sqrt(np.sqrt(Df8 / Dt8))\n        G8 = sig2_8 / (',
     'fourth root as sqrt of sqrt'),
    ("C10", "neutral", [], FDE, '        sig2_12 = (Df12 / Dt12) ** (1 / 6)\n        G12 = sig2_12 / (',
     '        sig2_12 = np.power(Df12 / Dt12, 1.0 / 6.0)\n        G12 = sig2_12 / (',
     'sixth root by np.power with float literals'),
    ("C10", "neutral", [], FDE, '        G4 = sig2_4 / ((Q * pi / 2) * freq)\n',
     '        G4 = sig2_4 / (Q * pi * freq / 2)\n',
     'G4 denominator re-associated'),
    ("C10", "neutral", [], FDE, '        G1 = Amax**2 / (Q * pi * freq * lnN0)\n        G2 = G2max / (Q * pi * freq * lnN0)\n',
     '        fac = 1.0 / (Q * pi * freq * lnN0)\n        G1, G2 = (fac * x for x in (Amax**2, G2max))\n',
     'G1 and G2 from one hoisted factor through a generator over a literal tuple'),
    ("C10", "neutral", [], FDE, '        Dt4 = N0 * 8 - (Abar2 + 4 * Abar + 8)\n',
     '        Dt4 = N0 * 8 - np.polyval([1, 4, 8], Abar)\n',
     'Dt4 polynomial by np.polyval'),
    ("C10", "neutral", [], FDE, '    lcls = locals()\n    dct = {k: lcls[k] for k in columns}\n',
     '    dct = dict(zip(columns, (G1, G2, G4, G8, G12)))\n',
     'psd table from dict(zip(labels, columns))'),
    ("C10", "neutral", [], FDE, '    lcls = locals()\n    dct = {k: lcls[k] for k in columns}\n    Gpsd = pd.DataFrame(dct, columns=columns, index=freq)',
     '    Gpsd = pd.DataFrame(np.column_stack((G1, G2, G4, G8, G12)), columns=columns, index=freq)',
     'psd table from np.column_stack with the label list'),
    ("C10", "neutral", [], FDE, '    di_sig = pd.DataFrame(\n        np.column_stack((Df4, Df8, Df12)), columns=["b=4", "b=8", "b=12"], index=index\n    )',
     '    di_sig = pd.DataFrame({"b=4": Df4, "b=8": Df8, "b=12": Df12}, index=index)',
     'di_sig from a dict of labelled columns'),
    ("C10", "neutral", [], FDE, '    di_sig = pd.DataFrame(\n        np.column_stack((Df4, Df8, Df12)), columns=["b=4", "b=8", "b=12"], index=index\n    )',
     '    di_sig = pd.DataFrame(\n        np.vstack((Df4, Df8, Df12)).T, columns=[f"b={b}" for b in (b4, b8, b12)], index=index\n    )',
     'di_sig labels from an f-string over the exponents, data by vstack(...).T'),
    ("C10", "neutral", [], FDE, '        BinAmps = np.zeros((LF, nbins))\n        BinAmps += np.arange(nbins, dtype=float) / nbins\n',
     '        BinAmps = np.tile(np.arange(nbins, dtype=float) / nbins, (LF, 1))\n',
     'unit levels by np.tile'),
    ("C10", "neutral", [], FDE, '        BinAmps = np.zeros((LF, nbins))\n        BinAmps += np.arange(nbins, dtype=float) / nbins\n',
     '        BinAmps = np.ones((LF, 1)) * (np.arange(nbins, dtype=float) / nbins)\n',
     'unit levels by broadcasting against np.ones((LF, 1))'),
    ("C10", "neutral", [], FDE, '            BinAmps[j] *= Amax[j]\n',
     '            BinAmps[j] = BinAmps[j] * Amax[j]\n',
     'row of levels scaled by a plain assignment'),
    ("C10", "neutral", [], FDE, '            BinAmps[j] *= Amax[j]\n',
     '            np.multiply(BinAmps[j], Amax[j], out=BinAmps[j])\n',
     'row of levels scaled by np.multiply(..., out=row view)'),
    ("C10", "neutral", [], FDE, '        pv = BinAmps[j] >= Amax[j] / 3  # ignore small amp cycles\n',
     '        pv = 3 * BinAmps[j] >= Amax[j]  # ignore small amp cycles\n',
     'small-cycle cut-off multiplied out'),
    ("C10", "neutral", [], FDE, '            SRSmax[j] = abs(resphist).max()\n',
     '            SRSmax[j] = np.max(np.fabs(resphist))\n',
     'SRS value with np.max(np.fabs(.))'),
    ("C10", "neutral", [], FDE, '            SRSmax[j] = abs(resphist).max()\n',
     '            SRSmax[j] = max(resphist.max(), -resphist.min())\n',
     'SRS value as max(R.max(), -R.min())'),
    ("C10", "neutral", [], CYC, '                if mn <= bb[0] or mx > bb[-1]:\n                    out_of_bounds = True\n                else:\n                    out_of_bounds = False\n            else:\n                if mn < bb[0] or mx >= bb[-1]:\n                    out_of_bounds = True\n                else:\n                    out_of_bounds = False',
     '                out_of_bounds = not (bb[0] < mn and mx <= bb[-1])\n            else:\n                out_of_bounds = not (bb[0] <= mn and mx < bb[-1])',
     'verdict as negated containment'),
    ("C10", "neutral", [], CYC, '                if mn <= bb[0] or mx > bb[-1]:\n                    out_of_bounds = True\n                else:\n                    out_of_bounds = False\n            else:\n                if mn < bb[0] or mx >= bb[-1]:\n                    out_of_bounds = True\n                else:\n                    out_of_bounds = False',
     '                out_of_bounds = not (bb[0] < mn <= mx <= bb[-1])\n            else:\n                out_of_bounds = not (bb[0] <= mn <= mx < bb[-1])',
     'verdict as negated chained comparison'),
    ("C10", "neutral", [], CYC, '                if mn <= bb[0] or mx > bb[-1]:\n                    out_of_bounds = True',
     '                if np.less_equal(mn, bb[0]) or np.greater(mx, bb[-1]):\n                    out_of_bounds = True',
     'verdict with np.less_equal / np.greater'),
    ("C10", "neutral", [], CYC, '                if mn <= bb[0] or mx > bb[-1]:\n                    out_of_bounds = True\n                else:\n                    out_of_bounds = False\n            else:\n                if mn < bb[0] or mx >= bb[-1]:\n                    out_of_bounds = True\n                else:\n                    out_of_bounds = False',
     '                below, above = (lambda v: v <= bb[0]), (lambda v: v > bb[-1])\n            else:\n                below, above = (lambda v: v < bb[0]), (lambda v: v >= bb[-1])\n            out_of_bounds = bool(below(mn) or above(mx))',
     'verdict through per-side lambdas chosen by `right`'),
    ("C10", "neutral", [], CYC, '        if right:\n            bb[0] -= p\n        else:\n            bb[-1] += p\n        out_of_bounds = False',
     '        k, sgn = (0, -1) if right else (-1, 1)\n        bb[k] += sgn * p\n        out_of_bounds = False',
     'scalar bins: moved edge chosen by a (index, sign) pair'),
    ("C10", "neutral", [], CYC, '        if right:\n            bb[0] -= p\n        else:\n            bb[-1] += p\n        out_of_bounds = False',
     '        if right:\n            bb[0] = bb[0] - p\n        else:\n            bb[len(bb) - 1] = bb[-1] + p\n        out_of_bounds = False',
     'scalar bins: moved edge by plain assignment, last edge as len(bb) - 1'),
    ("C10", "neutral", [], CYC, '        for i in range(len(cycles)):\n            bim = bin_indices_mean[i]\n            bir = bin_indices_range[i]\n            if (0 <= bim < num_bins_mean) and (0 <= bir < num_bins_range):\n                markov_matrix[bim, bir] += cycles[i, 2]',
     '        for cyc, bim, bir in zip(cycles, bin_indices_mean, bin_indices_range):\n            if not (0 <= bim < num_bins_mean and 0 <= bir < num_bins_range):\n                continue\n            markov_matrix[bim, bir] = markov_matrix[bim, bir] + cyc[2]',
     'guarded arm as a zip loop with an early continue and a non-augmented store'),
    ("C10", "neutral", [], CYC, '            if (0 <= bim < num_bins_mean) and (0 <= bir < num_bins_range):\n',
     '            if min(bim, bir) >= 0 and bim < num_bins_mean and bir < num_bins_range:\n',
     'index guard with min(bim, bir) >= 0'),
    ("C10", "neutral", [], CYC, '            if (0 <= bim < num_bins_mean) and (0 <= bir < num_bins_range):\n',
     '            if (0 <= bim < markov_matrix.shape[0]) and (0 <= bir < markov_matrix.shape[1]):\n',
     "index guard against the allocated table's shape"),
    ("C10", "neutral", [], CYC, '        for i in range(len(cycles)):\n            markov_matrix[bin_indices_mean[i], bin_indices_range[i]] += cycles[i, 2]',
     '        i = 0\n        while i < len(cycles):\n            markov_matrix[bin_indices_mean[i], bin_indices_range[i]] += cycles[i, 2]\n            i += 1',
     'unguarded arm as a counted while loop'),
    ("C10", "neutral", [], CYC, '    bin_indices_range = np.digitize(cycles[:, 0], bins_range, right=right) - 1\n    bin_indices_mean = np.digitize(cycles[:, 1], bins_mean, right=right) - 1\n',
     '    bin_indices_range = np.digitize(cycles[:, 0], bins_range, right)\n    bin_indices_range -= 1\n    bin_indices_mean = np.subtract(np.digitize(cycles[:, 1], bins_mean, right), 1)\n',
     'bin indices: positional `right`, in-place -= 1 and np.subtract'),
    ("C10", "neutral", [], CYC, '        out = out_amp or out_ave\n',
     '        out = any((out_amp, out_ave))\n',
     'guard flag by any((a, b))'),
    ("C10", "neutral", [], CYC, '    ampb = getbins(ampbins, *maxmin(rf[:, 0]), right, check_bounds)\n    aveb = getbins(meanbins, *maxmin(rf[:, 1]), right, check_bounds)\n\n    if check_bounds:\n        ampb, out_amp = ampb\n        aveb, out_ave = aveb\n        out = out_amp or out_ave\n    else:\n        out = False\n',
     '    amx, amn = maxmin(rf[:, 0])\n    vmx, vmn = maxmin(rf[:, 1])\n    if check_bounds:\n        ampb, out_amp = getbins(ampbins, amx, amn, right, True)\n        aveb, out_ave = getbins(meanbins, vmx, vmn, right, True)\n        out = bool(out_amp or out_ave)\n    else:\n        ampb = getbins(ampbins, amx, amn, right)\n        aveb = getbins(meanbins, vmx, vmn, right)\n        out = False\n',
     'getbins called per check_bounds regime with explicit unpacking and a literal flag'),
    ("C10", "neutral", [], CYC, '        index = _getlabels(form, aveb)\n        columns = _getlabels(form, ampb)\n',
     '        index = [form.format(lo, hi) for lo, hi in zip(aveb, aveb[1:])]\n        columns = list(map(form.format, ampb[:-1], ampb[1:]))\n',
     'labels by a comprehension over zip(b, b[1:]) and by map(form.format, ...)'),
    ("C10", "neutral", [], CYC, '        f = "{:." + str(precision) + "f}"\n        f = f + ", " + f\n',
     '        f = "{:.%df}" % precision\n        f = ", ".join((f, f))\n',
     'label format by % formatting and str.join'),
    ("C10", "neutral", [], CYC, '    rf = rainflow(sig[findap(sig)], use_pandas=False)\n',
     '    peaks = findap(sig)\n    rf = rainflow(sig[peaks], getoffsets=False, use_pandas=False)\n',
     'sigcount with a named temporary and explicit keywords'),
    ("C10", "neutral", [], LOC, '    pv = np.hstack((True, abs(m) > stol))\n',
     '    pv = np.r_[True, abs(m) > stol]\n',
     'mask by np.r_'),
    ("C10", "neutral", [], LOC, '    pv = np.hstack((True, abs(m) > stol))\n',
     '    pv = np.append(True, abs(m) > stol)\n',
     'mask by np.append'),
    ("C10", "neutral", [], LOC, '    pv = np.hstack((True, abs(m) > stol))\n',
     '    pv = np.insert(abs(m) > stol, 0, True)\n',
     'mask by np.insert(..., 0, True)'),
    ("C10", "neutral", [], LOC, '    pv = np.hstack((True, abs(m) > stol))\n',
     '    pv = np.hstack((True, np.greater(np.fabs(m), stol)))\n',
     'mask by np.greater(np.fabs(.), tol)'),
    ("C10", "neutral", [], LOC, '    pv = np.hstack((True, abs(m) > stol))\n',
     '    pv = np.ones(len(y), bool)\n    for k in range(1, len(y)):\n        pv[k] = abs(y[k] - y[k - 1]) > stol\n',
     'mask allocated all True and filled by a loop over k = 1 .. n-1'),
    ("C10", "neutral", [], LOC, '    stol = abs(tol * abs(m).max())\n',
     '    biggest = np.abs(m).max()\n    stol = abs(tol) * biggest\n',
     'tolerance as abs(tol) * largest difference, named temporary'),
    ("C10", "neutral", [], LOC, '    stol = abs(tol * abs(m).max())\n',
     '    stol = abs(tol * max(m.max(), -m.min()))\n',
     'largest difference as max(m.max(), -m.min())'),
    ("C10", "neutral", [], CYC, '        PV = np.zeros(y.size, bool)  # non-uniques are not peaks\n        PV[u] = pv\n',
     '        PV = np.zeros(y.size, bool)  # non-uniques are not peaks\n        PV[np.nonzero(u)[0]] = pv\n',
     'expansion stored at np.nonzero(u)[0]'),
    ("C10", "neutral", [], CYC, '        PV = np.zeros(y.size, bool)  # non-uniques are not peaks\n        PV[u] = pv\n',
     '        PV = u.copy()\n        PV[PV] = pv\n',
     'expansion into a copy of u indexed by itself'),
    ("C10", "neutral", [], CYC, '        if yu.size > 2:\n            pv[-1] = yu[-1] != yu[-2]\n',
     '        if len(yu) >= 3:\n            pv[-1] = not yu[-2] == yu[-1]\n',
     'end-point guard with len() and a negated equality'),
    ("C10", "neutral", [], FDE, '        sig2_4 = np.sqrt(Df4 / Dt4)\n        G4 = sig2_4 / (',
     '        sig2_4 = (Df4 / Dt4) ** 0.5\n        G4 = sig2_4 / (',
     'square root as ** 0.5'),
    ("C10", "neutral", [], FDE, '        Abar3 = Abar2 * Abar\n        Abar4 = Abar2 * Abar2\n',
     '        Abar3 = Abar**3\n        Abar4 = np.power(Abar, 4)\n',
     'powers of Abar by ** and np.power'),
    ("C10", "neutral", [], FDE, '        Abar = 2 * lnN0\n',
     '        Abar = 2.0 * np.log(freq * T0)\n',
     'Abar from the logarithm written out'),
    ("C10", "neutral", [], FDE, '            k = np.argmax(tantheta)\n            if tantheta[k] > 0:\n',
     '            if tantheta[k := np.argmax(tantheta)] > 0:\n',
     'argmax bound by a walrus inside the test'),
    ("C10", "neutral", [], CYC, '    if check_bounds:\n        return bb, out_of_bounds\n\n    return bb\n',
     '    result = (bb, out_of_bounds) if check_bounds else bb\n    return result\n',
     'getbins with a single exit through a conditional expression'),
    ("C10", "neutral", [], CYC, '                if mn <= bb[0] or mx > bb[-1]:\n                    out_of_bounds = True\n                else:\n                    out_of_bounds = False\n            else:',
     '                out_of_bounds = bool((mn <= bb[0]) | (mx > bb[-1]))\n            else:',
     'verdict as bool(a | b)'),
    ("C10", "neutral", [], CYC, '            if right:\n                if mn <= bb[0] or mx > bb[-1]:\n                    out_of_bounds = True\n                else:\n                    out_of_bounds = False\n            else:\n                if mn < bb[0] or mx >= bb[-1]:\n                    out_of_bounds = True\n                else:\n                    out_of_bounds = False',
     '            import operator\n            lo_cmp, hi_cmp = (operator.le, operator.gt) if right else (operator.lt, operator.ge)\n            out_of_bounds = bool(lo_cmp(mn, bb[0]) or hi_cmp(mx, bb[-1]))',
     'verdict through a table of operator functions chosen by `right`'),
    ("C10", "neutral", [], CYC, '    if ensure_boundaries:\n        for i in range(len(cycles)):\n            bim = bin_indices_mean[i]\n            bir = bin_indices_range[i]\n            if (0 <= bim < num_bins_mean) and (0 <= bir < num_bins_range):\n                markov_matrix[bim, bir] += cycles[i, 2]\n    else:\n        for i in range(len(cycles)):\n            markov_matrix[bin_indices_mean[i], bin_indices_range[i]] += cycles[i, 2]\n',
     '    def inside(bim, bir):\n        return (0 <= bim < num_bins_mean) and (0 <= bir < num_bins_range)\n\n    def always(bim, bir):\n        return True\n\n    keep = inside if ensure_boundaries else always\n    for i in range(len(cycles)):\n        bim = bin_indices_mean[i]\n        bir = bin_indices_range[i]\n        if keep(bim, bir):\n            markov_matrix[bim, bir] += cycles[i, 2]\n',
     '_binify guard through nested functions chosen by the flag'),
    ("C10", "neutral", [], CYC, '    bin_indices_range = np.digitize(cycles[:, 0], bins_range, right=right) - 1\n    bin_indices_mean = np.digitize(cycles[:, 1], bins_mean, right=right) - 1\n',
     '    from functools import partial\n    locate_bin = partial(np.digitize, right=right)\n    bin_indices_range = locate_bin(cycles[:, 0], bins_range) - 1\n    bin_indices_mean = locate_bin(cycles[:, 1], bins_mean) - 1\n',
     'np.digitize through functools.partial'),
    ("C10", "neutral", [], CYC, '    bin_indices_range = np.digitize(cycles[:, 0], bins_range, right=right) - 1\n    bin_indices_mean = np.digitize(cycles[:, 1], bins_mean, right=right) - 1\n',
     '    locate_bin = np.digitize\n    bin_indices_range = locate_bin(cycles[:, 0], bins_range, right=right) - 1\n    bin_indices_mean = locate_bin(cycles[:, 1], bins_mean, right=right) - 1\n',
     'np.digitize through a local alias'),
    ("C10", "neutral", [], FDE, '            for jj in range(nbins):\n                pv = amp >= BinAmps[j, jj]\n                Count[j, jj] = np.sum(count[pv])',
     '            for jj, level in enumerate(BinAmps[j], start=0):\n                pv = amp >= level\n                Count[j, jj] = np.sum(count[pv])',
     'levels by enumerate(..., start=0)'),
    ("C10", "neutral", [], FDE, '            if tantheta[k] > 0:\n                # g2 line is higher than g1 line, so find BinAmps**2\n                # where log(count) = 0; ie, solve for x-intercept in\n                # y = m x + b; (x, y) pts are: (0, y1), (x[k], y[k]):\n                G2max[j] = x[k] * y1 / (y1 - y[k])\n',
     '            G2max[j] = x[k] * y1 / (y1 - y[k]) if tantheta[k] > 0 else G2max[j]\n',
     'G2 update as a conditional expression'),
    ("C10", "neutral", [], FDE, '            if tantheta[k] > 0:\n                # g2 line is higher than g1 line, so find BinAmps**2\n                # where log(count) = 0; ie, solve for x-intercept in\n                # y = m x + b; (x, y) pts are: (0, y1), (x[k], y[k]):\n                G2max[j] = x[k] * y1 / (y1 - y[k])\n',
     '            if tantheta[k] <= 0:\n                continue\n            G2max[j] = x[k] * y1 / (y1 - y[k])\n',
     'G2 update after an early continue'),
    ("C10", "neutral", [], FDE, '    G2max = Amax**2\n',
     '    G2max = Amax * Amax\n',
     'Amax squared as a product'),
    ("C10", "neutral", [], FDE, '    G2max = Amax**2\n',
     '    G2max = np.empty(LF)\n    G2max[:] = np.power(Amax, 2)\n',
     'G2max allocated then filled with [:]'),
    ("C10", "neutral", [], FDE, '        Gmax = np.sqrt(np.vstack((G4, G8, G12)) * (Q * pi * freq * lnN0))\n',
     '        Gmax = np.vstack([np.sqrt(g * (Q * pi * freq * lnN0)) for g in (G4, G8, G12)])\n',
     'Gmax by a comprehension over the three PSDs'),
    ("C10", "neutral", [], FDE, '    Gmax = pd.DataFrame(np.vstack((Amax, G2max, Gmax)).T, columns=columns, index=index)\n',
     '    Gmax = pd.DataFrame(np.column_stack((Amax, G2max, Gmax.T)), columns=columns, index=index)\n',
     'peakamp table by np.column_stack'),
    ("C10", "neutral", [], FDE, '        Dt4 *= 4  # 2 ** (b/2)\n        Dt8 *= 16\n        Dt12 *= 64\n',
     '        Dt4, Dt8, Dt12 = (d * 2 ** (b // 2) for d, b in zip((Dt4, Dt8, Dt12), (b4, b8, b12)))\n',
     'pvelo damage scaling by a generator over zip of literal tuples'),
    ("C10", "neutral", [], FDE, '    amp = rf["amp"]\n    count = rf["count"]\n    ASV_[0, j] = amp.max()\n    BinAmps_[j] *= ASV_[0, j]\n',
     '    amp, count = rf["amp"], rf["count"]\n    amax = amp.max()\n    ASV_[0, j] = amax\n    BinAmps_[j] *= amax\n',
     '_dofde: tuple assignment and a named maximum'),
    ("C10", "neutral", [], FDE, '    for jj in range(BinAmps_.shape[1]):\n        pv = amp >= BinAmps_[j, jj]\n        Count_[j, jj] = np.sum(count[pv])\n',
     '    levels, row = BinAmps_[j], Count_[j]\n    for jj in range(levels.shape[0]):\n        row[jj] = count[amp >= levels[jj]].sum()\n',
     '_dofde: row views of the shared arrays'),
    ("C10", "neutral", [], LOC, '    pv = np.hstack((True, abs(m) > stol))\n',
     '    pv = np.hstack((True, np.where(abs(m) > stol, True, False)))\n',
     'mask through np.where(c, True, False)'),
    ("C10", "neutral", [], CYC, '        pv = np.ones(yu.size, bool)\n',
     '        pv = np.ones_like(yu, dtype=bool)\n',
     'retained mask by np.ones_like'),
    ("C10", "neutral", [], CYC, '        s = np.sign(np.diff(yu))\n',
     '        d = yu[1:] - yu[:-1]\n        s = np.sign(d)\n',
     'slopes named before taking signs'),
    ("C10", "neutral", [], CYC, '            yu = y[u]\n',
     '            yu = np.compress(u, y)\n',
     'retained samples by np.compress'),
    ("C10", "neutral", [], CYC, '            yu = y[u]\n',
     '            yu = y[np.flatnonzero(u)]\n',
     'retained samples by np.flatnonzero'),
    ("C10", "neutral", [], CYC, '            yu = y[u]\n',
     '            yu = np.take(y, np.nonzero(u)[0])\n',
     'retained samples by np.take at np.nonzero'),
    ("C10", "neutral", [], FDE, '    pi = np.pi\n',
     '    import math\n    pi = math.pi\n',
     'pi from math imported inside the function'),
    ("C10", "neutral", [], FDE, '    LF = freq.size\n',
     '    LF = freq.size\n    assert LF == len(freq)\n',
     'an assert on the number of frequencies'),
    ("C10", "neutral", [], FDE, '    N0 = freq * T0\n    lnN0 = np.log(N0)\n',
     "    N0 = freq * T0\n    with np.errstate(all='warn'):\n        lnN0 = np.log(N0)\n",
     'logarithm inside np.errstate'),
    # ---------------------------------------------------------------------------------------------------------------- break
    ("C10", "break", ['C10-R3'], FDE, '    BinCount = np.hstack((Count[:, :-1] - Count[:, 1:], Count[:, -1:]))',
     '    BinCount = Count.copy()\n    BinCount[:, :-1] -= Count[:, :-1]',
     'copy updated in place with the unshifted columns: every bin but the last is emptied'),
    ("C10", "break", ['C10-R3'], FDE, '    BinCount = np.hstack((Count[:, :-1] - Count[:, 1:], Count[:, -1:]))',
     '    BinCount = Count.copy()\n    BinCount[:, 1:] -= Count[:, :-1]',
     'copy updated in place with the shift the wrong way round'),
    ("C10", "break", ['C10-R3'], FDE, '    BinCount = np.hstack((Count[:, :-1] - Count[:, 1:], Count[:, -1:]))',
     '    BinCount = np.column_stack((Count[:, :-1] - Count[:, 1:], Count[:, 0]))',
     'column_stack closing with the first (total) column instead of the last'),
    ("C10", "break", ['C10-R3'], FDE, '                pv = amp >= BinAmps[j, jj]\n                Count[j, jj] = np.sum(count[pv])',
     '                Count[j, jj] = np.where(amp > BinAmps[j, jj], count, 0).sum()',
     'np.where form of the cumulative count with a strict comparison'),
    ("C10", "break", ['C10-R3'], FDE, '                pv = amp >= BinAmps[j, jj]\n                Count[j, jj] = np.sum(count[pv])',
     '                pv = ~(amp <= BinAmps[j, jj])\n                Count[j, jj] = count[pv].sum()',
     'complement form that drops the cycles on the level'),
    ("C10", "break", ['C10-R3'], FDE, '                pv = amp >= BinAmps[j, jj]\n                Count[j, jj] = np.sum(count[pv])',
     '                Count[j, jj] = np.where(amp >= BinAmps[j, jj], count, 0).max()',
     'np.where form reduced with max instead of sum'),
    ("C10", "break", ['C10-R3'], FDE, '            rf = cyclecount.rainflow(resphist[ind])\n\n            amp = rf["amp"]\n            count = rf["count"]\n',
     '            rf = cyclecount.rainflow(resphist[ind], use_pandas=False)\n\n            amp = rf[:, 1]\n            count = rf[:, 2]\n',
     'ndarray cycle table: the mean column compared with the amplitude levels'),
    ("C10", "break", ['C10-R3'], FDE, '            rf = cyclecount.rainflow(resphist[ind])\n\n            amp = rf["amp"]\n            count = rf["count"]\n',
     '            rf = cyclecount.rainflow(resphist[ind], use_pandas=False)\n\n            amp = rf[:, 0]\n            count = rf[:, 1]\n',
     'ndarray cycle table: the mean column summed as if it were the counts'),
    ("C10", "break", ['C10-R3'], FDE, '            SRSmax[j] = abs(resphist).max()\n',
     '            SRSmax[j] = max(resphist.max(), resphist.min())\n',
     'SRS value as the larger of max and min (the sign of the minimum lost)'),
    ("C10", "break", ['C10-R3'], FDE, '            SRSmax[j] = abs(resphist).max()\n',
     '            SRSmax[j] = np.max(resphist)\n',
     'SRS value without the absolute value'),
    ("C10", "break", ['C10-R3'], FDE, '            BinAmps[j] *= Amax[j]\n',
     '            np.multiply(BinAmps[j], SRSmax[j], out=BinAmps[j])\n',
     'row of levels scaled through out= by the SRS peak'),
    ("C10", "break", ['C10-R3'], FDE, '        BinAmps = np.zeros((LF, nbins))\n        BinAmps += np.arange(nbins, dtype=float) / nbins\n',
     '        BinAmps = np.zeros((LF, nbins))\n        BinAmps[:] = np.arange(1, nbins + 1, dtype=float) / nbins\n',
     'unit levels stored with [:] starting at 1/nbins: the first cumulative count is no longer the total'),
    ("C10", "break", ['C10-R1'], FDE, '    Df4 = np.zeros(LF)\n    Df8 = np.zeros(LF)\n    Df12 = np.zeros(LF)\n    for j in range(LF):\n        Df4[j] = (BinAmps[j] ** b4).dot(BinCount[j])\n        Df8[j] = (BinAmps[j] ** b8).dot(BinCount[j])\n        Df12[j] = (BinAmps[j] ** b12).dot(BinCount[j])\n',
     '    Df4 = np.sum(BinAmps**b4 * BinCount, axis=1)\n    Df8 = (BinAmps**b4 * BinCount).sum(axis=-1)\n    Df12 = np.sum(BinCount * BinAmps**b12, 1)\n',
     'row-sum form with the b=8 indicator computed with exponent 4'),
    ("C10", "break", ['C10-R1'], FDE, '    Df4 = np.zeros(LF)\n    Df8 = np.zeros(LF)\n    Df12 = np.zeros(LF)\n    for j in range(LF):\n        Df4[j] = (BinAmps[j] ** b4).dot(BinCount[j])\n        Df8[j] = (BinAmps[j] ** b8).dot(BinCount[j])\n        Df12[j] = (BinAmps[j] ** b12).dot(BinCount[j])\n',
     '    Df = {b: np.zeros(LF) for b in (b4, b8, b12)}\n    for j in range(LF):\n        for b, arr in Df.items():\n            arr[j] = (BinAmps[j] ** b).dot(BinCount[j])\n    Df4, Df8, Df12 = Df[b4], Df[b12], Df[b8]\n',
     'arrays kept in a dict by exponent, unpacked in the wrong order'),
    ("C10", "break", ['C10-R1'], FDE, '    if resp == "absacce":\n        G1 =',
     '    if resp in ("pvelo",):\n        G1 =',
     'membership test that selects the absolute-acceleration formulas for pseudo velocity'),
    ("C10", "break", ['C10-R1'], FDE, '    if resp == "absacce":\n        G1 =',
     '    acce = {"absacce": False, "pvelo": True}[resp]\n    if acce:\n        G1 =',
     'regime table with the truth values swapped'),
    ("C10", "break", ['C10-R1'], FDE, '    di_sig = pd.DataFrame(\n        np.column_stack((Df4, Df8, Df12)), columns=["b=4", "b=8", "b=12"], index=index\n    )',
     '    di_sig = pd.DataFrame(\n        np.vstack((Df4, Df8, Df12)).T, columns=[f"b={b}" for b in (b4, b12, b8)], index=index\n    )',
     'f-string labels generated in another order than the columns'),
    ("C10", "break", ['C10-R5'], CYC, '    if ensure_boundaries:\n        for i in range(len(cycles)):\n            bim = bin_indices_mean[i]\n            bir = bin_indices_range[i]\n            if (0 <= bim < num_bins_mean) and (0 <= bir < num_bins_range):\n                markov_matrix[bim, bir] += cycles[i, 2]\n    else:\n        for i in range(len(cycles)):\n            markov_matrix[bin_indices_mean[i], bin_indices_range[i]] += cycles[i, 2]\n',
     '    for i in range(len(cycles)):\n        bim = bin_indices_mean[i]\n        bir = bin_indices_range[i]\n        if ensure_boundaries:\n            if bim < 0 or bim > num_bins_mean:\n                continue\n            if bir < 0 or bir >= num_bins_range:\n                continue\n        markov_matrix[bim, bir] += cycles[i, 2]\n',
     'merged loop with early continues: the row index one past the end is admitted'),
    ("C10", "break", ['C10-R5'], CYC, '    if ensure_boundaries:\n        for i in range(len(cycles)):\n            bim = bin_indices_mean[i]\n            bir = bin_indices_range[i]\n            if (0 <= bim < num_bins_mean) and (0 <= bir < num_bins_range):\n                markov_matrix[bim, bir] += cycles[i, 2]\n    else:\n        for i in range(len(cycles)):\n            markov_matrix[bin_indices_mean[i], bin_indices_range[i]] += cycles[i, 2]\n',
     '    for i in range(len(cycles)):\n        bim = bin_indices_mean[i]\n        bir = bin_indices_range[i]\n        if not ensure_boundaries:\n            if bim < 0 or bim >= num_bins_mean:\n                continue\n            if bir < 0 or bir >= num_bins_range:\n                continue\n        markov_matrix[bim, bir] += cycles[i, 2]\n',
     'merged loop that applies the index guard in the wrong regime'),
    ("C10", "break", ['C10-R5'], CYC, '        for i in range(len(cycles)):\n            bim = bin_indices_mean[i]\n            bir = bin_indices_range[i]\n            if (0 <= bim < num_bins_mean) and (0 <= bir < num_bins_range):\n                markov_matrix[bim, bir] += cycles[i, 2]',
     '        for cyc, bim, bir in zip(cycles, bin_indices_mean, bin_indices_range):\n            if not (0 <= bim < num_bins_mean or 0 <= bir < num_bins_range):\n                continue\n            markov_matrix[bim, bir] = markov_matrix[bim, bir] + cyc[2]',
     'zip loop whose early continue needs both indices to be invalid'),
    ("C10", "break", ['C10-R5'], CYC, '                if mn <= bb[0] or mx > bb[-1]:\n                    out_of_bounds = True\n                else:\n                    out_of_bounds = False\n            else:\n                if mn < bb[0] or mx >= bb[-1]:\n                    out_of_bounds = True\n                else:\n                    out_of_bounds = False',
     '                below, above = (lambda v: v < bb[0]), (lambda v: v > bb[-1])\n            else:\n                below, above = (lambda v: v < bb[0]), (lambda v: v >= bb[-1])\n            out_of_bounds = bool(below(mn) or above(mx))',
     'per-side lambdas: the right-closed lower test lost its equality'),
    ("C10", "break", ['C10-R5'], CYC, '        if right:\n            bb[0] -= p\n        else:\n            bb[-1] += p\n        out_of_bounds = False',
     '        if right:\n            bb[0] = mn + p\n        else:\n            bb[-1] = mx + p\n        out_of_bounds = False',
     'scalar bins: the open first edge moved inward'),
    ("C10", "break", ['C10-R6'], LOC, '    pv = np.hstack((True, abs(m) > stol))\n',
     '    pv = np.insert(abs(m) >= stol, 0, True)\n',
     'np.insert form with the non-strict comparison'),
    ("C10", "break", ['C10-R6'], LOC, '    pv = np.hstack((True, abs(m) > stol))\n',
     '    pv = np.ones(len(y), bool)\n    for k in range(1, len(y)):\n        pv[k] = abs(y[k] - y[k - 1]) >= stol\n',
     'loop-filled mask with the non-strict comparison'),
    ("C10", "break", ['C10-R6'], LOC, '    pv = np.hstack((True, abs(m) > stol))\n',
     '    pv = np.r_[False, abs(m) > stol]\n',
     'np.r_ form that drops the first sample'),
    ("C10", "break", ['C10-R6'], LOC, '    stol = abs(tol * abs(m).max())\n',
     '    stol = abs(tol * max(m.max(), m.min()))\n',
     'largest difference without the sign flip of the minimum'),
    ("C10", "break", ['C10-R6'], LOC, '    stol = abs(tol * abs(m).max())\n',
     '    biggest = np.abs(m).max()\n    stol = tol * biggest\n',
     'tolerance keeps the sign of tol'),
    ("C10", "break", ['C10-R6'], CYC, '            yu = y[u]\n',
     '            yu = np.compress(~u, y)\n',
     'np.compress on the removed samples'),
    ("C10", "break", ['C10-R6'], CYC, '        PV = np.zeros(y.size, bool)  # non-uniques are not peaks\n        PV[u] = pv\n',
     '        PV = np.zeros(y.size, bool)  # non-uniques are not peaks\n        PV[np.nonzero(~u)[0]] = pv[: (~u).sum()]\n',
     'expansion stored at the positions of the removed samples'),
    ("C10", "break", ['C10-R7'], FDE, '            if tantheta[k] > 0:\n',
     '            if tantheta[k := np.argmax(tantheta)] > 1e-9:\n',
     'walrus form with an absolute threshold'),
    ("C10", "break", ['C10-R7'], FDE, '        sig2_4 = np.sqrt(Df4 / Dt4)\n        G4 = sig2_4 / (',
     '        sig2_4 = (Df4 / Dt4) ** 0.25\n        G4 = sig2_4 / (',
     'G4 from the fourth root: degree 1 in the amplitude'),
]

RECIPES += [
    ("C10", 'neutral', [], FDE, '            b, a = coeffunc(Q, dT, wn)\n            resphist = signal.lfilter(b, a, sig)\n            SRSmax[j] = abs(resphist).max()\n            Var[j] = np.var(resphist, ddof=1)\n\n            # use rainflow to count cycles:\n            ind = cyclecount.findap(resphist)\n            rf = cyclecount.rainflow(resphist[ind])\n\n            amp = rf["amp"]\n            count = rf["count"]\n            Amax[j] = amp.max()\n            BinAmps[j] *= Amax[j]\n\n            # cumulative bin count:\n            for jj in range(nbins):\n                pv = amp >= BinAmps[j, jj]\n                Count[j, jj] = np.sum(count[pv])\n',
     '            def one(j, wn):\n                b, a = coeffunc(Q, dT, wn)\n                resphist = signal.lfilter(b, a, sig)\n                SRSmax[j] = abs(resphist).max()\n                Var[j] = np.var(resphist, ddof=1)\n                rf = cyclecount.rainflow(resphist[cyclecount.findap(resphist)])\n                amp = rf["amp"]\n                count = rf["count"]\n                Amax[j] = amp.max()\n                BinAmps[j] *= Amax[j]\n                for jj in range(nbins):\n                    Count[j, jj] = np.sum(count[amp >= BinAmps[j, jj]])\n\n            one(j, wn)\n',
     'per-frequency work in a nested function that writes the enclosing arrays'),
    ("C10", 'neutral', [], FDE, '    if parallel == "yes":\n        # global shared',
     '    use_pool = parallel == "yes"\n    if use_pool:\n        # global shared',
     'parallel arm selected through a named flag'),
    ("C10", 'neutral', [], CYC, '        PV = np.zeros(y.size, numba_bool)\n        PV[0] = True\n',
     '        PV = np.zeros(y.size, numba_bool)\n        PV[:1] = True\n',
     'loop variant: first sample marked through a one-element slice'),
    ("C10", 'break', ['C10-R6'], CYC, '        PV = np.zeros(y.size, numba_bool)\n        PV[0] = True\n',
     '        PV = np.zeros(y.size, numba_bool)\n        PV[1] = True\n',
     'loop variant: the second sample is marked instead of the first'),
    ("C10", 'break', ['C10-R5'], CYC, '        index = _getlabels(form, aveb)\n        columns = _getlabels(form, ampb)\n',
     '        index = _getlabels(form, ampb)\n        columns = _getlabels(form, aveb)\n',
     'row labels from the amplitude bins, column labels from the mean bins'),
    ("C10", 'break', ['C10-R5'], CYC, '        index = _getlabels(form, aveb)\n        columns = _getlabels(form, ampb)\n',
     '        index = [form.format(aveb[k + 1], aveb[k]) for k in range(len(aveb) - 1)]\n        columns = _getlabels(form, ampb)\n',
     'row labels with the two edges of each bin exchanged'),
]

# ---- pass 5: own refactorings of kinds not met before (all verified bit-identical on a 600-case digest) and break siblings of the new constructs
RECIPES += [
    ("C10", 'neutral', [], FDE, '    Df4 = np.zeros(LF)\n    Df8 = np.zeros(LF)\n    Df12 = np.zeros(LF)\n    for j in range(LF):\n        Df4[j] = (BinAmps[j] ** b4).dot(BinCount[j])\n        Df8[j] = (BinAmps[j] ** b8).dot(BinCount[j])\n        Df12[j] = (BinAmps[j] ** b12).dot(BinCount[j])\n',
     '    exps = (b4, b8, b12)\n    Df = np.zeros((len(exps), LF))\n    for j in range(LF):\n        for i, b in enumerate(exps):\n            Df[i, j] = (BinAmps[j] ** b).dot(BinCount[j])\n    Df4, Df8, Df12 = Df\n',
     'pass 5: damage indicators in one (3 x LF) table filled per exponent, rows unpacked'),
    ("C10", 'neutral', [], FDE, '    Df4 = np.zeros(LF)\n    Df8 = np.zeros(LF)\n    Df12 = np.zeros(LF)\n    for j in range(LF):\n        Df4[j] = (BinAmps[j] ** b4).dot(BinCount[j])\n        Df8[j] = (BinAmps[j] ** b8).dot(BinCount[j])\n        Df12[j] = (BinAmps[j] ** b12).dot(BinCount[j])\n',
     '    Df = np.zeros((3, LF))\n    for j in range(LF):\n        Df[0, j] = (BinAmps[j] ** b4).dot(BinCount[j])\n        Df[1, j] = (BinAmps[j] ** b8).dot(BinCount[j])\n        Df[2, j] = (BinAmps[j] ** b12).dot(BinCount[j])\n    Df4 = Df[0]\n    Df8 = Df[1]\n    Df12 = Df[2]\n',
     'pass 5: damage indicator table filled row by row with literal row numbers'),
    ("C10", 'neutral', [], FDE, '    Df4 = np.zeros(LF)\n    Df8 = np.zeros(LF)\n    Df12 = np.zeros(LF)\n    for j in range(LF):\n        Df4[j] = (BinAmps[j] ** b4).dot(BinCount[j])\n        Df8[j] = (BinAmps[j] ** b8).dot(BinCount[j])\n        Df12[j] = (BinAmps[j] ** b12).dot(BinCount[j])\n',
     '    Df = np.zeros((LF, 3))\n    for j in range(LF):\n        for i, b in enumerate((b4, b8, b12)):\n            Df[j, i] = (BinAmps[j] ** b).dot(BinCount[j])\n    Df4 = Df[:, 0]\n    Df8 = Df[:, 1]\n    Df12 = Df[:, 2]\n',
     'pass 5: damage indicator table (LF x 3), columns taken as views'),
    ("C10", 'neutral', [], FDE, '    di_sig = pd.DataFrame(\n        np.column_stack((Df4, Df8, Df12)), columns=["b=4", "b=8", "b=12"], index=index\n    )\n',
     '    labels = ["b=4", "b=8", "b=12"]\n    di_sig = pd.DataFrame(dict(zip(labels, (Df4, Df8, Df12))), index=index)\n',
     'pass 5: di_sig from dict(zip(labels, columns))'),
    ("C10", 'neutral', [], FDE, '            for jj in range(nbins):\n                pv = amp >= BinAmps[j, jj]\n                Count[j, jj] = np.sum(count[pv])\n',
     '            Count[j] = [np.sum(count[amp >= level]) for level in BinAmps[j]]\n',
     'pass 5: cumulative counts of a row stored as one comprehension'),
    ("C10", 'neutral', [], FDE, '            BinAmps[j] *= Amax[j]\n\n            # cumulative bin count:\n            for jj in range(nbins):\n                pv = amp >= BinAmps[j, jj]\n                Count[j, jj] = np.sum(count[pv])\n',
     '            levels = BinAmps[j] * Amax[j]\n            BinAmps[j] = levels\n\n            # cumulative bin count:\n            for jj, level in enumerate(levels):\n                Count[j, jj] = count[amp >= level].sum()\n',
     'pass 5: scaled levels computed into a local, stored back, and compared through the local'),
    ("C10", 'neutral', [], FDE, 'BinCount = np.hstack((Count[:, :-1] - Count[:, 1:], Count[:, -1:]))',
     'lower, upper, last = np.s_[:, :-1], np.s_[:, 1:], np.s_[:, -1:]\n    BinCount = np.hstack((Count[lower] - Count[upper], Count[last]))',
     'pass 5: column blocks through np.s_ index objects'),
    ("C10", 'neutral', [], FDE, 'BinCount = np.hstack((Count[:, :-1] - Count[:, 1:], Count[:, -1:]))',
     'BinCount = np.hstack((Count[:, slice(None, -1)] - Count[:, slice(1, None)], Count[:, slice(-1, None)]))',
     'pass 5: column blocks through slice() objects'),
    ("C10", 'neutral', [], FDE, '    for j in range(LF):\n        pv = BinAmps[j] >= Amax[j] / 3  # ignore small amp cycles\n        if np.any(pv):\n            x = BinAmps[j, pv] ** 2\n            x2 = G2max[j]\n            y = np.log(Count[j, pv])\n            y1 = np.log(Count[j, 0])\n',
     '    for j, (levels, counts, amax) in enumerate(zip(BinAmps, Count, Amax)):\n        pv = levels >= amax / 3  # ignore small amp cycles\n        if np.any(pv):\n            x = levels[pv] ** 2\n            x2 = G2max[j]\n            y = np.log(counts[pv])\n            y1 = np.log(counts[0])\n',
     'pass 5: G2 loop over zip(BinAmps, Count, Amax) rows'),
    ("C10", 'neutral', [], FDE, '        pv = BinAmps[j] >= Amax[j] / 3  # ignore small amp cycles\n        if np.any(pv):\n            x = BinAmps[j, pv] ** 2\n            x2 = G2max[j]\n            y = np.log(Count[j, pv])\n            y1 = np.log(Count[j, 0])\n            g1y = np.interp(x, [0, x2], [y1, 0])\n            tantheta = (y - g1y) / x\n            k = np.argmax(tantheta)\n            if tantheta[k] > 0:\n                # g2 line is higher than g1 line, so find BinAmps**2\n                # where log(count) = 0; ie, solve for x-intercept in\n                # y = m x + b; (x, y) pts are: (0, y1), (x[k], y[k]):\n                G2max[j] = x[k] * y1 / (y1 - y[k])\n',
     '        pv = BinAmps[j] >= Amax[j] / 3  # ignore small amp cycles\n        if not pv.any():\n            continue\n        x = BinAmps[j, pv] ** 2\n        y = np.log(Count[j, pv])\n        y1 = np.log(Count[j, 0])\n        g1y = np.interp(x, [0, G2max[j]], [y1, 0])\n        tantheta = (y - g1y) / x\n        k = tantheta.argmax()\n        if tantheta[k] <= 0:\n            continue\n        G2max[j] = x[k] * y1 / (y1 - y[k])\n',
     'pass 5: G2 loop with guard clauses (continue)'),
    ("C10", 'neutral', [], CYC, '    return [form.format(i, j) for i, j in zip(bins[:-1], bins[1:])]',
     '    return [form.format(bins[k], bins[k + 1]) for k in range(len(bins) - 1)]',
     'pass 5: bin labels by index arithmetic'),
    ("C10", 'neutral', [], CYC, '    return [form.format(i, j) for i, j in zip(bins[:-1], bins[1:])]',
     '    return [form.format(*edges) for edges in zip(bins[:-1], bins[1:])]',
     'pass 5: bin labels with form.format(*edges)'),
    ("C10", 'neutral', [], CYC, '        table = pd.DataFrame(table, index=index, columns=columns)\n        table.columns.name = "Amp"\n        table.index.name = "Mean"\n',
     '        table = pd.DataFrame(table, index=index, columns=columns)\n        table = table.rename_axis(index="Mean", columns="Amp")\n',
     'pass 5: axis names through rename_axis'),
    ("C10", 'neutral', [], CYC, '        index = _getlabels(form, aveb)\n        columns = _getlabels(form, ampb)\n',
     '        label = form.format\n        index = [label(lo, hi) for lo, hi in zip(aveb[:-1], aveb[1:])]\n        columns = [label(lo, hi) for lo, hi in zip(ampb[:-1], ampb[1:])]\n',
     'pass 5: labels built in binify with a bound form.format'),
    ("C10", 'neutral', [], FDE, '    return SimpleNamespace(\n        freq=freq,\n        psd=Gpsd,\n        peakamp=Gmax,\n        binamps=BinAmps,\n        count=Count,\n        bincount=BinCount,\n        var=Var,\n        srs=SRSmax,\n        parallel=parallel,\n        ncpu=ncpu,\n        di_sig=di_sig,\n        di_test=di_test,\n        var_test=var_test,\n        resp=resp,\n        sig=sig,\n        sr=sr,\n    )\n',
     '    fields = dict(\n        freq=freq,\n        psd=Gpsd,\n        peakamp=Gmax,\n        binamps=BinAmps,\n        count=Count,\n        bincount=BinCount,\n        var=Var,\n        srs=SRSmax,\n        parallel=parallel,\n        ncpu=ncpu,\n        di_sig=di_sig,\n        di_test=di_test,\n        var_test=var_test,\n        resp=resp,\n        sig=sig,\n        sr=sr,\n    )\n    return SimpleNamespace(**fields)\n',
     'pass 5: result namespace from a dict of fields'),
    ("C10", 'neutral', [], FDE, '    return SimpleNamespace(\n        freq=freq,\n        psd=Gpsd,\n        peakamp=Gmax,\n        binamps=BinAmps,\n        count=Count,\n        bincount=BinCount,\n        var=Var,\n        srs=SRSmax,\n        parallel=parallel,\n        ncpu=ncpu,\n        di_sig=di_sig,\n        di_test=di_test,\n        var_test=var_test,\n        resp=resp,\n        sig=sig,\n        sr=sr,\n    )\n',
     '    fields = {"freq": freq, "psd": Gpsd, "peakamp": Gmax, "binamps": BinAmps, "count": Count}\n    fields.update(bincount=BinCount, var=Var, srs=SRSmax, parallel=parallel, ncpu=ncpu)\n    fields["di_sig"] = di_sig\n    fields["di_test"] = di_test\n    fields["var_test"] = var_test\n    return SimpleNamespace(resp=resp, sig=sig, sr=sr, **fields)\n',
     'pass 5: result fields collected in a dict (literal, update, item stores)'),
    ("C10", 'neutral', [], FDE, '    Gpsd = pd.DataFrame(dct, columns=columns, index=freq)\n    Gpsd.index.name = "Frequency"\n    index = Gpsd.index\n',
     '    index = pd.Index(freq, name="Frequency")\n    Gpsd = pd.DataFrame(dct, columns=columns, index=index)\n',
     'pass 5: frequency index made once with pd.Index(freq, name=...)'),
    ("C10", 'neutral', [], FDE, '        for j, wn in enumerate(Wn):\n            if verbose:\n                print(f"Processing frequency {wn / 2 / pi:8.2f} Hz", end="\\r")\n            b, a = coeffunc(Q, dT, wn)\n            resphist = signal.lfilter(b, a, sig)\n            SRSmax[j] = abs(resphist).max()\n            Var[j] = np.var(resphist, ddof=1)\n\n            # use rainflow to count cycles:\n            ind = cyclecount.findap(resphist)\n            rf = cyclecount.rainflow(resphist[ind])\n\n            amp = rf["amp"]\n            count = rf["count"]\n            Amax[j] = amp.max()\n            BinAmps[j] *= Amax[j]\n\n            # cumulative bin count:\n            for jj in range(nbins):\n                pv = amp >= BinAmps[j, jj]\n                Count[j, jj] = np.sum(count[pv])\n',
     '        def process(j, wn):\n            if verbose:\n                print(f"Processing frequency {wn / 2 / pi:8.2f} Hz", end="\\r")\n            b, a = coeffunc(Q, dT, wn)\n            resphist = signal.lfilter(b, a, sig)\n            SRSmax[j] = abs(resphist).max()\n            Var[j] = np.var(resphist, ddof=1)\n            ind = cyclecount.findap(resphist)\n            rf = cyclecount.rainflow(resphist[ind])\n            amp = rf["amp"]\n            count = rf["count"]\n            Amax[j] = amp.max()\n            BinAmps[j] *= Amax[j]\n            for jj in range(nbins):\n                Count[j, jj] = np.sum(count[amp >= BinAmps[j, jj]])\n\n        for j, wn in enumerate(Wn):\n            process(j, wn)\n',
     'pass 5: per-frequency work in a nested function called from the loop'),
    ("C10", 'neutral', [], CYC, '        if check_bounds:\n            if right:\n                if mn <= bb[0] or mx > bb[-1]:\n                    out_of_bounds = True\n                else:\n                    out_of_bounds = False\n            else:\n                if mn < bb[0] or mx >= bb[-1]:\n                    out_of_bounds = True\n                else:\n                    out_of_bounds = False\n',
     '        if check_bounds:\n            first, last = bb[0], bb[-1]\n            if right:\n                out_of_bounds = bool(mn <= first or mx > last)\n            else:\n                out_of_bounds = bool(mn < first or mx >= last)\n',
     'pass 5: bounds verdict as bool(...) on named first / last edges'),
    ("C10", 'neutral', [], CYC, '        if check_bounds:\n            if right:\n                if mn <= bb[0] or mx > bb[-1]:\n                    out_of_bounds = True\n                else:\n                    out_of_bounds = False\n            else:\n                if mn < bb[0] or mx >= bb[-1]:\n                    out_of_bounds = True\n                else:\n                    out_of_bounds = False\n',
     '        if check_bounds:\n            lo, hi = bb[0], bb[-1]\n            out_of_bounds = (mn <= lo or mx > hi) if right else (mn < lo or mx >= hi)\n            out_of_bounds = bool(out_of_bounds)\n',
     'pass 5: bounds verdict chosen by a conditional expression'),
    ("C10", 'neutral', [], CYC, '        if check_bounds:\n            if right:\n                if mn <= bb[0] or mx > bb[-1]:\n                    out_of_bounds = True\n                else:\n                    out_of_bounds = False\n            else:\n                if mn < bb[0] or mx >= bb[-1]:\n                    out_of_bounds = True\n                else:\n                    out_of_bounds = False\n',
     '        if check_bounds:\n            if right:\n                inside = bb[0] < mn and mx <= bb[-1]\n            else:\n                inside = bb[0] <= mn and mx < bb[-1]\n            out_of_bounds = not inside\n',
     "pass 5: bounds verdict as the negation of an 'inside' test"),
    ("C10", 'neutral', [], CYC, '        if right:\n            bb[0] -= p\n        else:\n            bb[-1] += p\n        out_of_bounds = False\n',
     '        k = 0 if right else -1\n        bb[k] += -p if right else p\n        out_of_bounds = False\n',
     'pass 5: scalar bins: the widened edge chosen by an index'),
    ("C10", 'neutral', [], CYC, '        if right:\n            bb[0] -= p\n        else:\n            bb[-1] += p\n        out_of_bounds = False\n',
     '        if right:\n            bb[0] = bb[0] - p\n        else:\n            bb[-1] = bb[-1] + p\n        out_of_bounds = False\n',
     'pass 5: scalar bins: edge widened by plain assignment'),
    ("C10", 'neutral', [], CYC, '    if mx < mn:\n        mx, mn = mn, mx\n    elif mx == mn:\n        mx = mx + 0.5\n        mn = mn - 0.5\n',
     '    if mx == mn:\n        mx, mn = mx + 0.5, mn - 0.5\n    elif mn > mx:\n        mn, mx = mx, mn\n',
     'pass 5: mx / mn normalisation with the tests exchanged'),
    ("C10", 'neutral', [], CYC, '    if ensure_boundaries:\n        for i in range(len(cycles)):\n            bim = bin_indices_mean[i]\n            bir = bin_indices_range[i]\n            if (0 <= bim < num_bins_mean) and (0 <= bir < num_bins_range):\n                markov_matrix[bim, bir] += cycles[i, 2]\n    else:\n        for i in range(len(cycles)):\n            markov_matrix[bin_indices_mean[i], bin_indices_range[i]] += cycles[i, 2]\n',
     '    for i in range(len(cycles)):\n        bim = bin_indices_mean[i]\n        bir = bin_indices_range[i]\n        if ensure_boundaries and not (\n            (0 <= bim < num_bins_mean) and (0 <= bir < num_bins_range)\n        ):\n            continue\n        markov_matrix[bim, bir] += cycles[i, 2]\n',
     'pass 5: _binify: one loop, guard skipped when boundaries are not ensured'),
    ("C10", 'neutral', [], CYC, '    if ensure_boundaries:\n        for i in range(len(cycles)):\n            bim = bin_indices_mean[i]\n            bir = bin_indices_range[i]\n            if (0 <= bim < num_bins_mean) and (0 <= bir < num_bins_range):\n                markov_matrix[bim, bir] += cycles[i, 2]\n    else:\n        for i in range(len(cycles)):\n            markov_matrix[bin_indices_mean[i], bin_indices_range[i]] += cycles[i, 2]\n',
     '    if ensure_boundaries:\n        for i, (bim, bir) in enumerate(zip(bin_indices_mean, bin_indices_range)):\n            if (0 <= bim < num_bins_mean) and (0 <= bir < num_bins_range):\n                markov_matrix[bim, bir] += cycles[i, 2]\n    else:\n        for i, (bim, bir) in enumerate(zip(bin_indices_mean, bin_indices_range)):\n            markov_matrix[bim, bir] += cycles[i, 2]\n',
     'pass 5: _binify: loops over enumerate(zip(indices))'),
    ("C10", 'neutral', [], CYC, '    if ensure_boundaries:\n        for i in range(len(cycles)):\n            bim = bin_indices_mean[i]\n            bir = bin_indices_range[i]\n            if (0 <= bim < num_bins_mean) and (0 <= bir < num_bins_range):\n                markov_matrix[bim, bir] += cycles[i, 2]\n    else:\n        for i in range(len(cycles)):\n            markov_matrix[bin_indices_mean[i], bin_indices_range[i]] += cycles[i, 2]\n',
     '    counts = cycles[:, 2]\n    if ensure_boundaries:\n        for bim, bir, cnt in zip(bin_indices_mean, bin_indices_range, counts):\n            if (0 <= bim < num_bins_mean) and (0 <= bir < num_bins_range):\n                markov_matrix[bim, bir] += cnt\n    else:\n        for bim, bir, cnt in zip(bin_indices_mean, bin_indices_range, counts):\n            markov_matrix[bim, bir] += cnt\n',
     'pass 5: _binify: counts column taken as a view and zipped'),
    ("C10", 'neutral', [], CYC, '            if (0 <= bim < num_bins_mean) and (0 <= bir < num_bins_range):\n',
     '            if bim in range(num_bins_mean) and bir in range(num_bins_range):\n',
     'pass 5: _binify: index guard written with `in range(n)`'),
    ("C10", 'neutral', [], CYC, '    if check_bounds:\n        ampb, out_amp = ampb\n        aveb, out_ave = aveb\n        out = out_amp or out_ave\n    else:\n        out = False\n',
     '    if check_bounds:\n        (ampb, out_amp), (aveb, out_ave) = ampb, aveb\n        out = any((out_amp, out_ave))\n    else:\n        out = False\n',
     'pass 5: binify: nested unpacking and any(...)'),
    ("C10", 'neutral', [], CYC, '    ampb = getbins(ampbins, *maxmin(rf[:, 0]), right, check_bounds)\n    aveb = getbins(meanbins, *maxmin(rf[:, 1]), right, check_bounds)\n',
     '    amps, means = rf[:, 0], rf[:, 1]\n    ampb = getbins(ampbins, amps.max(), amps.min(), right, check_bounds)\n    aveb = getbins(meanbins, means.max(), means.min(), right, check_bounds)\n',
     'pass 5: binify: extremes through the array methods'),
    ("C10", 'neutral', [], CYC, '        f = "{:." + str(precision) + "f}"\n        f = f + ", " + f\n        if right:\n            form = "(" + f + "]"\n        else:\n            form = "[" + f + ")"\n',
     '        f = "{:.%df}" % precision\n        opening, closing = ("(", "]") if right else ("[", ")")\n        form = opening + f + ", " + f + closing\n',
     'pass 5: binify: bracket characters chosen by a conditional expression'),
    ("C10", 'neutral', [], CYC, '    rf = rainflow(sig[findap(sig)], use_pandas=False)\n',
     '    reversals = findap(sig)\n    peaks = sig[reversals]\n    rf = rainflow(peaks, use_pandas=False)\n',
     'pass 5: sigcount: reversals through temporaries'),
    ("C10", 'neutral', [], CYC, '        if np.all(u):\n            yu = y\n            allu = True\n        else:\n            yu = y[u]\n            # [ 1,  2,  3,  4, -2]\n            allu = False\n',
     '        allu = bool(u.all())\n        yu = y if allu else y[u]\n',
     'pass 5: findap: all-unique flag and selection by conditional expression'),
    ("C10", 'neutral', [], CYC, '        pv = np.ones(yu.size, bool)\n        pv[1:-1] = np.abs(np.diff(s)) == 2\n        if yu.size > 2:\n            pv[-1] = yu[-1] != yu[-2]\n',
     '        n = yu.size\n        pv = np.ones(n, dtype=bool)\n        pv[1 : n - 1] = np.abs(s[1:] - s[:-1]) == 2\n        if n > 2:\n            pv[n - 1] = yu[n - 1] != yu[n - 2]\n',
     'pass 5: findap: size in a local, explicit slice bounds'),
    ("C10", 'neutral', [], LOC, '    m = np.diff(y)\n    stol = abs(tol * abs(m).max())\n    pv = np.hstack((True, abs(m) > stol))\n    return pv\n',
     '    steps = np.abs(np.diff(y))\n    threshold = abs(tol * steps.max())\n    return np.concatenate(([True], steps > threshold))\n',
     'pass 5: find_unique: absolute steps once, concatenate'),
    ("C10", 'neutral', [], LOC, '    pv = np.hstack((True, abs(m) > stol))\n    return pv\n',
     '    pv = np.empty(y.size, bool)\n    pv[0] = True\n    pv[1:] = abs(m) > stol\n    return pv\n',
     'pass 5: find_unique: mask allocated and stored in two pieces'),
    ("C10", 'neutral', [], FDE, '    amp = rf["amp"]\n    count = rf["count"]\n    ASV_[0, j] = amp.max()\n    BinAmps_[j] *= ASV_[0, j]\n\n    # cumulative bin count:\n    for jj in range(BinAmps_.shape[1]):\n        pv = amp >= BinAmps_[j, jj]\n        Count_[j, jj] = np.sum(count[pv])\n',
     '    amp = rf["amp"]\n    count = rf["count"]\n    amax = amp.max()\n    ASV_[0, j] = amax\n    levels = BinAmps_[j]\n    levels *= amax\n\n    # cumulative bin count:\n    counts = Count_[j]\n    for jj, level in enumerate(levels):\n        counts[jj] = np.sum(count[amp >= level])\n',
     'pass 5: _dofde: row views for levels and counts'),
    ("C10", 'neutral', [], FDE, '    amp = rf["amp"]\n    count = rf["count"]\n    ASV_[0, j] = amp.max()\n    BinAmps_[j] *= ASV_[0, j]\n\n    # cumulative bin count:\n    for jj in range(BinAmps_.shape[1]):\n        pv = amp >= BinAmps_[j, jj]\n        Count_[j, jj] = np.sum(count[pv])\n',
     '    amp = rf["amp"]\n    count = rf["count"]\n    ASV_[0, j] = amp.max()\n    BinAmps_[j] *= ASV_[0, j]\n\n    # cumulative bin count:\n    Count_[j] = [np.sum(count[amp >= level]) for level in BinAmps_[j]]\n',
     'pass 5: _dofde: counts of the row as one comprehension'),
    ("C10", 'neutral', [], FDE, '        Dt4 = 2 * N0\n        sig2_4 = np.sqrt(Df4 / Dt4)\n        G4 = sig2_4 * ((4 * pi / Q) * freq)\n\n        Dt8 = 24 * N0\n        sig2_8 = (Df8 / Dt8) ** (1 / 4)\n        G8 = sig2_8 * ((4 * pi / Q) * freq)\n\n        Dt12 = 720 * N0\n        sig2_12 = (Df12 / Dt12) ** (1 / 6)\n        G12 = sig2_12 * ((4 * pi / Q) * freq)\n',
     '        var2psd = (4 * pi / Q) * freq\n        Dt4, Dt8, Dt12 = 2 * N0, 24 * N0, 720 * N0\n        sig2_4 = (Df4 / Dt4) ** 0.5\n        sig2_8 = (Df8 / Dt8) ** 0.25\n        sig2_12 = (Df12 / Dt12) ** (1 / 6)\n        G4, G8, G12 = (s2 * var2psd for s2 in (sig2_4, sig2_8, sig2_12))\n',
     'pass 5: pvelo arm: shared factor, powers as floats, generator unpacking'),
    ("C10", 'neutral', [], FDE, '        Dt4 = 2 * N0\n        sig2_4 = np.sqrt(Df4 / Dt4)\n        G4 = sig2_4 * ((4 * pi / Q) * freq)\n\n        Dt8 = 24 * N0\n        sig2_8 = (Df8 / Dt8) ** (1 / 4)\n        G8 = sig2_8 * ((4 * pi / Q) * freq)\n\n        Dt12 = 720 * N0\n        sig2_12 = (Df12 / Dt12) ** (1 / 6)\n        G12 = sig2_12 * ((4 * pi / Q) * freq)\n',
     '        Dt, sig2, G = {}, {}, {}\n        for b, fact, Dfb in ((4, 2, Df4), (8, 24, Df8), (12, 720, Df12)):\n            Dt[b] = fact * N0\n            sig2[b] = (Dfb / Dt[b]) ** (2 / b)\n            G[b] = sig2[b] * ((4 * pi / Q) * freq)\n        Dt4, Dt8, Dt12 = Dt[4], Dt[8], Dt[12]\n        sig2_4, sig2_8, sig2_12 = sig2[4], sig2[8], sig2[12]\n        G4, G8, G12 = G[4], G[8], G[12]\n',
     'pass 5: pvelo arm: Dt / sig2 / G tables filled in a loop over (b, factor, Df)'),
    ("C10", 'neutral', [], FDE, '    if resp == "absacce":\n        G1 = Amax**2',
     '    is_pvelo = resp != "absacce"\n    if not is_pvelo:\n        G1 = Amax**2',
     'pass 5: response arm selected by a negated flag'),
    ("C10", 'neutral', [], FDE, '        Amax = np.zeros(LF)\n        SRSmax = np.zeros(LF)\n        Var = np.zeros(LF)\n        BinAmps = np.zeros((LF, nbins))\n        BinAmps += np.arange(nbins, dtype=float) / nbins\n        Count = np.zeros((LF, nbins))\n',
     '        Amax, SRSmax, Var = np.zeros((3, LF))\n        BinAmps = np.tile(np.arange(nbins, dtype=float) / nbins, (LF, 1))\n        Count = np.zeros_like(BinAmps)\n',
     'pass 5: serial arrays from one (3, LF) block, levels by np.tile'),
    ("C10", 'neutral', [], FDE, '        Amax = np.zeros(LF)\n        SRSmax = np.zeros(LF)\n        Var = np.zeros(LF)\n',
     '        Amax, SRSmax, Var = (np.zeros(LF) for _ in range(3))\n',
     'pass 5: serial arrays from a generator of allocations'),
    ("C10", 'neutral', [], FDE, '        BinAmps = np.zeros((LF, nbins))\n        BinAmps += np.arange(nbins, dtype=float) / nbins\n',
     '        BinAmps = np.empty((LF, nbins))\n        BinAmps[:] = np.arange(nbins, dtype=float) / nbins\n',
     'pass 5: levels allocated with np.empty and broadcast-filled'),
    ("C10", 'break', ['C10-R7'], FDE, '            for jj in range(nbins):\n                pv = amp >= BinAmps[j, jj]\n                Count[j, jj] = np.sum(count[pv])\n',
     '            for jj in range(nbins):\n                pv = amp >= BinAmps[j, jj] * Amax[j]\n                Count[j, jj] = np.sum(count[pv])\n',
     'pass 5: levels scaled twice in the comparison'),
    ("C10", 'break', ['C10-R3'], FDE, '            BinAmps[j] *= Amax[j]\n\n            # cumulative bin count:\n            for jj in range(nbins):\n                pv = amp >= BinAmps[j, jj]\n                Count[j, jj] = np.sum(count[pv])\n',
     '            levels = BinAmps[j] * Amax[j]\n            BinAmps[j] = levels\n\n            # cumulative bin count:\n            for jj, level in enumerate(levels):\n                Count[j, jj] = count[amp > level].sum()\n',
     'pass 5: levels through a local, strict comparison'),
    ("C10", 'break', ['C10-R1', 'C10-R7'], FDE, '    Df4 = np.zeros(LF)\n    Df8 = np.zeros(LF)\n    Df12 = np.zeros(LF)\n    for j in range(LF):\n        Df4[j] = (BinAmps[j] ** b4).dot(BinCount[j])\n        Df8[j] = (BinAmps[j] ** b8).dot(BinCount[j])\n        Df12[j] = (BinAmps[j] ** b12).dot(BinCount[j])\n',
     '    exps = (b4, b12, b8)\n    Df = np.zeros((len(exps), LF))\n    for j in range(LF):\n        for i, b in enumerate(exps):\n            Df[i, j] = (BinAmps[j] ** b).dot(BinCount[j])\n    Df4, Df8, Df12 = Df\n',
     'pass 5: indicator table rows in the order 4, 12, 8'),
    ("C10", 'break', ['C10-R1', 'C10-R7'], FDE, '    Df4 = np.zeros(LF)\n    Df8 = np.zeros(LF)\n    Df12 = np.zeros(LF)\n    for j in range(LF):\n        Df4[j] = (BinAmps[j] ** b4).dot(BinCount[j])\n        Df8[j] = (BinAmps[j] ** b8).dot(BinCount[j])\n        Df12[j] = (BinAmps[j] ** b12).dot(BinCount[j])\n',
     '    Df = np.zeros((LF, 3))\n    for j in range(LF):\n        for i, b in enumerate((b4, b8, b12)):\n            Df[j, i] = (BinAmps[j] ** b).dot(BinCount[j])\n    Df4 = Df[:, 1]\n    Df8 = Df[:, 0]\n    Df12 = Df[:, 2]\n',
     'pass 5: indicator table columns 0 and 1 exchanged'),
    ("C10", 'break', ['C10-R1'], FDE, '    di_sig = pd.DataFrame(\n        np.column_stack((Df4, Df8, Df12)), columns=["b=4", "b=8", "b=12"], index=index\n    )\n',
     '    blabels = [f"b={b}" for b in (b4, b12, b8)]\n    di_sig = pd.DataFrame(np.column_stack((Df4, Df8, Df12)), columns=blabels, index=index)\n',
     'pass 5: labels generated in the order 4, 12, 8'),
    ("C10", 'break', ['C10-R1'], FDE, '    di_sig = pd.DataFrame(\n        np.column_stack((Df4, Df8, Df12)), columns=["b=4", "b=8", "b=12"], index=index\n    )\n',
     '    labels = ["b=4", "b=8", "b=12"]\n    di_sig = pd.DataFrame(dict(zip(labels, (Df4, Df12, Df8))), columns=labels, index=index)\n',
     'pass 5: dict(zip(labels, columns)) with two columns exchanged'),
    ("C10", 'break', ['C10-R1', 'C10-R7'], FDE, '        Dt4 = 2 * N0\n        sig2_4 = np.sqrt(Df4 / Dt4)\n        G4 = sig2_4 * ((4 * pi / Q) * freq)\n\n        Dt8 = 24 * N0\n        sig2_8 = (Df8 / Dt8) ** (1 / 4)\n        G8 = sig2_8 * ((4 * pi / Q) * freq)\n\n        Dt12 = 720 * N0\n        sig2_12 = (Df12 / Dt12) ** (1 / 6)\n        G12 = sig2_12 * ((4 * pi / Q) * freq)\n',
     '        Dt, sig2, G = {}, {}, {}\n        for b, fact, Dfb in ((4, 2, Df4), (8, 24, Df8), (12, 720, Df12)):\n            Dt[b] = fact * N0\n            sig2[b] = (Dfb / Dt[b]) ** (1 / b)\n            G[b] = sig2[b] * ((4 * pi / Q) * freq)\n        Dt4, Dt8, Dt12 = Dt[4], Dt[8], Dt[12]\n        sig2_4, sig2_8, sig2_12 = sig2[4], sig2[8], sig2[12]\n        G4, G8, G12 = G[4], G[8], G[12]\n',
     'pass 5: pvelo table loop with exponent 1/b'),
    ("C10", 'break', ['C10-R5'], CYC, '    if ensure_boundaries:\n        for i in range(len(cycles)):\n            bim = bin_indices_mean[i]\n            bir = bin_indices_range[i]\n            if (0 <= bim < num_bins_mean) and (0 <= bir < num_bins_range):\n                markov_matrix[bim, bir] += cycles[i, 2]\n    else:\n        for i in range(len(cycles)):\n            markov_matrix[bin_indices_mean[i], bin_indices_range[i]] += cycles[i, 2]\n',
     '    counts = cycles[:, 1]\n    if ensure_boundaries:\n        for bim, bir, cnt in zip(bin_indices_mean, bin_indices_range, counts):\n            if (0 <= bim < num_bins_mean) and (0 <= bir < num_bins_range):\n                markov_matrix[bim, bir] += cnt\n    else:\n        for bim, bir, cnt in zip(bin_indices_mean, bin_indices_range, counts):\n            markov_matrix[bim, bir] += cnt\n',
     'pass 5: _binify adds the mean column'),
    ("C10", 'break', ['C10-R5'], CYC, '            if (0 <= bim < num_bins_mean) and (0 <= bir < num_bins_range):\n',
     '            if bim in range(num_bins_mean + 1) and bir in range(num_bins_range):\n',
     'pass 5: _binify guard `in range(n + 1)`'),
    ("C10", 'break', ['C10-R5'], CYC, '        f = "{:." + str(precision) + "f}"\n        f = f + ", " + f\n        if right:\n            form = "(" + f + "]"\n        else:\n            form = "[" + f + ")"\n',
     '        f = "{:.%df}" % precision\n        opening, closing = ("[", ")") if right else ("(", "]")\n        form = opening + f + ", " + f + closing\n',
     'pass 5: bracket characters exchanged'),
    ("C10", 'break', ['C10-R6'], LOC, '    pv = np.hstack((True, abs(m) > stol))\n    return pv\n',
     '    pv = np.empty(y.size, bool)\n    pv[0] = True\n    pv[1:] = abs(m) >= stol\n    return pv\n',
     'pass 5: two-piece mask with >='),
    ("C10", 'break', ['C10-R5'], CYC, '        if check_bounds:\n            if right:\n                if mn <= bb[0] or mx > bb[-1]:\n                    out_of_bounds = True\n                else:\n                    out_of_bounds = False\n            else:\n                if mn < bb[0] or mx >= bb[-1]:\n                    out_of_bounds = True\n                else:\n                    out_of_bounds = False\n',
     '        if check_bounds:\n            first, last = bb[0], bb[-1]\n            if right:\n                out_of_bounds = bool(mn < first or mx > last)\n            else:\n                out_of_bounds = bool(mn < first or mx >= last)\n',
     'pass 5: first-edge test strict'),
    ("C10", 'break', ['C10-R1'], FDE, '        di_sig=di_sig,\n        di_test=di_test,\n',
     '        di_sig=di_test,\n        di_test=di_sig,\n',
     'pass 5: di_sig and di_test exchanged in the result'),
]

RECIPES += [
    ("C10", 'neutral', [], FDE, '            rf = cyclecount.rainflow(resphist[ind])\n\n            amp = rf["amp"]\n            count = rf["count"]\n',
     '            rf = cyclecount.rainflow(resphist[ind], use_pandas=False)\n\n            amp, _, count = rf.T\n',
     'pass 5: cycle table as ndarray, columns unpacked from its transpose'),
    ("C10", 'neutral', [], FDE, '            amp = rf["amp"]\n            count = rf["count"]\n            Amax[j] = amp.max()',
     '            amp = rf["amp"].to_numpy()\n            count = rf["count"].to_numpy()\n            Amax[j] = amp.max()',
     'pass 5: cycle columns through .to_numpy()'),
    ("C10", 'neutral', [], FDE, '    Gmax = pd.DataFrame(np.vstack((Amax, G2max, Gmax)).T, columns=columns, index=index)\n',
     '    Gmax = pd.DataFrame(np.column_stack((Amax, G2max, *Gmax)), columns=columns, index=index)\n',
     'pass 5: peak table from column_stack with the rows of Gmax starred in'),
    ("C10", 'neutral', [], FDE, '    G2max = np.sqrt(G2max)\n    Gmax = pd.DataFrame(np.vstack((Amax, G2max, Gmax)).T, columns=columns, index=index)\n',
     '    G2peak = np.sqrt(G2max)\n    peaks = np.vstack((Amax, G2peak, Gmax))\n    Gmax = pd.DataFrame(peaks.T, columns=columns, index=index)\n',
     'pass 5: square root of G2max under a name of its own, peaks stacked in a local'),
    ("C10", 'neutral', [], CYC, '        pv[1:-1] = np.abs(np.diff(s)) == 2\n        if yu.size > 2:\n            pv[-1] = yu[-1] != yu[-2]\n',
     '        if yu.size > 2:\n            pv[1:-1] = np.abs(np.diff(s)) == 2\n            pv[-1] = yu[-1] != yu[-2]\n',
     'pass 5: findap: interior and end-point stores under one size test'),
    ("C10", 'neutral', [], CYC, '        while i < y.size:\n            if np.abs(y[i] - prv) > stol:\n                break\n            i += 1\n',
     '        while i < y.size and not np.abs(y[i] - prv) > stol:\n            i += 1\n',
     'pass 5: loop variant: flat start skipped by a compound while condition'),
    ("C10", 'neutral', [], CYC, '            if y[1] == y[0]:\n                return np.array([True, False])\n            return np.array([True, True])\n',
     '            return np.array([True, bool(y[1] != y[0])])\n',
     'pass 5: loop variant: two-sample case as one array display'),
    ("C10", 'neutral', [], CYC, '        if cur > prv:\n            mountain = True  # find mountain peak\n        else:\n            mountain = False  # find valley floor\n',
     '        mountain = bool(cur > prv)  # True: find mountain peak; False: valley floor\n',
     'pass 5: loop variant: direction flag from the comparison itself'),
    ("C10", 'neutral', [], FDE, '            Var[j] = np.var(resphist, ddof=1)\n',
     '            Var[j] = resphist.var(ddof=1)\n',
     'pass 5: variance through the array method'),
    ("C10", 'neutral', [], FDE, '        for j, wn in enumerate(Wn):\n            if verbose:',
     '        for j in range(LF):\n            wn = Wn[j]\n            if verbose:',
     'pass 5: frequency loop over range(LF)'),
    ("C10", 'neutral', [], FDE, '            for jj in range(nbins):\n                pv = amp >= BinAmps[j, jj]\n                Count[j, jj] = np.sum(count[pv])\n',
     '            Count[j] = np.fromiter((count[amp >= level].sum() for level in BinAmps[j]), dtype=float, count=nbins)\n',
     'pass 5: cumulative counts of a row through np.fromiter'),
    ("C10", 'neutral', [], FDE, '            for jj in range(nbins):\n                pv = amp >= BinAmps[j, jj]\n                Count[j, jj] = np.sum(count[pv])\n',
     '            Count[j, :] = np.array([np.sum(count[amp >= BinAmps[j, jj]]) for jj in range(nbins)])\n',
     'pass 5: cumulative counts of a row as np.array of a comprehension stored into Count[j, :]'),
    ("C10", 'neutral', [], FDE, 'BinCount = np.hstack((Count[:, :-1] - Count[:, 1:], Count[:, -1:]))',
     'BinCount = Count.copy()\n    BinCount[:, :-1] -= Count[:, 1:]',
     'pass 5: BinCount as a copy of Count with the shifted columns subtracted in place'),
    ("C10", 'neutral', [], FDE, '    N0 = freq * T0\n    lnN0 = np.log(N0)\n',
     '    ncycles = freq * T0\n    N0 = ncycles\n    lnN0 = np.log(ncycles)\n',
     'pass 5: cycle number under a second name'),
    ("C10", 'neutral', [], FDE, '        Abar3 = Abar2 * Abar\n        Abar4 = Abar2 * Abar2\n',
     '        Abar3, Abar4 = Abar2 * Abar, Abar2 * Abar2\n',
     'pass 5: powers of Abar bound by tuple assignment'),
    ("C10", 'neutral', [], FDE, '        Dt4 *= 4  # 2 ** (b/2)\n        Dt8 *= 16\n        Dt12 *= 64\n',
     '        for Dt, scale in ((Dt4, 4), (Dt8, 16), (Dt12, 64)):\n            Dt *= scale  # 2 ** (b/2), in place\n',
     'pass 5: pvelo test indicators scaled in place in a loop over (array, factor)'),
    ("C10", 'neutral', [], FDE, '        Dt4 *= 4  # 2 ** (b/2)\n        Dt8 *= 16\n        Dt12 *= 64\n',
     '        Dt4, Dt8, Dt12 = Dt4 * 4, Dt8 * 16, Dt12 * 64  # 2 ** (b/2)\n',
     'pass 5: pvelo test indicators re-bound scaled'),
    ("C10", 'neutral', [], CYC, '        bins = int(bins[0])\n        bb = np.linspace(mn, mx, bins + 1)\n',
     '        nbins = int(bins[0])\n        bb = np.linspace(mn, mx, num=nbins + 1)\n',
     'pass 5: getbins: bin count under a name of its own, linspace with num='),
    ("C10", 'neutral', [], CYC, '    if retbins:\n        return table, ampb, aveb\n\n    return table\n',
     '    return (table, ampb, aveb) if retbins else table\n',
     'pass 5: binify: return chosen by a conditional expression'),
    ("C10", 'break', ['C10-R3', 'C10-R7'], FDE, '            rf = cyclecount.rainflow(resphist[ind])\n\n            amp = rf["amp"]\n            count = rf["count"]\n',
     '            rf = cyclecount.rainflow(resphist[ind], use_pandas=False)\n\n            amp, count, _ = rf.T\n',
     'pass 5: columns of the transposed cycle table unpacked in the wrong order'),
    ("C10", 'break', ['C10-R6'], CYC, '        pv[1:-1] = np.abs(np.diff(s)) == 2\n        if yu.size > 2:\n            pv[-1] = yu[-1] != yu[-2]\n',
     '        if yu.size > 3:\n            pv[1:-1] = np.abs(np.diff(s)) == 2\n            pv[-1] = yu[-1] != yu[-2]\n',
     'pass 5: interior store skipped for three retained samples'),
    ("C10", 'break', ['C10-R1'], FDE, '    Gmax = pd.DataFrame(np.vstack((Amax, G2max, Gmax)).T, columns=columns, index=index)\n',
     '    Gmax = pd.DataFrame(np.column_stack((G2max, Amax, *Gmax)), columns=columns, index=index)\n',
     'pass 5: peak table: G1 and G2 peak columns exchanged'),
]

RECIPES += [
    ("C10", 'neutral', [], FDE, '            b, a = coeffunc(Q, dT, wn)\n            resphist = signal.lfilter(b, a, sig)\n            SRSmax[j] = abs(resphist).max()\n            Var[j] = np.var(resphist, ddof=1)\n\n            # use rainflow to count cycles:\n            ind = cyclecount.findap(resphist)\n            rf = cyclecount.rainflow(resphist[ind])\n\n            amp = rf["amp"]\n            count = rf["count"]\n            Amax[j] = amp.max()\n            BinAmps[j] *= Amax[j]\n\n            # cumulative bin count:\n            for jj in range(nbins):\n                pv = amp >= BinAmps[j, jj]\n                Count[j, jj] = np.sum(count[pv])\n',
     '            b, a = coeffunc(Q, dT, wn)\n            resphist = signal.lfilter(b, a, sig)\n            SRSmax[j] = abs(resphist).max()\n            Var[j] = np.var(resphist, ddof=1)\n\n            # use rainflow to count cycles:\n            rf = cyclecount.rainflow(resphist[cyclecount.findap(resphist)])\n            amp, count = rf["amp"], rf["count"]\n\n            def ncycles_at_or_above(level):\n                return np.sum(count[amp >= level])\n\n            Amax[j] = amp.max()\n            BinAmps[j] *= Amax[j]\n\n            # cumulative bin count:\n            Count[j] = [ncycles_at_or_above(level) for level in BinAmps[j]]\n',
     'pass 5: cumulative count through a nested function reading amp / count of the enclosing loop body'),
    ("C10", 'neutral', [], FDE, '            for jj in range(nbins):\n                pv = amp >= BinAmps[j, jj]\n                Count[j, jj] = np.sum(count[pv])\n',
     '            cumulative = lambda level: np.sum(count[amp >= level])\n            for jj in range(nbins):\n                Count[j, jj] = cumulative(BinAmps[j, jj])\n',
     'pass 5: cumulative count through a lambda bound in the loop body'),
    ("C10", 'neutral', [], FDE, '            for jj in range(nbins):\n                pv = amp >= BinAmps[j, jj]\n                Count[j, jj] = np.sum(count[pv])\n',
     '            Count[j] = list(map(lambda level: np.sum(count[amp >= level]), BinAmps[j]))\n',
     'pass 5: cumulative counts of a row through map(lambda)'),
    ("C10", 'neutral', [], FDE, '            for jj in range(nbins):\n                pv = amp >= BinAmps[j, jj]\n                Count[j, jj] = np.sum(count[pv])\n',
     '            Count[j] = [count[amp >= level].sum() for level in BinAmps[j].tolist()]\n',
     "pass 5: cumulative counts of a row over the row's .tolist()"),
]

# last pass: the label form built by nested str.format calls on literal templates ({{ }} escapes, numbered fields)
_FORM_OLD = ('        f = "{:." + str(precision) + "f}"\n        f = f + ", " + f\n        if right:\n            form = "(" + f + "]"\n'
             '        else:\n            form = "[" + f + ")"\n')
RECIPES += [
    ("C10", 'neutral', [], CYC, _FORM_OLD,
     '        f = "{{:.{}f}}".format(precision)\n        f = "{0}, {0}".format(f)\n        if right:\n            form = "({}]".format(f)\n'
     '        else:\n            form = "[{})".format(f)\n',
     'last pass: label form built by nested str.format calls on literal templates'),
    ("C10", 'neutral', [], CYC, _FORM_OLD,
     '        form = "{0}{{:.{2}f}}, {{:.{2}f}}{1}".format("(" if right else "[", "]" if right else ")", precision)\n',
     'last pass: label form from one numbered-field template, brackets chosen by conditional expressions'),
    ("C10", 'break', ['C10-R5'], CYC, _FORM_OLD,
     '        f = "{{:.{}f}}".format(precision)\n        f = "{0}, {0}".format(f)\n        if right:\n            form = "[{}]".format(f)\n'
     '        else:\n            form = "[{})".format(f)\n',
     'last pass: str.format label form with the wrong opening bracket for right=True'),
    ("C10", 'break', ['C10-R5'], CYC, _FORM_OLD,
     '        f = "{{:.{}f}}".format(precision)\n        f = "{0}, {0}".format(f)\n        if right:\n            form = "[{})".format(f)\n'
     '        else:\n            form = "({}]".format(f)\n',
     'last pass: str.format label forms of the two `right` settings exchanged'),
]

# pass 6: (a) the vectorised findap on drift signals (two neighbouring retained samples exactly equal: slope sign 0); (b) _binify accumulating
# through a flattened view of the table (flat index -> (row, column) by divmod)
_S_OLD = '        s = np.sign(np.diff(yu))\n'
_PV_OLD = '        pv[1:-1] = np.abs(np.diff(s)) == 2\n'
_ACC_OLD = ('        for i in range(len(cycles)):\n            bim = bin_indices_mean[i]\n            bir = bin_indices_range[i]\n'
            '            if (0 <= bim < num_bins_mean) and (0 <= bir < num_bins_range):\n                markov_matrix[bim, bir] += cycles[i, 2]\n')
_FLAT_HEAD = '        for i in range(len(cycles)):\n            bim = bin_indices_mean[i]\n            bir = bin_indices_range[i]\n'
RECIPES += [
    ("C10", 'break', ['C10-R6'], CYC, _PV_OLD, '        pv[1:-1] = (s[1:] > 0) != (s[:-1] > 0)\n',
     'pass 6: direction flips of a boolean "rising" flag (zero slope counts as falling: both samples of an equal retained pair are marked)'),
    ("C10", 'break', ['C10-R6'], CYC, _PV_OLD, '        pv[1:-1] = np.diff(s) != 0\n',
     'pass 6: any change of the slope sign marks a reversal (0 -> 1 after an equal retained pair included)'),
    ("C10", 'break', ['C10-R6'], CYC, _PV_OLD, '        pv[1:-1] = np.abs(np.diff(s)) >= 1\n',
     'pass 6: |change of slope sign| >= 1 instead of == 2'),
    ("C10", 'break', ['C10-R6'], CYC, _S_OLD, '        s = np.where(np.diff(yu) > 0, 1, -1)\n',
     'pass 6: two-valued slope sign, zero slope counted as falling'),
    ("C10", 'break', ['C10-R6'], CYC, _S_OLD, '        s = np.where(np.diff(yu) >= 0, 1, -1)\n',
     'pass 6: two-valued slope sign, zero slope counted as rising'),
    ("C10", 'neutral', [], CYC, _PV_OLD, '        pv[1:-1] = s[1:] * s[:-1] < 0\n',
     'pass 6: product of the slope signs negative (a zero slope never marks)'),
    ("C10", 'neutral', [], CYC, _PV_OLD, '        pv[1:-1] = (s[1:] != s[:-1]) & (s[1:] != 0) & (s[:-1] != 0)\n',
     'pass 6: signs differ and neither is zero'),
    ("C10", 'neutral', [], CYC, _PV_OLD, '        pv[1:-1] = ((s[:-1] > 0) & (s[1:] < 0)) | ((s[:-1] < 0) & (s[1:] > 0))\n',
     'pass 6: rising then falling, or falling then rising'),
    ("C10", 'neutral', [], CYC, _S_OLD, '        d = np.diff(yu)\n        s = np.where(d > 0, 1, np.where(d < 0, -1, 0))\n',
     'pass 6: three-valued slope sign spelled with nested np.where'),
    ("C10", 'break', ['C10-R5'], CYC, _ACC_OLD,
     '        flat = markov_matrix.ravel()\n        for i in range(len(cycles)):\n            k = bin_indices_mean[i] * num_bins_range + bin_indices_range[i]\n'
     '            if 0 <= k < flat.size:\n                flat[k] += cycles[i, 2]\n',
     'pass 6: accumulation through the flattened view, bounds tested on the flat index only'),
    ("C10", 'break', ['C10-R5'], CYC, _ACC_OLD,
     '        flat = np.ravel(markov_matrix)\n        for i in range(len(cycles)):\n            k = bin_indices_mean[i] * num_bins_range + bin_indices_range[i]\n'
     '            if 0 <= k < num_bins_mean * num_bins_range:\n                flat[k] += cycles[i, 2]\n',
     'pass 6: np.ravel view, bounds tested against rows * columns'),
    ("C10", 'break', ['C10-R5'], CYC, _ACC_OLD,
     '        flat = markov_matrix.ravel()\n' + _FLAT_HEAD +
     '            if (0 <= bim < num_bins_mean) and (0 <= bir < num_bins_range):\n                flat[bim * num_bins_mean + bir] += cycles[i, 2]\n',
     'pass 6: flattened view indexed with the number of rows as the stride'),
    ("C10", 'break', ['C10-R5'], CYC, _ACC_OLD,
     '        flat = markov_matrix.ravel()\n' + _FLAT_HEAD +
     '            if (0 <= bim < num_bins_mean) and (bir < num_bins_range):\n                flat[bim * num_bins_range + bir] += cycles[i, 2]\n',
     'pass 6: flattened view, lower bound of the amplitude index not tested (index -1 lands in the previous mean row)'),
    ("C10", 'neutral', [], CYC, _ACC_OLD,
     '        flat = markov_matrix.ravel()\n' + _FLAT_HEAD +
     '            if (0 <= bim < num_bins_mean) and (0 <= bir < num_bins_range):\n                flat[bim * num_bins_range + bir] += cycles[i, 2]\n',
     'pass 6: flattened view, both indices tested per axis'),
    ("C10", 'neutral', [], CYC, _ACC_OLD,
     '        flat = np.ravel(markov_matrix)\n' + _FLAT_HEAD +
     '            if bim < 0 or bim >= num_bins_mean or bir < 0 or bir >= num_bins_range:\n                continue\n'
     '            flat[bir + num_bins_range * bim] += cycles[i, 2]\n',
     'pass 6: np.ravel view, out-of-range cycles skipped with continue'),
    ("C10", 'neutral', [], CYC, _ACC_OLD,
     '        flat = markov_matrix.ravel()\n' + _FLAT_HEAD +
     '            k = bim * num_bins_range + bir\n'
     '            if (0 <= bim < num_bins_mean) and (0 <= bir < num_bins_range):\n                flat[k] += cycles[i, 2]\n',
     'pass 6: flattened view, flat index computed before the per-axis test'),
]
