"""Self-test recipes of C10 (same tuple format as selftest.RECIPES): behaviour-preserving rewrites the value-level rules must accept and
behaviour-breaking edits each obligation must report."""

CYC = "pyyeti/cyclecount.py"
LOC = "pyyeti/locate.py"
FDE = "pyyeti/fdepsd.py"

_GB_TRUE = '''                if mn <= bb[0] or mx > bb[-1]:
                    out_of_bounds = True
                else:
                    out_of_bounds = False
'''

_GB_FALSE = '''                if mn < bb[0] or mx >= bb[-1]:
                    out_of_bounds = True
                else:
                    out_of_bounds = False
'''

_NUMBA_END = '''        if np.abs(nxt - y[-2]) > stol:
            PV[-1] = True
        else:
            PV[j] = True
'''

_DF_LOOP = '''    for j in range(LF):
        Df4[j] = (BinAmps[j] ** b4).dot(BinCount[j])
        Df8[j] = (BinAmps[j] ** b8).dot(BinCount[j])
        Df12[j] = (BinAmps[j] ** b12).dot(BinCount[j])
'''

_COUNT_LOOP = '''            for jj in range(nbins):
                pv = amp >= BinAmps[j, jj]
                Count[j, jj] = np.sum(count[pv])
'''

RECIPES = [
    # ---------------------------------------------------------------------------------------------------------------- break
    ("C10", "break", ["C10-R5"], CYC, _GB_TRUE, "                out_of_bounds = bool(mn < bb[0] or mx > bb[-1])\n",
     "right=True lower edge, verdict written as a boolean assignment (seeded change D)"),
    ("C10", "break", ["C10-R5"], CYC, _GB_FALSE, "                out_of_bounds = not (mn >= bb[0] and mx <= bb[-1])\n",
     "right=False upper edge, verdict written as a negated conjunction"),
    ("C10", "break", ["C10-R5"], CYC, "            if (0 <= bim < num_bins_mean) and (0 <= bir < num_bins_range):",
     "            if (0 <= bim <= num_bins_mean) and (0 <= bir < num_bins_range):", "_binify guard admits the row index one past the end"),
    ("C10", "break", ["C10-R5"], CYC, "        out = out_amp or out_ave", "        out = out_amp and out_ave", "guard only when both axes are out of bounds"),
    ("C10", "break", ["C10-R5"], CYC, "    ampb = getbins(ampbins, *maxmin(rf[:, 0]), right, check_bounds)", "    ampb = getbins(ampbins, *maxmin(rf[:, 1]), right, check_bounds)",
     "amplitude bins checked against the range of the mean column"),
    ("C10", "break", ["C10-R6"], CYC, "            if np.abs(nxt - cur) > stol:", "            if np.abs(nxt - cur) >= stol:", "loop variant: non-strict tolerance comparison"),
    ("C10", "break", ["C10-R6"], CYC, "        stol = np.abs(tol * np.abs(np.diff(y)).max())", "        stol = np.abs(tol * np.abs(np.diff(y)).min())",
     "loop variant: tolerance relative to the smallest difference"),
    ("C10", "break", ["C10-R6"], CYC, "        s = np.sign(np.diff(yu))", "        s = np.sign(np.diff(y)[u[1:]])", "slope signs from raw differences at the retained samples (seeded change C)"),
    ("C10", "break", ["C10-R6"], CYC, "        PV[u] = pv\n", "        PV[~u] = pv[: (~u).sum()]\n", "expansion scatters onto the removed samples"),
    ("C10", "break", ["C10-R3"], FDE, "                pv = amp >= BinAmps[j, jj]", "                pv = amp > BinAmps[j, jj]", "cumulative count excludes cycles on the level"),
    ("C10", "break", ["C10-R3"], FDE, "            BinAmps[j] *= Amax[j]", "            BinAmps[j] *= SRSmax[j]", "levels scaled by the SRS peak instead of the largest cycle amplitude"),
    ("C10", "break", ["C10-R1"], FDE, 'np.column_stack((Df4, Df8, Df12)), columns=["b=4", "b=8", "b=12"]', 'np.column_stack((Df8, Df4, Df12)), columns=["b=4", "b=8", "b=12"]',
     "di_sig columns swapped under their labels"),
    ("C10", "break", ["C10-R1"], FDE, "        sig2_8 = (Df8 / Dt8) ** (1 / 4)\n        G8 = sig2_8 / ((Q * pi / 2) * freq)", "        sig2_8 = (Df8 / Dt8) ** (1 / 2)\n        G8 = sig2_8 / ((Q * pi / 2) * freq)",
     "absacce variance exponent for b=8"),
    ("C10", "break", ["C10-R7"], FDE, "            if tantheta[k] > 0:", "            if tantheta[k] > 1e-12:", "absolute threshold on a quantity of dimension 1/amplitude^2 (seeded change E)"),
    ("C10", "break", ["C10-R7"], FDE, "        pv = BinAmps[j] >= Amax[j] / 3  # ignore small amp cycles", "        pv = BinAmps[j] >= 1 / 3  # ignore small amp cycles",
     "absolute amplitude cut-off"),
    ("C10", "break", ["C10-R7"], FDE, "        G2 = G2max / (Q * pi * freq * lnN0)", "        G2 = np.sqrt(G2max) / (Q * pi * freq * lnN0)", "G2 of degree 1 in the amplitude"),
    # -------------------------------------------------------------------------------------------------------------- neutral
    ("C10", "neutral", [], CYC, _GB_TRUE, "                out_of_bounds = bool(mn <= bb[0] or mx > bb[-1])\n", "verdict as a boolean assignment"),
    ("C10", "neutral", [], CYC, _GB_FALSE, "                out_of_bounds = not (mn >= bb[0] and mx < bb[-1])\n", "verdict as a negated conjunction (De Morgan)"),
    ("C10", "neutral", [], CYC, _GB_TRUE, "                out_of_bounds = bb[0] >= mn\n                if not out_of_bounds:\n                    out_of_bounds = bb[-1] < mx\n",
     "verdict in two steps with swapped operands"),
    ("C10", "neutral", [], CYC, "        out = out_amp or out_ave", "        out = bool(out_amp) | bool(out_ave)", "bitwise or of booleans"),
    ("C10", "neutral", [], CYC, "            if (0 <= bim < num_bins_mean) and (0 <= bir < num_bins_range):",
     "            if not (bim < 0 or bim >= num_bins_mean or bir < 0 or bir >= num_bins_range):", "guard as a negated disjunction"),
    ("C10", "neutral", [], LOC, "    pv = np.hstack((True, abs(m) > stol))", "    pv = np.hstack((True, stol < np.abs(m)))", "swapped operands"),
    ("C10", "neutral", [], LOC, "    pv = np.hstack((True, abs(m) > stol))", "    pv = np.concatenate(([True], ~(abs(m) <= stol)))", "negated complement"),
    ("C10", "neutral", [], CYC, _NUMBA_END, "        if np.abs(nxt - y[-2]) <= stol:\n            PV[j] = True\n        else:\n            PV[-1] = True\n", "complement test, arms swapped"),
    ("C10", "neutral", [], CYC, "        s = np.sign(np.diff(yu))", "        steps = yu[1:] - yu[:-1]\n        s = np.sign(steps)", "diff written out"),
    ("C10", "neutral", [], FDE, "            if tantheta[k] > 0:", "            if 0 < tantheta[k]:", "swapped operands"),
    ("C10", "neutral", [], FDE, "        pv = BinAmps[j] >= Amax[j] / 3  # ignore small amp cycles", "        pv = 3 * BinAmps[j] >= Amax[j]  # ignore small amp cycles", "cut-off multiplied out"),
    ("C10", "neutral", [], FDE, _DF_LOOP, "    Df4 = np.array([BinCount[j] @ BinAmps[j] ** b4 for j in range(LF)])\n    Df8 = np.array([np.dot(BinAmps[j] ** b8, BinCount[j]) for j in range(LF)])\n"
                                            "    for j in range(LF):\n        Df12[j] = (BinAmps[j] ** 12) @ BinCount[j]\n",
     "damage indicators by comprehension / np.dot / literal exponent"),
    ("C10", "neutral", [], FDE, _COUNT_LOOP, "            Count[j] = [count[amp >= lev].sum() for lev in BinAmps[j]]\n", "cumulative count row by comprehension over the levels"),
    ("C10", "neutral", [], FDE, "    BinCount = np.hstack((Count[:, :-1] - Count[:, 1:], Count[:, -1:]))", "    drop = Count[:, :-1] - Count[:, 1:]\n    BinCount = np.concatenate([drop, Count[:, -1:]], axis=1)",
     "concatenate with a temporary"),
    ("C10", "neutral", [], FDE, "        Gmax = np.sqrt(np.vstack((G4, G8, G12)) * (Q * pi * freq * lnN0))", "        kk = lnN0 * freq * pi * Q\n        Gmax = np.vstack((np.sqrt(G4 * kk), np.sqrt(kk * G8), np.sqrt(G12 * kk)))",
     "peak amplitudes row by row"),
]
