"""maxmin decided row by row in a finite set of row worlds (C16 R2).

`maxmin(response, x)` must return, for every row of `response` that has at least one valid sample, the largest / smallest valid sample of *that
row* and `x` at its (first) position - NaN samples are ignored.  Whether a piece of code does that does not depend on the numbers in the row,
only on which kinds of elements it has.  A row is therefore evaluated in each of the worlds

    NUM   every element is a number          MIX   numbers and NaNs          NAN   only NaNs (np.nanargmax raises; not part of the claim)

(infinities are not modelled: `isfinite` is read as `~isnan`).  In a world
  * an element-wise predicate (`isnan(R)`, `isfinite(R)`, `R != R`, their `~ & |` combinations) has one truth value per element class,
  * a row mask (`pred.all(axis=1)`, `pred.any(axis=1)`, `pred.sum(axis=1) == ncols`, `isnan(nanmax(R, axis=1))`, `~ & | ^` of masks) is a
    truth value,
  * `np.where(mask[:, None], A, B)`, `copy; copy[mask] = v`, `table[mask] = v`, `table[mask, k] = v` select what the row holds,
  * a matrix / vector / table aligned with the rows of `response` is one of the abstract row values
        ('R',)  the row itself      ('const', c)      ('pos', 'max'|'min')  NaN-aware position of the row extreme
        ('val', kind)  the row at that position       ('x', kind)  x at that position       ('cols', a, b)  a two-column table row
        ('bad', why)   a value that is provably none of these for a generic row of the world (np.argmax on a row with NaN, position of
                       the extreme of a replaced row, the row read at the position of the other extreme ...).
A test on the whole matrix made on the path (`if skip.any():`, `if not np.isnan(response).any():`) restricts the worlds a row can be in on
that path.  Stores into a private copy are replayed in program order (the interpreter records when each call and each subscript load
happened); anything that is not understood raises Unknown (analysis error, never a violation).
"""
from __future__ import annotations

from .c16_interp import NONE, is_const, show

FULL = ("slice", NONE, NONE, NONE)
NUM, MIX, NAN = "NUM", "MIX", "NAN"
CLASSES = {NUM: ("num",), MIX: ("num", "nan"), NAN: ("nan",)}
WORLD_TEXT = {NUM: "a row of numbers", MIX: "a row with NaN samples and valid samples", NAN: "a row of NaNs"}
INF = 10 ** 9
NANV = ("const", "nan")
PRESERVE = ("np.asarray", "np.asanyarray", "np.atleast_2d", "np.ascontiguousarray", "np.asfortranarray", "np.atleast_1d")
COPIES = (".copy", "np.array", "np.copy", "copy.copy", "copy.deepcopy")
FLOATS = (("g", "float"), ("g", "np.float64"), ("g", "np.double"), ("g", "np.float_"), ("c", "float"), ("c", "f8"), ("c", "float64"), ("c", "d"))
KINDS = {"np.nanargmax": ("max", True), "np.nanargmin": ("min", True), "np.argmax": ("max", False), "np.argmin": ("min", False),
         ".argmax": ("max", False), ".argmin": ("min", False)}
VALS = {"np.nanmax": ("max", True), "np.nanmin": ("min", True), "np.max": ("max", False), "np.min": ("min", False), "np.amax": ("max", False),
        "np.amin": ("min", False), ".max": ("max", False), ".min": ("min", False)}
COUNTS = (".sum", "np.sum", "np.count_nonzero")
SHAPE_ONLY = ("shape", "ndim", "size", "dtype")


class Unknown(Exception):
    pass


def is_nan_term(t):
    return t in (("g", "np.nan"), ("g", "np.NaN"), ("g", "np.NAN"), ("g", "math.nan"), ("g", "nan")) or \
        (t[0] == "call" and t[1] == "float" and t[2] == (("c", "nan"),) and not t[3])


def reads_values(t, R):
    """the term depends on the *values* of R (not only on its shape / dtype)"""
    if not isinstance(t, tuple) or not t:
        return False
    if t == R:
        return True
    if t[0] == "attr" and t[2] in SHAPE_ONLY:
        return False
    if t[0] == "call":
        if t[1] in ("np.shape", "len", "np.ndim", "np.size") and len(t[2]) == 1:
            return False
        return any(reads_values(a, R) for a in t[2]) or any(reads_values(v, R) for _, v in t[3])
    if t[0] in ("c", "s", "g", "fn"):
        return False
    return any(reads_values(a, R) for a in t[1:] if isinstance(a, tuple))


class RowEval:
    def __init__(self, P, R, X, world):
        self.P, self.R, self.X, self.w = P, R, X, world
        self.hits = []          # masks that were true in this world and replaced / overwrote the row
        self.calls = {}
        self.loads = {}
        self.stores = {}
        for e in P.events:
            if e.kind == "call":
                self.calls.setdefault(e.value, []).append(e.seq)
            elif e.kind == "load":
                self.loads.setdefault(e.value, []).append(e.seq)
            elif e.kind == "store":
                self.stores.setdefault(e.target, []).append(e)
        if R in self.stores or X in self.stores:
            raise Unknown("the function stores into its own argument")

    # ------------------------------------------------------------------ time
    def _at(self, table, t, limit):
        """the moments (event numbers) before `limit` at which the term was computed; [limit] when that is not recorded"""
        s = sorted({q for q in table.get(t, ()) if q < limit})
        return s or [limit]

    def _each(self, table, t, limit, f):
        out = None
        for q in self._at(table, t, limit):
            r = f(q)
            if out is not None and r != out:
                raise Unknown(f"`{show(self.P.norm(t))[:80]}` is computed more than once with different contents")
            out = r
        return out

    # ------------------------------------------------------------------ element-wise predicates
    def elem(self, t, limit):
        """{element class: truth} of an element-wise predicate on the response"""
        k = t[0]
        if k == "c" and isinstance(t[1], bool):
            return {"num": t[1], "nan": t[1]}
        if k == "op":
            n = t[1]
            if n in ("inv", "not") and len(t) == 3:
                e = self.elem(t[2], limit)
                return {c: not v for c, v in e.items()}
            if n in ("and_", "or_", "xor", "and", "or") and len(t) >= 4:
                es = [self.elem(x, limit) for x in t[2:]]
                f = {"and_": all, "and": all, "or_": any, "or": any, "xor": lambda v: sum(v) % 2 == 1}[n]
                return {c: bool(f([e[c] for e in es])) for c in ("num", "nan")}
            if n in ("ne", "eq") and len(t) == 4 and t[2] == t[3] and self.ev(t[2], limit) == ("R",):
                return {"num": n == "eq", "nan": n == "ne"}
        if k == "call" and t[1] in ("np.isnan", "np.isfinite") and len(t[2]) == 1 and not t[3]:
            if self.ev(t[2][0], limit) == ("R",):
                return {"num": t[1] == "np.isfinite", "nan": t[1] == "np.isnan"}
        raise Unknown(f"element-wise predicate `{show(self.P.norm(t))[:100]}`")

    # ------------------------------------------------------------------ row masks
    def _axis(self, t, first=1):
        """axis of a reduction call (positional after the array, or keyword); 'none' when not given"""
        kw = dict(t[3])
        if any(k not in ("axis", "keepdims") for k in kw):
            raise Unknown(f"keyword of {t[1]}")
        ax = kw.get("axis")
        if len(t[2]) > first:
            if ax is not None or len(t[2]) > first + 1:
                raise Unknown(f"arguments of {t[1]}")
            ax = t[2][first]
        if ax is None or ax == NONE:
            return "none"
        if not (is_const(ax) and isinstance(ax[1], int)):
            raise Unknown(f"axis of {t[1]}")
        return ax[1]

    def _unbroadcast(self, t):
        for _ in range(4):
            if t[0] == "idx" and t[2][0] == "tup" and len(t[2]) == 3 and t[2][1] == FULL and t[2][2] == NONE:
                t = t[1]                                                                     # m[:, None]
            elif t[0] == "call" and t[1] in (".reshape", "np.reshape") and t[2][1:] in ((("c", -1), ("c", 1)), (("tup", ("c", -1), ("c", 1)),)) and not t[3]:
                t = t[2][0]
            elif t[0] == "call" and t[1] == "np.expand_dims" and len(t[2]) + len(t[3]) == 2 and (t[2][1:] or (dict(t[3]).get("axis"),))[0] in (("c", 1), ("c", -1)):
                t = t[2][0]
            else:
                break
        return t

    def mask(self, t, limit):
        """truth of a row mask for a row of this world"""
        t = self._unbroadcast(t)
        k = t[0]
        if k == "c" and isinstance(t[1], bool):
            return t[1]
        if k == "op":
            n = t[1]
            if n in ("inv", "not") and len(t) == 3:
                return not self.mask(t[2], limit)
            if n in ("and_", "and"):
                return all([self.mask(x, limit) for x in t[2:]])
            if n in ("or_", "or"):
                return any([self.mask(x, limit) for x in t[2:]])
            if n == "xor" and len(t) == 4:
                return self.mask(t[2], limit) != self.mask(t[3], limit)
            if n in ("eq", "ne", "gt", "ge") and len(t) == 4:
                return self._count_cmp(n, t[2], t[3], limit)
        if k == "call":
            n = t[1]
            if n in (".all", "np.all", ".any", "np.any") and t[2]:
                if self._axis(t) not in (1, -1):
                    raise Unknown(f"{n} over the whole matrix used as a row mask")
                return self._each(self.calls, t, limit, lambda q: self._reduce(n, self.elem(t[2][0], q)))
            if n in ("np.isnan", "np.isfinite") and len(t[2]) == 1 and not t[3]:
                v = self.ev(t[2][0], limit)
                if v[0] == "val":
                    nan = self.w == NAN          # the NaN-aware extreme of a row is NaN exactly when the row has no valid sample
                elif v[0] == "const":
                    nan = v == NANV
                else:
                    raise Unknown(f"isnan of {v}")
                return nan if n == "np.isnan" else not nan
        raise Unknown(f"row mask `{show(self.P.norm(t))[:100]}`")

    def _reduce(self, n, e):
        vals = [e[c] for c in CLASSES[self.w]]
        return all(vals) if n.endswith("all") else any(vals)

    def _ncols(self, t):
        if t[0] == "idx" and t[2] in (("c", 1), ("c", -1)):
            b = t[1]
            if b[0] == "call" and b[1] == "np.shape" and len(b[2]) == 1 and not b[3] and self._is_R(b[2][0]):
                return True
            if b[0] == "attr" and b[2] == "shape" and self._is_R(b[1]):
                return True
        return False

    def _is_R(self, t):
        try:
            return self.ev(t, INF) == ("R",)
        except Unknown:
            return False

    def _count_cmp(self, n, a, b, limit):
        """`pred.sum(axis=1)` compared with 0, 1 or the number of columns"""
        def count(t):
            if t[0] == "call" and t[1] in COUNTS and t[2] and self._axis(t) in (1, -1):
                e = self.elem(t[2][0], limit)
                vals = [e[c] for c in CLASSES[self.w]]
                return 2 if all(vals) else (0 if not any(vals) else 1)          # all / none / some (0 < count < ncols)
            return None

        def bound(t):
            if t in (("c", 0), ("c", 0.0)):
                return 0
            if self._ncols(t):
                return 2
            if t == ("c", 1):
                return "one"
            return None
        ca, cb = count(a), count(b)
        if ca is not None and cb is None:
            x, y, flip = ca, bound(b), False
        elif cb is not None and ca is None:
            x, y, flip = cb, bound(a), True
        else:
            raise Unknown("comparison that is not a count against 0 / the number of columns")
        if y is None:
            raise Unknown("count compared with something else")
        if y == "one":
            # count >= 1 <=> count > 0 ; 1 > count <=> count == 0 ; other comparisons with 1 depend on the number of columns
            if n == "ge" and not flip:
                return x > 0
            if n == "gt" and flip:
                return x == 0
            raise Unknown("count compared with 1")
        if n == "eq":
            return x == y
        if n == "ne":
            return x != y
        l, r = (y, x) if flip else (x, y)
        return l > r if n == "gt" else l >= r

    # ------------------------------------------------------------------ whole-matrix tests made on the path
    def feasible(self):
        """False when a test on the whole matrix assumed on this path excludes rows of this world; facts that read the values of the
        response and are not understood raise Unknown"""
        for key, val in self.P.fact_order:
            if not reads_values(key, self.R):
                continue
            if key[0] == "op" and key[1] == "is" and len(key) == 4 and NONE in key[2:]:
                continue                                    # `m is None` asks whether the object exists, not what it holds
            x = key[1] if key[0] == "truth" else None
            if key[0] == "op" and key[1] == "gt" and len(key) == 4 and key[3] in (("c", 0), ("c", 0.0)):
                x = key[2]                                  # count > 0
            elif key[0] == "op" and key[1] == "eq" and len(key) == 4 and key[2] in (("c", 0), ("c", 0.0)):
                x, val = key[3], not val                    # count == 0
            elif key[0] == "op" and key[1] == "ge" and len(key) == 4 and key[3] == ("c", 1):
                x = key[2]                                  # count >= 1
            if x is not None and x[0] == "attr" and x[2] == "size" and x[1][0] == "call" and x[1][1] in ("np.flatnonzero",):
                x = ("call", "np.any", x[1][2], ())
            if x is not None and x[0] == "attr" and x[2] == "size" and x[1][0] == "idx" and x[1][2] == ("c", 0) and x[1][1][0] == "call" \
                    and x[1][1][1] == ".nonzero" and len(x[1][1][2]) == 1:
                x = ("call", "np.any", x[1][1][2], ())      # mask.nonzero()[0].size
            if x is not None and x[0] == "call" and x[1] in (".any", "np.any", ".all", "np.all", ".sum", "np.sum", "np.count_nonzero") and x[2] \
                    and self._axis(x) == "none":
                anyq = not x[1].endswith("all")
                try:
                    here = [self.mask(x[2][0], INF)]
                except Unknown:
                    e = self.elem(x[2][0], INF)
                    here = [e[c] for c in CLASSES[self.w]]
                if anyq and val is False and any(here):
                    return False            # "no row / element satisfies m" but this row does
                if not anyq and val is True and not all(here):
                    return False
                continue
            raise Unknown(f"test on the response `{show(self.P.norm(key))[:100]}`")
        return True

    # ------------------------------------------------------------------ row values
    def ev(self, t, limit=INF):
        if t == self.R:
            return ("R",)
        k = t[0]
        if k == "c" and isinstance(t[1], (int, float)) and not isinstance(t[1], bool):
            return NANV if t[1] != t[1] else ("const", t[1])
        if is_nan_term(t):
            return NANV
        if k == "op" and t[1] == "neg" and len(t) == 3:
            v = self.ev(t[2], limit)
            if v == NANV:
                return v
            if v[0] == "const":
                return ("const", -v[1])
            raise Unknown("negated value")
        if k == "ref":
            return self._ref(t, limit)
        if k == "call":
            v = self._each(self.calls, t, limit, lambda q: self._call(t, q))
            return self._replay(v, t, limit)
        if k in ("idx", "ld"):
            v = self._each(self.loads, t, limit, lambda q: self._idx(t, q))
            return self._replay(v, t, limit)
        if k == "attr" and t[2] == "T":
            return self._table_T(t[1], limit)
        raise Unknown(f"value `{show(self.P.norm(t))[:100]}`")

    def _ref(self, t, limit):
        o = self.P.obj(t)
        org = o.origin
        if org[0] == "call" and org[1] in COPIES and org[2] and all(k in ("dtype", "copy", "order") for k, _ in org[3]):
            if any(k == "dtype" and v not in FLOATS for k, v in org[3]):
                raise Unknown("copy with another dtype")
            v = self.ev(org[2][0], limit)
        elif org[0] == "call" and org[1] in ("np.full", "np.full_like") and len(org[2]) >= 2:
            v = self.ev(org[2][1], limit)
            if v[0] != "const":
                raise Unknown("np.full of a non-constant")
        elif org[0] == "call" and org[1] in ("np.zeros", "np.zeros_like", "np.ones", "np.ones_like"):
            v = ("const", 0.0 if "zeros" in org[1] else 1.0)
        else:
            raise Unknown(f"object `{show(self.P.norm(t))[:100]}`")
        return self._replay(v, t, limit)

    def _replay(self, v, target, limit):
        """v after the stores made into `target` before `limit`"""
        for e in self.stores.get(target, ()):
            if e.seq >= limit:
                continue
            if e.aug or e.loop:
                raise Unknown("in-place operator or store in a loop on a row-aligned value")
            i = e.index
            col = None
            if i[0] == "tup" and len(i) == 3:
                if i[2] == FULL or i[2] == ("c", Ellipsis):
                    i = i[1]
                elif is_const(i[2]) and isinstance(i[2][1], int) and not isinstance(i[2][1], bool) and v[0] == "cols" and -2 <= i[2][1] < 2:
                    i, col = i[1], i[2][1] % 2
                else:
                    raise Unknown(f"store index `{show(self.P.norm(e.index))[:80]}`")
            elif i[0] == "tup" and len(i) == 2:
                i = i[1]
            if i[0] == "idx" and i[2] in (("c", 0), ("c", -1)) and i[1][0] == "call" and i[1][1] == ".nonzero" and len(i[1][2]) == 1:
                i = i[1][2][0]              # rows given as mask.nonzero()[0]
            elif i[0] == "call" and i[1] == ".nonzero" and len(i[2]) == 1:
                i = i[2][0]                 # a 1-D mask given as its nonzero() tuple
            if i == FULL:
                hit = True
            else:
                hit = self.mask(i, e.seq)
            if not hit:
                continue
            nv = self.ev(e.value, e.seq)
            if nv[0] not in ("const", "bad"):
                raise Unknown("row-aligned value stored under a mask")
            if i != FULL:
                self.hits.append((show(self.P.norm(i)), show(self.P.norm(e.value))))
            if v[0] == "cols":
                v = ("cols",) + tuple(nv if col in (None, c) else v[1 + c] for c in (0, 1))
            else:
                v = nv
        return v

    def _pair(self, c):
        a = c[2][0] if c[2] else None
        if a is not None and a[0] in ("tup", "lst") and len(a) == 3:
            return a[1], a[2]
        raise Unknown(f"{c[1]} of something that is not a pair")

    def _cols(self, a, b, limit):
        return ("cols", self.ev(a, limit), self.ev(b, limit))

    def _table_T(self, c, limit):
        if c[0] == "ref":
            c = self.P.obj(c).origin
        if c[0] == "call" and c[1] in ("np.vstack", "np.array", "np.row_stack", "np.stack", "np.asarray") and len(c[2]) == 1 and \
                (not c[3] or (c[1] == "np.stack" and c[3] == (("axis", ("c", 0)),))):
            return self._cols(*self._pair(c), limit)
        raise Unknown("transposed value")

    def _call(self, t, q):
        n, args, kws = t[1], t[2], t[3]
        if n in PRESERVE and len(args) == 1 and all(k == "dtype" and v in FLOATS for k, v in kws):
            return self.ev(args[0], q)
        if n == ".astype" and len(args) == 2 and args[1] in FLOATS and all(k == "copy" for k, _ in kws):
            return self.ev(args[0], q)
        if n == "float" and len(args) == 1 and args[0] == ("c", "nan"):
            return NANV
        if n == "np.where" and len(args) == 3 and not kws:
            hit = self.mask(args[0], q)
            v = self.ev(args[1] if hit else args[2], q)
            if hit and not self._is_same(args[1], args[2], q):
                self.hits.append((show(self.P.norm(self._unbroadcast(args[0]))), show(self.P.norm(args[1]))))
            return v
        if n in KINDS and args:
            kind, aware = KINDS[n]
            ax = self._axis(t)
            src = self.ev(args[0], q)
            if src == ("R",):
                if ax not in (1, -1):
                    return ("bad", f"{n} is not taken along the row (axis={ax})")
                if not aware and self.w != NUM:
                    return ("bad", f"{n} is not NaN-aware: on a row with a NaN it is the position of the first NaN")
                return ("pos", kind)
            if src[0] == "const":
                return ("bad", f"position of the {kind} of a row that was replaced by {src[1]}")
            if src[0] == "bad":
                return src
            raise Unknown(f"{n} of {src}")
        if n in VALS and args:
            kind, aware = VALS[n]
            ax = self._axis(t)
            src = self.ev(args[0], q)
            if src == ("R",):
                if ax not in (1, -1):
                    return ("bad", f"{n} is not taken along the row (axis={ax})")
                if not aware and self.w != NUM:
                    return NANV                 # not NaN-aware: a row with a NaN gives NaN
                return ("val", kind)
            if src[0] in ("const", "bad"):
                return src
            raise Unknown(f"{n} of {src}")
        if n in ("np.take", ".take") and len(args) == 2 and all(k_ == "axis" and v_ in (NONE, ("c", 0)) for k_, v_ in kws) and \
                (args[0] == self.X or self.stores.get(args[0]) is None and args[0][0] == "call" and args[0][1] in PRESERVE and args[0][2][:1] == (self.X,)):
            return self._idx(("idx", self.X, args[1]), q)           # x is 1-D: np.take(x, p) is x[p]
        if n == "np.column_stack" and len(args) == 1 and not kws:
            return self._cols(*self._pair(t), q)
        if n == "np.stack" and (args[1:] in ((("c", 1),), (("c", -1),)) or kws in ((("axis", ("c", 1)),), (("axis", ("c", -1)),))):
            return self._cols(*self._pair(t), q)
        if n == "np.take_along_axis" and len(args) + len(kws) == 3:
            ax = (args[2:] or (dict(kws).get("axis"),))[0]
            if ax in (("c", 1), ("c", -1)) and len(args) >= 2:
                return self._at_pos(self.ev(args[0], q), self.ev(self._unbroadcast(args[1]), q))
        if n in (".ravel", "np.ravel", ".squeeze", "np.squeeze", ".flatten") and args and args[0][0] == "call" and args[0][1] == "np.take_along_axis":
            return self.ev(args[0], q)
        raise Unknown(f"call `{show(self.P.norm(t))[:100]}`")

    def _is_same(self, a, b, q):
        try:
            return self.ev(a, q) == self.ev(b, q)
        except Unknown:
            return False

    def _at_pos(self, A, p):
        """row value A read at position p"""
        if A[0] in ("const", "bad"):
            return A
        if A == ("R",):
            if p[0] == "pos":
                return ("val", p[1])
            if p[0] == "bad":
                return p
            if p[0] == "const":
                return ("bad", f"the row read at the fixed position {p[1]}")
        raise Unknown(f"{A} at {p}")

    def _idx(self, t, q):
        b, i = t[1], t[2]
        if b == ("g", "np.c_") and i[0] == "tup" and len(i) == 3:
            return self._cols(i[1], i[2], q)
        if i[0] == "tup" and len(i) == 3:
            rows, p = i[1], i[2]
            if rows == FULL and is_const(p) and isinstance(p[1], int) and not isinstance(p[1], bool):
                T = self.ev(b, q)
                if T[0] == "cols" and -2 <= p[1] < 2:
                    return T[1 + p[1] % 2]
                if b[0] == "call" and b[1] == "np.take_along_axis" and p[1] == 0:
                    return T
                raise Unknown("column of something that is not a two-column table")
            arange = lambda t_: (t_[0] == "call" and t_[1] in ("np.arange", "range") and len(t_[2]) == 1 and not t_[3]) or \
                (t_[0] == "idx" and t_[1] == ("g", "np.r_"))  # noqa
            if arange(rows):
                return self._at_pos(self.ev(b, q), self.ev(p, q))
            if arange(p) and self.ev(b, q) == ("R",) and self.ev(rows, q)[0] in ("pos", "bad"):
                return ("bad", "row and column index exchanged: element (position, row number) of the matrix")
            raise Unknown(f"index `{show(self.P.norm(i))[:80]}`")
        if i[0] == "tup" and len(i) == 2:
            i = i[1]
        if i[0] in ("call", "ref", "idx", "ld", "op"):
            # x[position]
            A = self.ev(b, q) if b != self.X else ("X",)
            if b[0] == "call" and b[1] in PRESERVE and b[2] and b[2][0] == self.X:
                A = ("X",)
            if A == ("X",):
                p = self.ev(i, q)
                if p[0] == "pos":
                    return ("x", p[1])
                if p[0] == "bad":
                    return p
                if p[0] == "const":
                    return ("bad", f"x at the fixed position {p[1]}")
                raise Unknown(f"x at {p}")
        raise Unknown(f"subscript `{show(self.P.norm(t))[:100]}`")

    def table(self, t):
        """the returned table: ('cols', a, b)"""
        v = self.ev(t, INF)
        if v[0] != "cols":
            raise Unknown(f"not a two-column table: {v}")
        return v
