"""Value-level evaluation of `srs.srs_frf` for the C03 rule on the FRF-based spectrum (pass 3).

`srs_frf` is evaluated on symbols by `c03_sem.Ev3` once per *regime* of its options (getresp, scale_by_Q_only, srs_frq given / None,
return_srs_frq None / True / False, several FRF lines / one) and per *world* of the oscillators:

  * world 'elastic': every oscillator frequency is large (-> infinity), world 'rigid': every one is small (-> 0+).  In such a uniform world a
    mask over the oscillators (`ks < 0.005`, `~m`, `np.logical_not(m)`) has one truth value - the sign of the leading term of the compared
    difference in the oscillator frequency, all other atoms being positive quantities - and `np.any(m)` / `np.all(m)` / `m.any()` have that of m.
    `X[m]` with m true is X, `A[m] = v` with m true covers the generic row, `np.where(m, x, y)` is x or y.  Nothing numeric is evaluated.
  * the interpolation of the FRF onto the analysis grid - `interp1d(xp, yp, ...)(x)`, through a local or directly, or `np.interp(x, xp, yp)` -
    is the one value interp(x, xp, yp);
  * `abs(v)` of a value that is non-negative by construction (an abs, a product / sum / interpolation of such) is v itself.

The rules compare the values that reach the returned spectrum, the response dictionary and the return tuple with the documented closed forms."""
from __future__ import annotations

import ast

from . import e2_formula as F
from .core import AnchorError, Unsupported
from .e1_srcmodel import dotted
from .e2_eval import DictValue, is_unknown, need
from .sem import unfn
from . import c03_sem as X
from .c03_sem import S, TRUE, FALSE, NONE, Sem3, explore, str_of, sym_of

SRS = "pyyeti/srs.py"
PARAMS = ("frf", "frf_frq", "srs_frq", "Q", "getresp", "return_srs_frq", "scale_by_Q_only")


def plain(v):
    return v is not None and not is_unknown(v) and not isinstance(v, (tuple, DictValue))


# ---------------------------------------------------------------------------------------------------------------- rewriting
def rewrite(r, f):
    """the formula r with every opaque application rebuilt bottom-up: f(name, [rewritten arguments]) -> replacement value or None (keep)"""
    cache = {}

    def atom(a):
        if a in cache:
            return cache[a]
        d = F.atom_desc(a)
        if d[0] == "fn":
            args = []
            for k in d[2]:
                args.append(k if isinstance(k, str) else rat(F.Rat(F._poly_from_key(k[1]), F._poly_from_key(k[2]))))
            out = f(d[1], args)
            if out is None:
                out = F.fn(d[1], *args)
        elif d[0] in ("exp", "sin", "cos", "sqrt"):
            arg = poly(F._poly_from_key(d[1]))
            out = f(d[0], [arg]) if d[0] == "sqrt" else None
            if out is None:
                out = {"exp": F.exp, "sin": F.sin, "cos": F.cos, "sqrt": F.sqrt}[d[0]](arg)
        else:
            out = F.Rat(F.Poly.atom(a))
        cache[a] = out
        return out

    def poly(p):
        tot = F.const(0)
        for m, c in p.t.items():
            term = F.const(c)
            for a, e in m:
                term = term * (atom(a) ** e)
            tot = tot + term
        return tot

    def rat(v):
        if not (v.n.atoms() | v.d.atoms()):
            return v
        return poly(v.n) / poly(v.d)

    return rat(r)


# ---------------------------------------------------------------------------------------------------------------- non-negative values
def nonneg(v):
    """the value is >= 0 whatever its symbols stand for: built from constants >= 0, abs(..), sqrt(..), even powers, sums and products of such,
    quotients by such, a linear interpolation / selection / reduction of such"""
    if not plain(v):
        return False
    return _nn_poly(v.n) and _nn_poly(v.d)


def _nn_atom(a):
    d = F.atom_desc(a)
    if d[0] == "sqrt":
        return True
    if d[0] == "s":
        return d[1] == "pi"
    if d[0] == "fn":
        name = d[1]
        args = [k if isinstance(k, str) else F.Rat(F._poly_from_key(k[1]), F._poly_from_key(k[2])) for k in d[2]]
        if name == "abs":
            return True
        if name == "interp" and len(args) == 3:
            return nonneg(args[2])                     # fill values outside xp: an end value of yp, or the 0 srs_frf documents nothing else for
        if name in ("idx", "sel") and args and not isinstance(args[0], str):
            return nonneg(args[0])
        if name in ("red:max", "red:min", "red:mean", "red:sum") and args and not isinstance(args[0], str):
            return nonneg(args[0])
    return False


def _nn_poly(p):
    for m, c in p.t.items():
        if c < 0:
            return False
        for a, e in m:
            if e % 2 and not _nn_atom(a):
                return False
    return True


# ---------------------------------------------------------------------------------------------------------------- uniform worlds
POSITIVE = {"pi", "Q", "frf_frq", "srs_frq"}


def _sign_poly(p, aid, high):
    """sign of the polynomial p as the atom aid -> +infinity (high) or -> 0+ (not high), every other atom a positive quantity; None when not decided"""
    if p.is_zero():
        return 0
    best, signs = None, set()
    for m, c in p.t.items():
        deg = 0
        for a, e in m:
            if a == aid:
                deg = e
                continue
            d = F.atom_desc(a)
            if F._atom_depends(a, aid):
                return None
            if not (d[0] == "sqrt" or (d[0] == "s" and d[1] in POSITIVE)):
                return None
        if best is None or (deg > best if high else deg < best):
            best, signs = deg, {c > 0}
        elif deg == best:
            signs.add(c > 0)
    if len(signs) != 1:
        return None
    return 1 if signs.pop() else -1


def sign_in(v, world, var="srs_frq"):
    """sign (+1 / -1 / 0) of the value when every oscillator frequency `var` is large (world 'elastic') or small (world 'rigid'); None when undecided"""
    if not plain(v):
        return None
    aid = F._intern(("s", var))
    high = world.split(":")[-1] == "elastic"
    sn, sd = _sign_poly(v.n, aid, high), _sign_poly(v.d, aid, high)
    if sn is None or sd is None or sd == 0:
        return None
    return sn * sd


_NEG = ("not", "invert", "call:np.logical_not", "call:numpy.logical_not", "call:np.invert", "call:np.bitwise_not")
_ANYS = ("call:np.any", "call:numpy.any", "call:any", "call:.any")
_ALLS = ("call:np.all", "call:numpy.all", "call:all", "call:.all")
_SAME = ("call:bool", "call:np.asarray", "call:.nonzero", "where", "call:np.flatnonzero")
_COUNTS = ("call:np.count_nonzero", "red:sum", "call:np.sum", "call:.sum")


def _world(world):
    """(kind of the oscillator looked at, kinds present in the population): 'elastic' / 'rigid' are uniform populations, 'mixed:elastic' / 'mixed:rigid'
    one oscillator of that kind in a population that has both"""
    if world.startswith("mixed:"):
        return world[6:], ("elastic", "rigid")
    return world, (world,)


def wtruth(v, world):
    """truth, in a world of the oscillators, of a mask over them *at the oscillator looked at* (`ks < 0.005`, `~m`, `m1 & m2`) and of a test on such a
    mask over the whole population (`np.any(m)`, `m.all()`, `np.count_nonzero(m) > 0`); None when this is not such a value or it is not decided"""
    if world is None or not plain(v):
        return None
    row, pop = _world(world)
    n = sym_of(v)
    if n == "True":
        return True
    if n == "False":
        return False
    u = unfn(v)
    if u is None:
        return None
    name, args = u
    if any(isinstance(a, str) for a in args):
        return None
    name = {"call:np.less": "cmp:Lt", "call:np.less_equal": "cmp:LtE", "call:np.greater": "cmp:Gt", "call:np.greater_equal": "cmp:GtE"}.get(name, name)
    if name.startswith("cmp:") and len(args) == 2 and name[4:] in ("Lt", "LtE", "Gt", "GtE"):
        s = sign_in(worldify(args[0] - args[1], None), row)
        if s is not None and s != 0:
            return (s < 0) if name[4:] in ("Lt", "LtE") else (s > 0)
    if name in _NEG and len(args) == 1:
        t = wtruth(args[0], world)
        return None if t is None else (not t)
    if name in _SAME and len(args) == 1:
        return wtruth(args[0], world)
    if name in _ANYS + _ALLS and len(args) == 1:
        ts = [wtruth(args[0], r) for r in pop]
        if any(t is None for t in ts):
            return None
        return any(ts) if name in _ANYS else all(ts)
    if name in ("bool:And", "call:np.logical_and", "bool:Or", "call:np.logical_or") and args:
        ts = [wtruth(a, world) for a in args]
        if name in ("bool:And", "call:np.logical_and"):
            if any(t is False for t in ts):
                return False
            return True if all(t is True for t in ts) else None
        if any(t is True for t in ts):
            return True
        return False if all(t is False for t in ts) else None
    if name.startswith("cmp:") and len(args) == 2 and name[4:] in ("Gt", "NotEq", "Eq", "GtE", "Lt"):
        # a count of the selected oscillators compared with 0 / 1: some oscillator is selected
        for cnt, other, flip in ((args[0], args[1], False), (args[1], args[0], True)):
            uc = unfn(cnt)
            if uc and uc[0] in _COUNTS and uc[1] and not isinstance(uc[1][0], str) and other.is_const():
                ts = [wtruth(uc[1][0], r) for r in pop]
                if any(t is None for t in ts):
                    return None
                t = any(ts)
                c = other.const_value()
                op = name[4:]
                if flip:
                    op = {"Gt": "Lt", "Lt": "Gt", "GtE": "LtE"}.get(op, op)
                if c == 0 and op in ("Gt", "NotEq"):
                    return t
                if c == 0 and op == "Eq":
                    return not t
                if c == 1 and op == "GtE":
                    return t
                if c == 1 and op == "Lt":
                    return not t
    return None


def _loop_index(ix, is_object=None):
    """the index consists of full slices and plain symbols that are not None / True / False (loop counters): the generic element along those axes"""
    u = unfn(ix)
    parts = u[1] if (u and u[0] == "tuple") else [ix]
    n = 0
    for p in parts:
        if isinstance(p, str):
            return False
        up = unfn(p)
        if sym_of(p) == "Ellipsis" or (up and up[0] == "slice" and all(sym_of(q) == "None" for q in up[1] if not isinstance(q, str))):
            continue
        k = sym_of(p)
        if k is None or k in ("None", "True", "False") or k.startswith("<") or (is_object is not None and is_object(k)):
            return False
        n += 1
    return n > 0


def worldify(v, world, is_object=None):
    """selections by a mask that is true in the world are the selected array; np.where(m, x, y) is x or y; a freshly zeroed array is 0; the element of a
    *value* (not of an array object that is filled by stores) under a loop counter is the generic element of that value"""
    if not plain(v):
        return v

    def f(name, args):
        if name == "zeros":
            return F.const(0)
        if name == "idx" and len(args) == 2 and not isinstance(args[0], str) and not isinstance(args[1], str) and _loop_index(args[1], is_object) \
                and sym_of(args[0]) is None and not (unfn(args[0]) or ("",))[0] in ("interp", "abs"):
            return args[0]
        if world is None:
            return None
        if name == "sel" and len(args) == 2 and not isinstance(args[0], str) and not isinstance(args[1], str) and wtruth(args[1], world) is True:
            return args[0]
        if name == "idx" and len(args) == 2 and not isinstance(args[0], str) and not isinstance(args[1], str) and wtruth(args[1], world) is True:
            return args[0]
        if name in ("call:np.where", "call:numpy.where") and len(args) == 3 and not any(isinstance(a, str) for a in args):
            t = wtruth(args[0], world)
            if t is not None:
                return args[1] if t else args[2]
        return None
    return rewrite(v, f)


# ---------------------------------------------------------------------------------------------------------------- hooks
def _interp_value(x, xp, yp):
    if need(x).equals(need(xp)):
        return need(yp)                 # evaluated at its own abscissae: the ordinates
    return F.fn("interp", need(x), need(xp), need(yp))


def canon(v):
    """spellings of the modulus: sqrt(real(x)^2 + imag(x)^2), hypot(real(x), imag(x)) -> abs(x); abs(x[i]) -> abs(x)[i]; abs of a non-negative value"""
    if not plain(v):
        return v

    def reim(a, b):
        ua, ub = unfn(a), unfn(b)
        if ua and ub and {ua[0], ub[0]} == {"attr:real", "attr:imag"} and not isinstance(ua[1][0], str) and not isinstance(ub[1][0], str) \
                and ua[1][0].equals(ub[1][0]):
            return ua[1][0]
        return None

    def f(name, args):
        if name == "sqrt" and plain(args[0]) and args[0].d.is_const() and len(args[0].n.t) == 2:
            sq = []
            for m, c in args[0].n.t.items():
                if c / args[0].d.const_value() != 1 or len(m) != 1 or m[0][1] != 2:
                    return None
                sq.append(F.Rat(F.Poly.atom(m[0][0])))
            x = reim(sq[0], sq[1])
            return None if x is None else f("abs", [x]) or F.fn("abs", x)
        if name in ("call:np.hypot", "call:numpy.hypot", "call:math.hypot") and len(args) == 2 and not any(isinstance(a, str) for a in args):
            x = reim(args[0], args[1])
            return None if x is None else f("abs", [x]) or F.fn("abs", x)
        if name == "abs" and len(args) == 1 and not isinstance(args[0], str):
            if nonneg(args[0]):
                return args[0]
            u = unfn(args[0])
            if u and u[0] == "idx" and len(u[1]) == 2 and not isinstance(u[1][0], str) and not isinstance(u[1][1], str):
                return F.fn("idx", f("abs", [u[1][0]]) or F.fn("abs", u[1][0]), u[1][1])
        return None
    return rewrite(v, f)


def frf_hooks(world):
    def call(node, ev):
        d = dotted(node.func) or ""
        last = d.split(".")[-1]
        kw = {k.arg: k.value for k in node.keywords if k.arg is not None}
        if last == "interp1d" and len(node.args) + len(kw) >= 2:
            xs = node.args[0] if node.args else kw.get("x")
            ys = node.args[1] if len(node.args) > 1 else kw.get("y")
            if xs is None or ys is None:
                return NotImplemented
            x, y = ev.ev(xs), ev.ev(ys)
            if not plain(x) or not plain(y):
                return NotImplemented
            return F.fn("interp1d", x, y)
        if last == "interp" and d not in ("np.interp", "numpy.interp") and node.args and isinstance(node.args[0], (ast.Tuple, ast.List)) and len(node.args[0].elts) == 2 \
                and len(node.args) + len(kw) >= 3:
            # pyyeti.psd.interp((xp, yp), x, linear): with linear=True the same linear interpolation (zero outside xp)
            lin = ev.ev(node.args[2] if len(node.args) > 2 else kw.get("linear")) if (len(node.args) > 2 or "linear" in kw) else None
            xs = node.args[1] if len(node.args) > 1 else kw.get("freq")
            if lin is not None and X.truth(lin) is True and xs is not None:
                xp, yp = (ev.ev(e) for e in node.args[0].elts)
                x = ev.ev(xs)
                if plain(x) and plain(xp) and plain(yp):
                    return _interp_value(x, xp, yp)
            return NotImplemented
        if d in ("np.interp", "numpy.interp") and len(node.args) >= 3:
            x, xp, yp = (ev.ev(a) for a in node.args[:3])
            if plain(x) and plain(xp) and plain(yp):
                return _interp_value(x, xp, yp)
            return NotImplemented
        # the interpolant evaluated on the grid: through a local, or directly `interp1d(...)(grid)`
        if len(node.args) == 1 and not node.keywords and (isinstance(node.func, ast.Call) or (isinstance(node.func, ast.Name) and node.func.id in ev.env
                                                                                                 and node.func.id not in ev.buffers)):
            fv = ev.ev(node.func)
            u = unfn(fv) if plain(fv) else None
            if u and u[0] == "interp1d":
                g = ev.ev(node.args[0])
                if plain(g):
                    return _interp_value(g, u[1][0], u[1][1])
        if d in ("abs", "np.abs", "np.absolute", "numpy.abs", "numpy.absolute", "np.fabs") and len(node.args) == 1 and not node.keywords:
            v = ev.ev(node.args[0])
            if not plain(v):
                return NotImplemented
            v = worldify(v, world, ev.is_array_object)
            return v if nonneg(v) else F.fn("abs", v)
        if d in ("np.outer", "numpy.outer", "np.multiply.outer") and len(node.args) == 2 and not node.keywords:
            a, b = ev.ev(node.args[0]), ev.ev(node.args[1])
            if plain(a) and plain(b):
                return a * b
        if last in ("column_stack", "stack", "array", "asarray", "vstack", "hstack", "row_stack") and len(node.args) >= 1 \
                and isinstance(node.args[0], (ast.ListComp, ast.GeneratorExp)) and len(node.args[0].generators) == 1 and not node.args[0].generators[0].ifs:
            # an array assembled from one expression per column / row: the generic element (the counter stays a symbol)
            g = node.args[0].generators[0]
            names = [n.id for n in ast.walk(g.target) if isinstance(n, ast.Name)]
            saved = {n: ev.env.get(n) for n in names}
            it = g.iter
            di = dotted(it.func) if isinstance(it, ast.Call) else None
            try:
                if di == "range" and isinstance(g.target, ast.Name):
                    ev.env[g.target.id] = F.sym(g.target.id)
                elif di == "enumerate" and isinstance(g.target, ast.Tuple) and len(g.target.elts) == 2 and all(isinstance(e, ast.Name) for e in g.target.elts) \
                        and len(it.args) == 1:
                    arr = ev.ev(it.args[0])
                    k = F.sym(g.target.elts[0].id)
                    ev.env[g.target.elts[0].id] = k
                    ev.env[g.target.elts[1].id] = F.fn("idx", need(arr), k) if plain(arr) else F.sym(g.target.elts[1].id)
                elif isinstance(g.target, ast.Name):
                    arr = ev.ev(it)
                    ev.env[g.target.id] = F.fn("idx", need(arr), F.sym("<k:%s>" % g.target.id)) if plain(arr) else F.sym(g.target.id)
                else:
                    return NotImplemented
                v = ev.ev(node.args[0].elt)
            finally:
                for n, o in saved.items():
                    if o is None:
                        ev.env.pop(n, None)
                    else:
                        ev.env[n] = o
            return v if plain(v) else NotImplemented
        if d in ("np.moveaxis", "np.swapaxes", "np.rollaxis", "np.transpose", "np.ascontiguousarray", "np.atleast_2d", "np.atleast_1d", "np.asfortranarray",
                 "numpy.moveaxis", "numpy.swapaxes", "numpy.transpose") and node.args:
            return ev.ev(node.args[0])            # the same elements in another layout
        if d in ("np.ones", "numpy.ones", "np.ones_like", "numpy.ones_like") and node.args:
            return F.const(1)
        if d in ("np.real", "numpy.real", "np.imag", "numpy.imag") and len(node.args) == 1:
            v = ev.ev(node.args[0])
            if plain(v):
                return F.fn("attr:" + last, v)
        return NotImplemented

    def sub(node, ev):
        sl = node.slice
        if isinstance(sl, (ast.Slice, ast.Constant)) or world is None:
            return NotImplemented
        elts = sl.elts if isinstance(sl, ast.Tuple) else [sl]
        first = elts[0]
        if isinstance(first, (ast.Slice, ast.Constant)):
            return NotImplemented
        rest = elts[1:]
        if not all((isinstance(e, ast.Slice) and e.lower is None and e.upper is None and e.step is None) or (isinstance(e, ast.Constant) and e.value is None)
                   or (isinstance(e, ast.Attribute) and dotted(e) in ("np.newaxis", "numpy.newaxis")) or (isinstance(e, ast.Constant) and e.value is Ellipsis)
                   for e in rest):
            return NotImplemented
        if isinstance(node.value, ast.Name) and node.value.id in ev.buffers and ev.bname(node.value.id) == node.value.id and ("<cur:%s>" % node.value.id) not in ev.env \
                and any(c[0] == node.value.id for c in ev.cells):
            return NotImplemented                 # an array that is being filled: its loads stay idx(name, index)
        ix = ev.ev(first)
        if isinstance(ix, tuple) and len(ix) == 1:
            ix = ix[0]                            # (m).nonzero() / np.where(m) / np.nonzero(m): a 1-tuple of index vectors
        if not plain(ix):
            return NotImplemented
        if wtruth(ix, world) is True:
            return ev.ev(node.value)
        return NotImplemented

    return call, sub


def frf_fixed(cfg, params):
    """what a regime fixes: a 2-D FRF array, parameters that are given, several FRF lines or one, and the truth of the oscillator masks in the world"""
    world = cfg.get("world")
    single = cfg.get("single", False)

    def fixed(test, ev):
        v = ev.ev(test)
        if not plain(v):
            return None
        u = unfn(v)
        if u and u[0].startswith("cmp:") and len(u[1]) == 2 and not any(isinstance(z, str) for z in u[1]):
            op = u[0][4:]
            a, b = u[1]
            for x, y, flip in ((a, b, False), (b, a, True)):
                ux = unfn(x)
                if op in ("Eq", "NotEq", "Is", "IsNot"):
                    eq = op in ("Eq", "Is")
                    if ux and ux[0] == "attr:ndim" and y.is_const() and y.const_value() in (1, 2):
                        return (y.const_value() == 2) == eq               # the FRFs form a 2-D array
                    if sym_of(y) == "None" and sym_of(x) in params:
                        return not eq                                    # a parameter of the regime that is given
                if ux and ux[0] == "rows" and y.is_const() and sym_of(ux[1][0]) == "frf_frq":
                    # number of FRF lines: exactly 1, or at least 2
                    c = y.const_value()
                    o = {"Lt": "Gt", "Gt": "Lt", "LtE": "GtE", "GtE": "LtE"}.get(op, op) if flip else op
                    if single:
                        return {"Eq": c == 1, "NotEq": c != 1, "Is": c == 1, "IsNot": c != 1, "Lt": 1 < c, "LtE": 1 <= c, "Gt": 1 > c, "GtE": 1 >= c}.get(o)
                    if o in ("Eq", "Is") and c < 2:
                        return False
                    if o in ("NotEq", "IsNot") and c < 2:
                        return True
                    if o == "Gt" and c <= 1 or o == "GtE" and c <= 2:
                        return True
                    if o == "Lt" and c <= 2 or o == "LtE" and c <= 1:
                        return False
        return wtruth(v, world)
    return fixed


# ---------------------------------------------------------------------------------------------------------------- one evaluation
class Run:
    """one evaluated path of srs_frf in a regime"""

    def __init__(self, S_, cfg, decisions):
        self.S = S_
        self.cfg = cfg
        self.world = cfg.get("world")
        self.decisions = decisions

    def w(self, v):
        return worldify(v, self.world, self.S.ev.is_array_object) if plain(v) else v

    def ret(self):
        return self.S.ret()

    def object_name(self, v):
        n = sym_of(v) if plain(v) else None
        return n if n is not None and self.S.ev.is_array_object(n) else None

    def init_of(self, name):
        return self.S.ev.env.get("<init:%s>" % name)

    def covering(self, ix):
        """an index of a store covers the generic element: True / False / None (not decided)"""
        if ix is None or is_unknown(ix):
            return None
        u = unfn(ix)
        parts = u[1] if (u and u[0] == "tuple") else [ix]
        out = True
        for p in parts:
            if isinstance(p, str):
                return None
            if sym_of(p) == "Ellipsis":
                continue
            up = unfn(p)
            if up and up[0] == "slice" and all(sym_of(q) == "None" for q in up[1] if not isinstance(q, str)):
                continue
            if sym_of(p) is not None and not self.S.ev.is_array_object(sym_of(p)) and sym_of(p) not in ("None", "True", "False"):
                continue                      # a loop counter: the generic iteration
            t = wtruth(p, self.world)
            if t is None:
                return None
            out = out and t
        return out

    def contents(self, name, before=None):
        """value of the generic element of the array object `name` (after the stores that precede the statement `before`, or all of them)"""
        val = None
        init = self.init_of(name)
        if plain(init):
            ui = unfn(init)
            if init.is_zero() or (ui and ui[0] == "zeros"):
                val = F.const(0)
        for nm, ix, v, st in self.S.ev.cells:
            if before is not None and st is before:
                break
            if nm != name:
                continue
            c = self.covering(ix)
            if c is None:
                raise Unsupported(f"a store into `{name}` under an index this rule does not model: {ix!r}"[:300])
            if c:
                if not plain(v):
                    raise Unsupported(f"value stored into `{name}`: {v!r}"[:300])
                if X.depends(v, name):
                    # an update `A[m] += x` / `A[m] = A[m] * y`: the loads of the same array under a covering index are its current generic element
                    if val is None:
                        raise Unsupported(f"`{name}` is updated before anything this rule can follow is stored into it")
                    cur_val = val

                    def f(fname, args, cur_val=cur_val):
                        if fname == "idx" and len(args) == 2 and not isinstance(args[0], str) and not isinstance(args[1], str) and sym_of(args[0]) == name \
                                and self.covering(args[1]):
                            return cur_val
                        return None
                    v = rewrite(v, f).subs({name: cur_val})
                val = v
        if val is None:
            raise Unsupported(f"`{name}` is read before anything this rule can follow is stored into it")
        cur = self.S.ev.env.get("<cur:%s>" % name)
        return val, cur

    def top_objects(self, v):
        """array objects filled by stores that occur as direct terms / factors of the value (not inside an index or an argument)"""
        out = []
        for a in sorted(v.n.atoms() | v.d.atoms()):
            d = F.atom_desc(a)
            if d[0] == "s" and self.S.ev.is_array_object(d[1]) and d[1] not in out:
                out.append(d[1])
        return out

    def resolve_top(self, v, before=None, depth=0):
        """the value with the array objects that occur as direct terms replaced by the value of their generic element (the response array `a`,
        not a mask or an index vector inside a subscript); an object whose stores this rule cannot order stays the symbol it is"""
        if not plain(v) or depth > 6:
            return v
        v = self.w(v)
        for n in self.top_objects(v):
            try:
                if not any(c[0] == n for c in self.S.ev.cells):
                    init = self.init_of(n)
                    ui = unfn(init) if plain(init) else None
                    if plain(init) and not X.depends(init, n) and not (ui and ui[0] in ("zeros", "empty")) and not init.is_zero():
                        v = v.subs({n: self.resolve_top(init, before, depth + 1)})
                        continue
                val, _cur = self.contents(n, before)
            except Unsupported:
                continue
            if X.depends(val, n):
                continue
            v = v.subs({n: self.resolve_top(val, before, depth + 1)})
        return self.w(v)

    def resolve(self, v, before=None, depth=0):
        """the value with every array object that is filled by stores replaced by the value of its generic element"""
        if not plain(v) or depth > 6:
            return v
        v = self.w(v)
        for n in sorted(X.sym_names(v)):
            if not self.S.ev.is_array_object(n):
                continue
            if not any(c[0] == n for c in self.S.ev.cells):
                init = self.init_of(n)
                if plain(init) and not X.depends(init, n):
                    v = v.subs({n: self.resolve(init, before, depth + 1)})
                continue
            val, _cur = self.contents(n, before)
            v = v.subs({n: self.resolve(val, before, depth + 1)})
        return self.w(v)


def frf_runs(ctx, cfg, limit=64):
    """evaluate srs_frf in the regime `cfg` = {getresp, sbq, srs_frq: 'given' | 'none', rsf: None | True | False, single, world}; list of Run"""
    cache = ctx.__dict__.setdefault("_c03_frf_runs", {})
    key = tuple(sorted((k, repr(v)) for k, v in cfg.items()))
    if key in cache:
        return cache[key]
    fn = ctx.src.func(SRS, "srs_frf")
    a = fn.args
    params = [x.arg for x in a.posonlyargs + a.args + a.kwonlyargs]
    for k in PARAMS:
        if k not in params:
            raise AnchorError(f"srs_frf: parameter `{k}` of the documented signature")
    tv = {None: NONE, True: TRUE, False: FALSE}
    env = {"getresp": tv[bool(cfg.get("getresp"))], "scale_by_Q_only": tv[bool(cfg.get("sbq"))], "return_srs_frq": tv[cfg.get("rsf")]}
    if cfg.get("srs_frq") == "none":
        env["srs_frq"] = NONE
    call, sub = frf_hooks(cfg.get("world"))
    out = []
    for dec, S_ in explore(ctx, fn, SRS, fixed=frf_fixed(cfg, set(params)), limit=limit, env=env, hooks=(call,), sub_hooks=(sub,)):
        out.append(Run(S_, cfg, dec))
    cache[key] = out
    return out


# ---------------------------------------------------------------------------------------------------------------- readers
def strip_columns(v):
    """G[:, j] / G[j] / G[..., j] with j a plain symbol (a loop counter) -> (G, [j]); a value that is not such a selection -> (v, [])"""
    u = unfn(v) if plain(v) else None
    if u and u[0] == "idx" and len(u[1]) == 2 and not isinstance(u[1][0], str) and not isinstance(u[1][1], str):
        ui = unfn(u[1][1])
        parts = ui[1] if (ui and ui[0] == "tuple") else [u[1][1]]
        loop = []
        for p in parts:
            if isinstance(p, str):
                return v, []
            up = unfn(p)
            if sym_of(p) == "Ellipsis" or (up and up[0] == "slice" and all(sym_of(q) == "None" for q in up[1] if not isinstance(q, str))):
                continue
            n = sym_of(p)
            if n is None or n in ("None", "True", "False"):
                return v, []
            loop.append(n)
        if loop:
            return u[1][0], loop
    return v, []


def grid_parts(v):
    """the frequency vectors an analysis grid is assembled from: sort / unique / thinning by a selection removed, stacks flattened"""
    out = []

    def walk(x):
        if not plain(x):
            raise Unsupported(f"analysis grid: {x!r}"[:200])
        u = unfn(x)
        if u:
            name, args = u
            if name in ("idx", "sel") and len(args) == 2 and not isinstance(args[0], str):
                ia = args[1]
                if isinstance(ia, str) or not (ia.is_const()):
                    return walk(args[0])
            if name in ("call:np.sort", "call:np.unique", "call:numpy.sort", "call:numpy.unique", "call:sorted", "call:np.asarray", "call:np.array", "call:.sort") \
                    and args and not isinstance(args[0], str):
                return walk(args[0])
            if name in ("hstack", "vstack") and len(args) == 2:
                walk(args[0])
                walk(args[1])
                return
            if name in ("call:np.hstack", "call:np.concatenate", "call:np.union1d", "call:numpy.hstack", "call:numpy.concatenate") and args:
                for z in args:
                    if isinstance(z, str):
                        continue
                    uz = unfn(z)
                    if uz and uz[0] == "tuple":
                        for q in uz[1]:
                            walk(q)
                    elif uz and uz[0].startswith("kw:"):
                        continue
                    else:
                        walk(z)
                return
            if name == "idx" and len(args) == 2 and sym_of(args[0]) in ("np.r_", "numpy.r_") and not isinstance(args[1], str):
                ut = unfn(args[1])
                for q in (ut[1] if ut and ut[0] == "tuple" else [args[1]]):
                    walk(q)
                return
        out.append(x)
    walk(v)
    return out


def interp_of(v):
    """interp(x, xp, yp) -> (x, xp, yp) else None"""
    u = unfn(v) if plain(v) else None
    if u and u[0] == "interp" and len(u[1]) == 3 and not any(isinstance(z, str) for z in u[1]):
        return tuple(u[1])
    return None


def unmodelled(*values):
    """names of operations inside the values that the evaluator kept opaque (calls it does not know, attributes)"""
    out = set()
    for v in values:
        if not plain(v):
            continue
        out |= {n for n in X.fn_names(v) if n.startswith(("call:", "attr:", "apply", "kw:")) and n not in ("attr:real", "attr:imag")}
        if X.uninitialised(v):
            out.add("empty (the contents of a freshly allocated array read as data: the stores that fill it were not followed)")
    return sorted(out)


def abstract(v, *opaque):
    """the value with every occurrence of the given values (the analysis grid, say - whatever it was assembled with) replaced by a plain symbol"""
    if not plain(v):
        return v
    names = ["<G%d>" % k for k in range(len(opaque))]

    def f(name, args):
        me = F.fn(name, *args)
        for nm, o in zip(names, opaque):
            if plain(o) and me.equals(o):
                return F.sym(nm)
        return None
    return rewrite(v, f)


def conj(v):
    return v.subs({"I": -F.I})


def has_I(v):
    return "I" in X.sym_names(v)


def modsq(v):
    """|v|^2 of a value whose atoms other than I are real; abs(z) -> z conj(z)"""
    u = unfn(v)
    if u and u[0] == "abs" and not isinstance(u[1][0], str):
        z = u[1][0]
        return z * conj(z)
    if "abs" in X.fn_names(v) and has_I(v):
        raise Unsupported(f"modulus of {v!r}"[:200])
    if has_I(v):
        return v * conj(v)
    return v * v


def spectrum_value(run):
    """(value stored for the generic element of the returned spectrum, statement that stores it, index value of that store)"""
    ret = run.ret()
    sh = ret[0] if isinstance(ret, tuple) else ret
    if not plain(sh):
        raise Unsupported(f"returned spectrum: {sh!r}"[:200])
    name = run.object_name(sh)
    if name is None:
        return sh, run.S.ret_node(), None
    cells = [c for c in run.S.ev.cells if c[0] == name]
    if not cells:
        init = run.init_of(name)
        if not plain(init):
            raise Unsupported(f"returned spectrum: {init!r}"[:200])
        cur = run.S.ev.env.get("<cur:%s>" % name)
        return (cur.subs({name: init}) if plain(cur) else init), run.S.ret_node(), None
    last = None
    for c in cells:
        cov = run.covering(c[1])
        if cov is None:
            raise Unsupported(f"a store into the returned spectrum under an index this rule does not model: {c[1]!r}"[:300])
        if cov:
            last = c
    if last is None or not plain(last[2]):
        raise Unsupported("no store into the returned spectrum this rule can follow")
    v = last[2]
    cur = run.S.ev.env.get("<cur:%s>" % name)
    if plain(cur):
        v = cur.subs({name: v})
    return v, last[3], last[1]


# ---------------------------------------------------------------------------------------------------------------- the rule
def references():
    """closed forms derived in the checker from the equation of motion the docstring states:  u'' + (wn/Q) u' + wn^2 u = -z'',  x = u + z"""
    Q, g, f0 = F.sym("Q"), F.sym("<grid>"), F.sym("<fn>")
    wn, W = 2 * F.sym("pi") * f0, 2 * F.sym("pi") * g
    den = wn * wn - W * W + F.I * W * wn / Q               # (-W^2 + j W wn / Q + wn^2) U = -Z_acce
    H = W * W / den + 1                                     # X_acce / Z_acce = W^2 / den + 1
    p = g / f0
    T2 = H * conj(H)
    if not H.equals((1 + F.I * p / Q) / (1 - p * p + F.I * p / Q)) or not T2.equals((1 + (p / Q) ** 2) / ((1 - p * p) ** 2 + (p / Q) ** 2)):
        raise Unsupported("checker self-test failed: base-drive transfer function")
    x = F.sym("<x>")
    dT = ((1 + x / (Q * Q)) / ((1 - x) ** 2 + x / (Q * Q))).diff("<x>")
    doc = Q * F.sqrt(F.sqrt(1 + 2 / (Q * Q)) - 1)
    if not dT.subs({"<x>": doc * doc}).is_zero():
        raise Unsupported("checker self-test failed: maximising frequency ratio")
    return {"H": H, "T2": T2, "dT": dT}


def is_peak_ratio(P, ref):
    """P^2 is a stationary point of |H(p)|^2 in p^2 (the only positive one is the maximum the docstring derives)"""
    return plain(P) and not P.is_zero() and ref["dT"].subs({"<x>": P * P}).is_zero()


class Acc:
    """obligations of one regime collected over its evaluated paths (undecided tests are explored both ways, without feasibility reasoning): one
    obligation per statement - discharged when it holds on every path, a violation when it fails on every path, not decided (exit 2) when it fails on
    some explored paths only (the failing path may be infeasible) or when it could not be evaluated on a path"""

    def __init__(self, ctx):
        self.ctx = ctx
        self.items = {}
        self.path = 0
        self.aborted = set()          # paths on which something could not be evaluated: the statements not reached there are not decided

    def next_path(self):
        self.path += 1

    def _put(self, status, text, where, detail, key=None, nontrivial=True):
        it = self.items.setdefault(text, {"by_path": {}, "where": where, "detail": None, "key": key, "nontrivial": nontrivial})
        rank = {"ok": 0, "fail": 1, "error": 2}
        cur = it["by_path"].get(self.path)
        if cur is None or rank[status] > rank[cur]:
            it["by_path"][self.path] = status
        if status != "ok" and (it["detail"] is None or status == "error"):
            it.update(where=where, detail=detail, key=key)
        if status == "error":
            self.aborted.add(self.path)
        it["nontrivial"] = it["nontrivial"] and nontrivial

    def ok(self, text, where=None, detail=None, nontrivial=True):
        self._put("ok", text, where, detail, nontrivial=nontrivial)

    def fail(self, text, where=None, detail=None, key=None):
        self._put("fail", text, where, detail, key)

    def error(self, text, where=None, detail=None):
        self._put("error", text, where, detail)

    def check(self, cond, text, where=None, detail=None, key=None, nontrivial=True):
        if cond:
            self.ok(text, where, detail, nontrivial)
        else:
            self.fail(text, where, detail, key)
        return cond

    def flush(self):
        for text, it in self.items.items():
            st = set(it["by_path"].values())
            if any(p not in it["by_path"] for p in self.aborted):
                st.add("partial")
            if st == {"ok"}:
                self.ctx.ok(text, it["where"], None, nontrivial=it["nontrivial"])
            elif st == {"fail"}:
                self.ctx.fail(text, it["where"], it["detail"], key=it["key"])
            elif "error" in st:
                self.ctx.error(text, it["where"], it["detail"])
            elif st <= {"ok", "partial"}:
                self.ctx.error(text + " - not decided on the explored paths that could not be evaluated", it["where"], None)
            else:
                self.ctx.error(text + " - not decided: fails on some of the explored paths only (their feasibility is not decided)", it["where"], it["detail"])
        self.items = {}


def _decide(ctx, ok, text, where, detail=None, values=(), **kw):
    """ctx.check; a comparison that fails on values containing operations the evaluator kept opaque is not decided (exit 2), never a violation"""
    if not ok:
        un = unmodelled(*values)
        if un:
            ctx.error(text + " - not decided: the value goes through operations this rule does not model", where, un[:4])
            return False
    return ctx.check(ok, text, where, detail, **kw)


def _frf_dependent(run, v, depth=0):
    names = X.sym_names(v)
    if "frf" in names:
        return True
    if depth > 3:
        return False
    for n in names:
        if run.S.ev.is_array_object(n):
            init = run.init_of(n)
            vals = [c[2] for c in run.S.ev.cells if c[0] == n] + ([init] if plain(init) else [])
            if any(plain(z) and not X.depends(z, n) and _frf_dependent(run, z, depth + 1) for z in vals):
                return True
    return False


def _frf_factor(run, Z):
    """the atoms of the response value that carry the FRF data"""
    out = []
    for a in sorted(Z.n.atoms() | Z.d.atoms()):
        av = F.Rat(F.Poly.atom(a))
        if F.atom_desc(a)[0] != "s" and _frf_dependent(run, av):
            out.append(av)
        elif F.atom_desc(a)[0] == "s" and (F.atom_desc(a)[1] == "frf" or (run.S.ev.is_array_object(F.atom_desc(a)[1]) and _frf_dependent(run, av))):
            out.append(av)
    return out


def _leftover(run, v, allowed=()):
    """array objects that are still direct terms of a resolved value because their stores could not be followed, and that have an oscillator axis (or an
    unknown shape): a mask over the oscillators the rule did not understand may be involved, so nothing is decided about the value.  An array without
    an oscillator axis (the FRF placed on the grid) cannot be subject to such a mask."""
    out = []
    nosc = shape_canon(X.rows_of(F.sym("srs_frq")))
    for n in run.top_objects(v):
        init = run.init_of(n)
        u = unfn(init) if plain(init) else None
        sh = unfn(u[1][0]) if (u and u[0] in ("zeros", "empty") and not isinstance(u[1][0], str)) else None
        dims = [z for z in sh[1] if not isinstance(z, str)] if (sh and sh[0] == "tuple") else None
        if dims is None or any(shape_canon(z).equals(nosc) for z in dims):
            out.append(n)
    return out


def _interps_inside(v):
    out = []
    for a in X.all_atoms(v):
        d = F.atom_desc(a)
        if d[0] == "fn" and d[1] == "interp":
            out.append(F.Rat(F.Poly.atom(a)))
    return out


def _expansion(ctx, tag, run, fs, where, grid_expected=None):
    """obligation: the FRF factor is the magnitude |frf|, interpolated from frf_frq onto the analysis grid; returns (grid value, loop symbols) or None"""
    text = f"{tag}: the FRF that enters the response is the magnitude |frf| interpolated from frf_frq onto the analysis grid (absolute value before interpolating)"
    base, loops = strip_columns(canon(fs))
    it = interp_of(base)
    if it is None:
        inner = _interps_inside(base)
        name = run.object_name(base)
        if name is not None and not inner:
            return ("object", name, loops)
        if inner:
            # the interpolated values pass through further operations before they are used: a violation when these are all understood (abs, arithmetic,
            # selections), not decided when something opaque is among them
            _decide(ctx, False, text, where, {"FRF factor": repr(base)[:300], "interpolated": [repr(interp_of(z)[2])[:120] for z in inner]},
                    values=[abstract(base, *[interp_of(z)[0] for z in inner])], key="C03-R9|expansion")
        else:
            _decide(ctx, False, text, where, {"FRF factor": repr(base)[:300]}, values=[base, F.fn("call:?")], key="C03-R9|expansion")
        return None
    x, xp, yp = it
    ypb, yloops = strip_columns(canon(yp))
    ok = xp.equals(F.sym("frf_frq")) and ypb.equals(F.fn("abs", F.sym("frf")))
    if ok and grid_expected is not None:
        ok = x.equals(grid_expected)
    _decide(ctx, ok, text, where, None if ok else {"interpolated": repr(yp)[:200], "from": repr(xp)[:120], "onto": repr(x)[:200]}, values=[yp, xp], key="C03-R9|expansion")
    return ("interp", x, loops + yloops) if ok else None


def _grid(ctx, tag, grid, ref, where):
    text = f"{tag}: the analysis grid contains the FRF frequencies and, for every oscillator, the frequency p_peak * fn at which |H| is largest"
    try:
        parts = grid_parts(grid)
    except Unsupported as e:
        ctx.error(text, where, str(e))
        return
    has_f = any(z.equals(F.sym("frf_frq")) for z in parts)
    ratios = [z / F.sym("srs_frq") for z in parts if X.depends(z, "srs_frq")]
    has_p = any(not X.depends(r, "srs_frq") and is_peak_ratio(r, ref) for r in ratios)
    ok = has_f and has_p
    _decide(ctx, ok, text, where, None if ok else {"grid assembled from": [repr(z)[:200] for z in parts]}, values=parts, key="C03-R9|grid")


def _axis_ok(run, M, axis, grid):
    """the reduction runs over the grid axis: None when the shape of the reduced array is not known to the evaluator"""
    um = unfn(M)
    inner = um[1][0] if (um and um[0] == "abs" and not isinstance(um[1][0], str)) else M
    objs = run.top_objects(inner)
    if len(objs) != 1:
        return None            # the shape of the reduced value is that of one array the response is assembled in, or not known to the rule
    init = run.init_of(objs[0])
    u = unfn(init) if plain(init) else None
    if u and u[0] in ("empty", "zeros") and not isinstance(u[1][0], str):
        sh = unfn(u[1][0])
        if sh and sh[0] == "tuple" and len(sh[1]) >= 2 and plain(axis) and axis.is_const() and axis.const_value().denominator == 1:
            k = int(axis.const_value())
            if -len(sh[1]) <= k < len(sh[1]) and not isinstance(sh[1][k], str):
                return shape_canon(sh[1][k]).equals(shape_canon(X.rows_of(grid)))
    return None


def _response(ctx, tag, run, ref, where, want_resp):
    """the obligations of one (not scale_by_Q_only) regime in one world"""
    world = run.world
    try:
        spec, st, _ix = spectrum_value(run)
    except Unsupported as e:
        ctx.error(f"{tag}: returned spectrum", where, str(e))
        return
    u = unfn(spec)
    if not (u and u[0] in ("red:max", "red:nanmax") and len(u[1]) == 2 and not isinstance(u[1][0], str)):
        _decide(ctx, False, f"{tag}: every spectrum value is the maximum over the analysis grid of the magnitude of the oscillator's response", st,
                repr(spec)[:300], values=[spec, F.fn("call:?")] if unmodelled(spec) or not u else [spec], key="C03-R9|peak")
        return
    M, axis = u[1]
    try:
        Mr = run.resolve_top(unfn(M)[1][0] if (unfn(M) and unfn(M)[0] == "abs") else M, before=st)
        is_abs = bool(unfn(M) and unfn(M)[0] == "abs")
        Zm = Mr                                    # the value whose modulus (or which itself) is maximised
        M2 = (Zm * conj(Zm)) if is_abs else modsq(Mr)
    except Unsupported as e:
        ctx.error(f"{tag}: response whose peak is taken", st, str(e))
        return
    if world.endswith("rigid"):
        fsl = _frf_factor(run, Zm)
        left = _leftover(run, Zm, fsl)
        if left:
            ctx.error(f"{tag}: response whose peak is taken", st, f"stores into {left} under indices this rule does not model")
            return
        ok = M2.is_zero()
        if not ok and len(fsl) == 1:
            g = _expansion_grid(run, fsl[0])
            if g is not None:
                ok = (M2 / (fsl[0] * fsl[0])).equals(ref["T2"].subs({"<grid>": g, "<fn>": F.sym("srs_frq")}))
        _decide(ctx, ok, f"{tag}: for oscillators treated as rigid (frequency -> 0) the response is the limit 0 of H * |frf| (or H * |frf| itself)", st,
                None if ok else {"response": repr(Zm)[:300]}, values=[abstract(Zm, *[_expansion_grid(run, z) for z in fsl], *fsl)], key="C03-R9|rigid")
        return
    fsl = _frf_factor(run, Zm)
    left = _leftover(run, Zm, fsl)
    if left:
        ctx.error(f"{tag}: response whose peak is taken", st, f"stores into {left} under indices this rule does not model")
        return
    if len(fsl) != 1:
        _decide(ctx, False, f"{tag}: the response is the transfer function times one FRF value", st, {"response": repr(Zm)[:300], "FRF factors": [repr(z)[:120] for z in fsl]},
                values=[abstract(Zm, *fsl)], key="C03-R9|H")
        return
    fs = fsl[0]
    exp_ = _expansion(ctx, tag, run, fs, st)
    if exp_ is None:
        return
    if exp_[0] == "object":
        # one FRF line: an array on the grid that holds the FRF at one row
        name = exp_[1]
        vals = [c[2] for c in run.S.ev.cells if c[0] == name]
        ok = bool(vals) and all(plain(z) and strip_columns(canon(z))[0].equals(F.fn("abs", F.sym("frf"))) for z in vals)
        _decide(ctx, ok, f"{tag}: the FRF placed on the analysis grid is the magnitude |frf|", st, None if ok else [repr(z)[:200] for z in vals], values=vals,
                key="C03-R9|expansion")
        init = run.init_of(name)
        ui = unfn(init) if plain(init) else None
        sh = unfn(ui[1][0]) if (ui and ui[0] in ("zeros",) and not isinstance(ui[1][0], str)) else None
        if not (sh and sh[0] == "tuple" and len(sh[1]) == 2):
            ctx.error(f"{tag}: analysis grid of the single-line regime", st, repr(init)[:200])
            return
        ug = unfn(sh[1][0])
        if not (ug and ug[0] == "rows" and not isinstance(ug[1][0], str)):
            ctx.error(f"{tag}: analysis grid of the single-line regime", st, repr(init)[:200])
            return
        grid = ug[1][0]
    else:
        grid = exp_[1]
    if not run.cfg.get("single"):
        _grid(ctx, tag, grid, ref, st)
    Hc = ref["H"].subs({"<grid>": grid, "<fn>": F.sym("srs_frq")})
    T2 = ref["T2"].subs({"<grid>": grid, "<fn>": F.sym("srs_frq")})
    ok = (M2 / (fs * fs)).equals(T2)
    _decide(ctx, ok, f"{tag}: the magnitude whose peak is reported is |H(f / fn)| * |frf|(f),  |H(p)|^2 = (1 + (p/Q)^2) / ((1 - p^2)^2 + (p/Q)^2)", st,
            None if ok else {"|response|^2 / |frf|^2": repr(M2 / (fs * fs))[:400]}, values=[abstract(M2, grid, fs)], key="C03-R9|H")
    ax = None
    try:
        ax = _axis_ok(run, M, axis, grid)
    except Unsupported:
        ax = None
    if ax is None:
        ctx.ok(f"{tag}: axis of the peak reduction (shape of the reduced array not known to the rule)", st, nontrivial=False)
    else:
        ctx.check(ax, f"{tag}: the peak is taken along the analysis-grid axis (one value per oscillator)", st, None if ax else {"axis": repr(axis)}, key="C03-R9|peak")
    if not want_resp:
        return
    ret = run.ret()
    resp = ret[-1] if isinstance(ret, tuple) else None
    try:
        ent = _dict_entries(run, resp)
    except Unsupported as e:
        ctx.error(f"{tag}: resp", run.S.ret_node(), str(e))
        return
    ok = plain(ent.get("freq")) and ent["freq"].equals(grid)
    _decide(ctx, ok, f"{tag}: resp['freq'] is the analysis grid", run.S.ret_node(), None if ok else repr(ent.get("freq"))[:200], values=[ent.get("freq")])
    ok = plain(ent.get("srs_frq")) and ent["srs_frq"].equals(F.sym("srs_frq"))
    _decide(ctx, ok, f"{tag}: resp['srs_frq'] is the vector of oscillator frequencies", run.S.ret_node(), None if ok else repr(ent.get("srs_frq"))[:200], values=[ent.get("srs_frq")])
    fname = run.object_name(ent.get("frfs"))
    if fname is None and not plain(ent.get("frfs")):
        ctx.error(f"{tag}: resp['frfs']", run.S.ret_node(), repr(ent.get("frfs"))[:200])
        return
    try:
        if fname is not None and any(c[0] == fname for c in run.S.ev.cells):
            zv, _c = run.contents(fname)
            Zr = run.resolve_top(zv, before=[c[3] for c in run.S.ev.cells if c[0] == fname][-1])
        else:
            Zr = run.resolve_top(ent["frfs"])
        if _leftover(run, Zr, [fs]):
            raise Unsupported(f"stores into {_leftover(run, Zr, [fs])} under indices this rule does not model")
    except Unsupported as e:
        ctx.error(f"{tag}: resp['frfs']", run.S.ret_node(), str(e))
        return
    ok = (Zr / fs).equals(Hc)
    _decide(ctx, ok, f"{tag}: resp['frfs'] holds the complex response H(f / fn) * |frf|(f),  H(p) = (1 + j p/Q) / (1 - p^2 + j p/Q)", run.S.ret_node(),
            None if ok else {"stored / |frf|": repr(Zr / fs)[:400]}, values=[abstract(Zr, grid, fs)], key="C03-R9|H")
    init = run.init_of(fname) if fname is not None else None
    ui = unfn(init) if plain(init) else None
    sh = unfn(ui[1][0]) if (ui and ui[0] in ("zeros", "empty") and not isinstance(ui[1][0], str)) else None
    if sh and sh[0] == "tuple" and len(sh[1]) == 3:
        want = (X.rows_of(grid), F.fn("dim", F.sym("frf"), F.const(1)), X.rows_of(F.sym("srs_frq")))
        ok = all(shape_canon(a).equals(shape_canon(b)) for a, b in zip(sh[1], want))
        ctx.check(ok, f"{tag}: resp['frfs'] has the shape (len(freq), n, len(srs_frq))", run.S.ret_node(), None if ok else repr(init)[:300], key="C03-R9|resp")
    else:
        ctx.ok(f"{tag}: shape of resp['frfs'] (allocation not known to the rule)", run.S.ret_node(), nontrivial=False)


def shape_canon(v):
    """dim(abs(x), k) = dim(x, k), rows(abs(x)) = rows(x): an element-wise function keeps the shape"""
    def f(name, args):
        if name in ("dim", "rows") and args and not isinstance(args[0], str):
            u = unfn(args[0])
            if u and u[0] in ("abs", "attr:real", "attr:imag") and len(u[1]) == 1 and not isinstance(u[1][0], str):
                return f(name, [u[1][0]] + list(args[1:])) or F.fn(name, u[1][0], *args[1:])
        return None
    return rewrite(v, f) if plain(v) else v


def _expansion_grid(run, fs):
    base, _l = strip_columns(canon(fs))
    it = interp_of(base)
    return it[0] if it else None


def _dict_entries(run, v):
    if isinstance(v, DictValue):
        return dict(v.d)
    name = run.object_name(v) if plain(v) else None
    if name is None:
        raise Unsupported(f"response dictionary: {v!r}"[:200])
    out = {}
    init = run.init_of(name)
    if isinstance(init, DictValue):
        out.update(init.d)
    for nm, ix, val, _st in run.S.ev.cells:
        if nm == name and not is_unknown(ix) and str_of(ix) is not None:
            out[str_of(ix)] = val
    return out


def _osc_expected(sbq, given, ref, v):
    """the documented vector of oscillator frequencies"""
    if given:
        return plain(v) and v.equals(F.sym("srs_frq"))
    if sbq:
        return plain(v) and v.equals(F.sym("frf_frq"))
    if not plain(v) or v.is_zero():
        return False
    P = F.sym("frf_frq") / v
    return not X.depends(P, "frf_frq") and is_peak_ratio(P, ref)


def rule(ctx):
    """srs_frf on values, per regime of its options and per uniform world of the oscillators: what is interpolated onto the analysis grid is |frf|
    (before interpolating); the grid contains frf_frq and p_peak * srs_frq with p_peak the maximiser of |H|; the response is H(f/fn) |frf|(f) with the
    base-drive transfer function, its peak over the grid is reported; resp holds the grid, the complex responses and the oscillator frequencies;
    scale_by_Q_only gives exactly Q |frf| at the oscillator frequencies; srs_frq=None means frf_frq / p_peak (frf_frq with scale_by_Q_only); the
    return tuple follows return_srs_frq and getresp as documented"""
    fn = ctx.src.func(SRS, "srs_frf")
    ref = references()
    # (1) transfer function, expansion, grid, peak, resp
    words = {"elastic": "elastic oscillators", "rigid": "rigid oscillators", "mixed:elastic": "an elastic oscillator among rigid ones",
             "mixed:rigid": "a rigid oscillator among elastic ones"}
    for gr in (True, False):
        for single in (False, True):
            for world in ("elastic", "rigid", "mixed:elastic", "mixed:rigid"):
                if world.endswith("rigid") and (gr or single):
                    continue
                if world == "mixed:elastic" and single:
                    continue
                tag = f"srs_frf (getresp={gr}, {'one FRF line' if single else 'several FRF lines'}, {words[world]})"
                cfg = dict(getresp=gr, sbq=False, srs_frq="given", rsf=None, single=single, world=world)
                try:
                    runs = frf_runs(ctx, cfg)
                except Unsupported as e:
                    ctx.error(f"{tag}: evaluation", fn, str(e))
                    continue
                if not runs:
                    ctx.error(f"{tag}: no path", fn)
                acc = Acc(ctx)
                for run in runs:
                    acc.next_path()
                    _response(acc, tag, run, ref, fn, want_resp=gr)
                acc.flush()
    # (2) scale_by_Q_only: exactly Q * |frf| at the oscillator frequencies
    for given in (True, False):
        tag = f"srs_frf (scale_by_Q_only, srs_frq {'given' if given else 'None'})"
        cfg = dict(getresp=False, sbq=True, srs_frq="given" if given else "none", rsf=True, single=False, world=None)
        try:
            runs = frf_runs(ctx, cfg)
        except Unsupported as e:
            ctx.error(f"{tag}: evaluation", fn, str(e))
            continue
        acc = Acc(ctx)
        for run in runs:
            acc.next_path()
            try:
                spec, st, _ix = spectrum_value(run)
                spec = run.resolve_top(spec, before=st)
            except Unsupported as e:
                acc.error(f"{tag}: returned spectrum", fn, str(e))
                continue
            osc = F.sym("srs_frq") if given else F.sym("frf_frq")
            mag = F.fn("abs", F.sym("frf"))
            want = F.sym("Q") * (mag if not given else F.fn("interp", osc, F.sym("frf_frq"), mag))
            def generic(v, run=run):
                # one column of the FRF array (under a loop counter) stands for the array: the comparison is element by element
                return rewrite(v, lambda name, args: args[0] if (name == "idx" and len(args) == 2 and not isinstance(args[0], str) and not isinstance(args[1], str)
                                                               and _loop_index(args[1], run.S.ev.is_array_object)) else None)
            ok = generic(canon(spec)).equals(want)
            _decide(acc, ok, f"{tag}: the spectrum is exactly Q * |frf| at the oscillator frequencies", st, None if ok else {"returned": repr(spec)[:300], "expected": repr(want)},
                    values=[spec], key="C03-R9|sbq")
        acc.flush()
    # (3) default oscillator frequencies and the return tuple
    for sbq in (False, True):
        for given in (True, False):
            for rsf in (None, True, False):
                for gr in ((False, True) if not sbq else (False,)):
                    tag = f"srs_frf (srs_frq {'given' if given else 'None'}, return_srs_frq={rsf}, getresp={gr}, scale_by_Q_only={sbq})"
                    cfg = dict(getresp=gr, sbq=sbq, srs_frq="given" if given else "none", rsf=rsf, single=False, world="elastic" if given else None)
                    try:
                        runs = frf_runs(ctx, cfg)
                    except Unsupported as e:
                        ctx.error(f"{tag}: evaluation", fn, str(e))
                        continue
                    with_frq = rsf is True or (rsf is None and not given)
                    if not runs:
                        ctx.error(f"{tag}: no path", fn)
                        continue
                    what = "sh" + (", srs_frq" if with_frq else "") + (", resp" if gr else "")
                    frq = "the given srs_frq" if given else ("frf_frq" if sbq else "frf_frq / p_peak, p_peak the maximiser of |H|")
                    text = f"{tag}: returns ({what}) with the oscillator frequencies {frq}"
                    acc = Acc(ctx)
                    for run in runs:
                        acc.next_path()
                        bad = []
                        ret = run.ret()
                        items = list(ret) if isinstance(ret, tuple) else [ret]
                        seen = [z for z in items if plain(z)]
                        if len(items) != 1 + with_frq + gr:
                            bad.append({"returned": repr(ret)[:200], "expected items": 1 + with_frq + gr})
                        else:
                            if with_frq and not _osc_expected(sbq, given, ref, items[1]):
                                bad.append({"second item": repr(items[1])[:200]})
                            if gr and plain(items[-1]) and run.object_name(items[-1]) is None:
                                bad.append({"last item is not the response dictionary": repr(items[-1])[:200]})
                            elif gr:
                                try:
                                    ent = _dict_entries(run, items[-1])
                                    seen += [z for z in ent.values() if plain(z)]
                                    if not {"freq", "frfs", "srs_frq"} <= set(ent):
                                        bad.append({"resp keys": sorted(ent)})
                                    elif not _osc_expected(sbq, given, ref, ent["srs_frq"]):
                                        bad.append({"resp['srs_frq']": repr(ent["srs_frq"])[:200]})
                                except Unsupported as e:
                                    acc.error(text, run.S.ret_node(), str(e))
                                    continue
                        _decide(acc, not bad, text, run.S.ret_node(), bad[:3] or None, values=seen, key="C03-R9|return")
                    acc.flush()


# ---------------------------------------------------------------------------------------------------------------- quadrature weights on a uniform grid
def uniform_weights(S_, w, G):
    """value of the quadrature weight w (an array filled by stores, or an expression) at the first, an interior and the last point of a *uniformly spaced*
    grid G = f0 + h * (0 .. n-1):  {'first' | 'interior' | 'last': value};  `G[a:b]` is, element by element, f0 + h (a + t), `G[c]` is f0 + h c (n + c for
    c < 0), np.diff(G) and np.gradient(G) are h.  Unsupported when a store or an operand is not of these forms."""
    f0, h, n, t = F.sym("<f0>"), F.sym("<h>"), F.sym("<n>"), F.sym("<t>")

    def cint(v):
        if sym_of(v) == "None":
            return None
        if plain(v) and v.is_const() and v.const_value().denominator == 1:
            return int(v.const_value())
        raise Unsupported(f"index {v!r}")

    def at(v):
        def f(name, args):
            if name == "idx" and len(args) == 2 and not isinstance(args[0], str) and not isinstance(args[1], str) and args[0].equals(G):
                u = unfn(args[1])
                if u and u[0] == "slice" and len(u[1]) == 3 and not any(isinstance(z, str) for z in u[1]):
                    a, _b, st = (cint(z) for z in u[1])
                    if st not in (None, 1):
                        raise Unsupported("strided slice of the grid")
                    a = a or 0
                    return f0 + h * ((n + a if a < 0 else F.const(a)) + t)
                if not (args[1].is_const() and args[1].const_value().denominator == 1):
                    return None                      # an element under a loop counter (the oscillator's own frequency): not a neighbour difference
                c = int(args[1].const_value())
                return f0 + h * (n + c if c < 0 else F.const(c))
            if name in ("idx", "sel") and len(args) == 2 and not isinstance(args[0], str) and X.sym_names(args[0]) and X.sym_names(args[0]) <= {"<h>", "<f0>", "<n>"} \
                    and not X.fn_names(args[0]):
                return args[0]                   # an element of a vector that is constant on the uniform grid
            if name in ("call:np.diff", "call:np.gradient", "call:np.ediff1d", "call:numpy.diff", "call:numpy.gradient") and len(args) == 1 and not isinstance(args[0], str) \
                    and args[0].equals(G):
                return h
            return None
        return rewrite(v, f)

    if not plain(w):
        raise Unsupported(f"weight {w!r}"[:200])
    name = sym_of(w)
    if name is None:
        # a quotient whose common factors were not cancelled: the weight array itself when the value equals it
        for c in sorted(X.sym_names(w)):
            if S_.ev.is_array_object(c) and w.equals(F.sym(c)):
                name = c
    if name is None or not S_.ev.is_array_object(name):
        v = at(w)
        return {"first": v, "interior": v, "last": v}
    out = {}
    for nm, ix, val, _st in S_.ev.cells:
        if nm != name:
            continue
        if is_unknown(ix) or not plain(val):
            raise Unsupported(f"store into the weight array: {ix!r}"[:200])
        u = unfn(ix)
        if u and u[0] == "slice" and len(u[1]) == 3 and not any(isinstance(z, str) for z in u[1]):
            a, b, st = (cint(z) for z in u[1])
            if st not in (None, 1) or a not in (None, 0, 1) or b not in (None, -1):
                raise Unsupported(f"store into the weight array under {ix!r}")
            cls = (["first"] if a in (None, 0) else []) + ["interior"] + (["last"] if b is None else [])
            # element t of the stored value belongs to position a + t: the operands are read at their own start + t
            v = at(val)
        else:
            c = cint(ix)
            if c not in (0, -1):
                raise Unsupported(f"store into the weight array under {ix!r}")
            cls = ["first" if c == 0 else "last"]
            v = at(val)
        for k in cls:
            out[k] = v
    missing = [k for k in ("first", "interior", "last") if k not in out]
    if missing:
        raise Unsupported(f"no store into the {missing} element(s) of the weight array found")
    return out
