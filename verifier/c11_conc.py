"""C11 -- concrete values inside the symbolic walk.

The consumption evaluator computes with formulas; a good part of what a reader does before it touches the file is plain Python on values
that are *known* - format texts put together from literals, names of attributes built in a loop, small tables, literal sequences.  This
module gives those a meaning: `conc` turns an evaluator value into the Python value it denotes (text, bytes, integer, None, a sequence or
a table of those) when it is known, `lift` goes back, and `fold_*` perform the operation itself (only a closed list of side-effect-free
operations of `str` / `bytes` / `int` / `tuple` and of builtins) so that the spelling of a constant computation does not matter:
`e + "%d" + "if"[k]`, `f"{e}{n}i"`, `"%s%d" % (e, n)`, `"_Str_" + tag` in a loop over a literal tuple all evaluate to the text they build."""
from __future__ import annotations

import ast
import itertools

from . import e2_formula as F
from .e2_eval import DictValue, Unknown, is_unknown

NOT = object()          # "not a concrete value"


def _sym_name(r):
    if not r.d.is_const() or r.d.const_value() != 1 or len(r.n.t) != 1:
        return None
    (m, c), = r.n.t.items()
    if c != 1 or len(m) != 1 or m[0][1] != 1:
        return None
    d = F.atom_desc(m[0][0])
    return d[1] if d[0] == "s" else None


def conc(v):
    """the Python value an evaluator value denotes, NOT when it is not known"""
    if isinstance(v, tuple):
        xs = [conc(x) for x in v]
        return NOT if any(x is NOT for x in xs) else tuple(xs)
    if isinstance(v, DictValue):
        out = {}
        for k, x in v.d.items():
            c = conc(x)
            if c is NOT:
                return NOT
            out[k] = c
        return out
    if v is None or is_unknown(v):
        return NOT
    if v.is_const():
        c = v.const_value()
        return int(c) if c.denominator == 1 else NOT
    n = _sym_name(v)
    if n is None:
        return NOT
    if n == "None":
        return None
    if n in ("True", "False"):
        return n == "True"
    if n[:1] in ("'", '"') or n[:2] in ("b'", 'b"'):
        try:
            return ast.literal_eval(n)
        except Exception:  # noqa
            return NOT
    return NOT


def lift(x):
    """the evaluator value of a Python value (None when it has none)"""
    if x is None:
        return F.sym("None")
    if isinstance(x, bool):
        return F.const(int(x))
    if isinstance(x, int):
        return F.const(x)
    if isinstance(x, (str, bytes)):
        return F.sym(repr(x))
    if isinstance(x, (tuple, list)):
        out = [lift(e) for e in x]
        return None if any(e is None for e in out) else tuple(out)
    if isinstance(x, dict):
        out = {}
        for k, e in x.items():
            le = lift(e)
            if le is None or not isinstance(k, (int, str, bytes, tuple, bool, type(None))):
                return None
            out[k] = le
        return DictValue(out)
    if isinstance(x, slice):
        parts = [lift(e) for e in (x.start, x.stop, x.step)]
        return F.fn("slice", *parts)
    return None


STR_METHODS = frozenset({
    "upper", "lower", "strip", "lstrip", "rstrip", "replace", "format", "startswith", "endswith", "find", "rfind", "index", "rindex", "split",
    "rsplit", "partition", "rpartition", "join", "isidentifier", "translate", "decode", "encode", "zfill", "ljust", "rjust", "center", "title",
    "capitalize", "isdigit", "isalpha", "isalnum", "isspace", "isupper", "islower", "count", "splitlines", "removeprefix", "removesuffix",
    "swapcase", "casefold", "hex", "expandtabs"})
INT_METHODS = frozenset({"bit_length", "to_bytes"})
SEQ_METHODS = frozenset({"index", "count"})


def _safe_size(x, depth=0):
    if isinstance(x, (str, bytes)):
        return len(x) <= 4096
    if isinstance(x, (tuple, list)):
        return len(x) <= 512 and depth < 6 and all(_safe_size(e, depth + 1) for e in x)
    if isinstance(x, dict):
        return len(x) <= 512 and all(_safe_size(e, depth + 1) for e in x.values())
    if isinstance(x, int):
        return abs(x) < 2 ** 80
    return True


def fold_method(recv, meth, pos, kws):
    """recv.meth(*pos, **kws) on known values -> evaluator value, or None when it is not one of the operations computed here"""
    r = conc(recv)
    if r is NOT:
        return None
    a = [conc(x) for x in pos]
    k = {n: conc(x) for n, x in kws.items()}
    if any(x is NOT for x in a) or any(x is NOT for x in k.values()):
        return None
    ok = (isinstance(r, (str, bytes)) and meth in STR_METHODS) or (isinstance(r, int) and not isinstance(r, bool) and meth in INT_METHODS) \
        or (isinstance(r, tuple) and meth in SEQ_METHODS) or (isinstance(r, dict) and meth in ("get", "keys", "values", "items"))
    if not ok:
        return None
    try:
        out = getattr(r, meth)(*a, **k)
        if meth in ("keys", "values", "items"):
            out = tuple(out)
    except Exception as e:  # noqa
        return Unknown(f"{meth}() raises {type(e).__name__} on the known values")
    return lift(out) if _safe_size(out) else None


def _accumulate(seq, *a):
    return tuple(itertools.accumulate(seq, *a))


BUILTINS = {
    "len": len, "str": str, "int": int, "repr": repr, "bool": bool, "min": min, "max": max, "abs": abs, "ord": ord, "chr": chr, "tuple": tuple,
    "list": tuple, "sorted": lambda *a, **k: tuple(sorted(*a, **k)), "sum": sum, "reversed": lambda s: tuple(reversed(s)), "divmod": divmod,
    "round": round, "all": all, "any": any, "bytes": bytes, "format": format, "hex": hex, "bin": bin, "oct": oct, "ascii": ascii,
    "enumerate": lambda s, start=0: tuple(enumerate(s, start)), "zip": lambda *s: tuple(zip(*s)), "dict": dict,
    "str.maketrans": str.maketrans, "bytes.maketrans": bytes.maketrans, "bytes.fromhex": bytes.fromhex,
    "itertools.accumulate": _accumulate, "it.accumulate": _accumulate, "accumulate": _accumulate,
    "itertools.chain": lambda *s: tuple(itertools.chain(*s)), "it.chain": lambda *s: tuple(itertools.chain(*s)),
    "chain": lambda *s: tuple(itertools.chain(*s)),
    "operator.index": int, "operator.add": lambda a, b: a + b, "operator.mul": lambda a, b: a * b,
}


def fold_builtin(name, pos, kws):
    """name(*pos, **kws) for the side-effect-free builtins on known values -> evaluator value or None"""
    f = BUILTINS.get(name)
    if f is None:
        return None
    a = [conc(x) for x in pos]
    k = {n: conc(x) for n, x in kws.items()}
    if any(x is NOT for x in a) or any(x is NOT for x in k.values()):
        return None
    if name == "range" or not all(_safe_size(x) for x in a):
        return None
    try:
        out = f(*a, **k)
    except Exception as e:  # noqa
        return Unknown(f"{name}() raises {type(e).__name__} on the known values")
    return lift(out) if _safe_size(out) else None


_BINOPS = {
    ast.Add: lambda a, b: a + b, ast.Sub: lambda a, b: a - b, ast.Mult: lambda a, b: a * b, ast.Mod: lambda a, b: a % b,
    ast.FloorDiv: lambda a, b: a // b, ast.BitAnd: lambda a, b: a & b, ast.BitOr: lambda a, b: a | b, ast.BitXor: lambda a, b: a ^ b,
    ast.LShift: lambda a, b: a << b, ast.RShift: lambda a, b: a >> b, ast.Pow: lambda a, b: a ** b,
}


def fold_binop(op, a, b):
    """a <op> b on known values, at least one of which is not a plain number (numbers are the evaluator's own business)"""
    x, y = conc(a), conc(b)
    if x is NOT or y is NOT:
        return None
    if all(isinstance(v, int) for v in (x, y)):
        if isinstance(op, (ast.LShift, ast.RShift, ast.BitAnd, ast.BitOr, ast.BitXor, ast.Pow)) and not (isinstance(op, (ast.LShift, ast.Pow)) and abs(y) > 64):
            try:
                out = _BINOPS[type(op)](x, y)
            except Exception:  # noqa
                return None
            return lift(out) if isinstance(out, int) else None
        return None
    f = _BINOPS.get(type(op))
    if f is None:
        return None
    if isinstance(op, ast.Mult) and isinstance(x, int) and isinstance(y, int):
        return None
    try:
        out = f(x, y)
    except Exception as e:  # noqa
        return Unknown(f"operator raises {type(e).__name__} on the known values")
    return lift(out) if _safe_size(out) else None


_CMPS = {
    ast.Eq: lambda a, b: a == b, ast.NotEq: lambda a, b: a != b, ast.Lt: lambda a, b: a < b, ast.LtE: lambda a, b: a <= b,
    ast.Gt: lambda a, b: a > b, ast.GtE: lambda a, b: a >= b, ast.In: lambda a, b: a in b, ast.NotIn: lambda a, b: a not in b,
    ast.Is: lambda a, b: (a is b) if (a is None or b is None) else (a == b), ast.IsNot: lambda a, b: (a is not b) if (a is None or b is None) else (a != b),
}


def fold_compare(op, a, b):
    x, y = conc(a), conc(b)
    if x is NOT or y is NOT:
        return None
    if isinstance(op, (ast.Is, ast.IsNot)) and x is not None and y is not None and not (isinstance(x, (bool, int)) and isinstance(y, (bool, int))):
        return None             # identity of two objects is not a matter of their values
    try:
        return lift(bool(_CMPS[type(op)](x, y)))
    except Exception:  # noqa
        return None


def fold_subscript(base, index):
    """base[index] with both known (index an integer or a slice of integers / None)"""
    b = conc(base)
    if b is NOT or not isinstance(b, (str, bytes, tuple, dict)):
        return None
    i = index
    if isinstance(i, tuple) and len(i) == 4 and i[0] == "slice":
        parts = [conc(x) if x is not None else None for x in i[1:]]
        if any(p is NOT for p in parts) or isinstance(b, dict):
            return None
        i = slice(*parts)
    else:
        i = conc(i)
        if i is NOT:
            return None
    try:
        out = b[i]
    except Exception as e:  # noqa
        return Unknown(f"subscript raises {type(e).__name__} on the known values")
    return lift(out)


def fold_format(spec_parts):
    """an f-string whose fields are known: parts = [text | (value, conversion, format spec text)] -> text or None"""
    out = []
    for p in spec_parts:
        if isinstance(p, str):
            out.append(p)
            continue
        v, conv, spec = p
        x = conc(v)
        if x is NOT or isinstance(x, dict):
            return None
        try:
            if conv == ord("r"):
                x = repr(x)
            elif conv == ord("s"):
                x = str(x)
            elif conv == ord("a"):
                x = ascii(x)
            out.append(format(x, spec or ""))
        except Exception:  # noqa
            return None
    return "".join(out)
