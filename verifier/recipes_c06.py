"""C06 text-edit recipes (same tuple format as selftest.RECIPES): break recipes for the obligations added when the rules were rewritten on
values (verifier/c06.py, verifier/c06_sem.py), neutral recipes for the kinds of refactoring the rules must stay silent on."""

CB = "pyyeti/cb.py"

RECIPES = [
    # ---- R1 cbtf
    ("C06", "break", ["C06-R1"], CB, "        frc = m @ accel + b @ veloc + k @ displ", "        frc = m @ accel + b @ veloc + k @ accel",
     "all-boundary model: stiffness force from the acceleration"),
    ("C06", "break", ["C06-R1"], CB, "        displ[:, pvnz] = -accel[:, pvnz] / Omega[pvnz] ** 2", "        displ[:, pvnz] = -accel[:, pvnz] / Omega[pvnz]",
     "all-boundary model: displacement integrated once only"),
    ("C06", "break", ["C06-R1"], CB, "        v[:, pvnz] = 1j * a[:, pvnz] / Omega[pvnz]", "        v[:, pvnz] = -1j * a[:, pvnz] / Omega[pvnz]",
     "sign of the boundary velocity term"),
    ("C06", "break", ["C06-R1"], CB, "        displ = np.zeros((lt, lenf), dtype=complex)", "        displ = np.empty((lt, lenf), dtype=complex)",
     "boundary displacement at 0 Hz left uninitialised"),
    ("C06", "break", ["C06-R1"], CB, "        displ[qset] = sol.d", "        displ[qset] = sol.v", "interior displacement taken from the velocity of the solution"),
    ("C06", "break", ["C06-R1"], CB, "            tf = ode.SolveUnc(m[qq], b[qq], k[qq], rb=[])", "            tf = ode.SolveUnc(m[qq], k[qq], b[qq], rb=[])",
     "damping and stiffness swapped in the interior solver"),
    # ---- R2 conversion
    ("C06", "break", ["C06-R2"], CB, "            ref = np.atleast_1d(ref) * lengthconv", "            ref = np.atleast_1d(ref) / lengthconv", "reference location divided by the length factor"),
    ("C06", "break", ["C06-R2"], CB, "    M = ytools.multmd(M, C)\n    if not drm:", "    M = ytools.multmd(C, M)\n    if not drm:", "displacement diagonal applied to the rows"),
    ("C06", "break", ["C06-R2"], CB, "        C[q] = 1 / c\n", "        C[q] = c\n", "modal displacement factor not inverted"),
    ("C06", "break", ["C06-R2"], CB, "    C[b[trn]] = 1 / lengthconv\n", "    C[b[rot]] = 1 / lengthconv\n", "length factor put on the rotations"),
    # ---- R3 cbreorder
    ("C06", "break", ["C06-R3"], CB, "            pv = np.hstack((q, b))", "            pv = np.hstack((b, q))", "`last` ignored"),
    # ---- R4 _solve_eig
    ("C06", "break", ["C06-R4"], CB, '    w, v = sp_la.eigsh(k, p, m, sigma=1.0, mode="normal")', '    w, v = sp_la.eigsh(m, p, k, sigma=1.0, mode="normal")',
     "eigenproblem solved with mass and stiffness swapped"),
    # ---- R5 cbcheck
    ("C06", "break", ["C06-R5"], CB, "    rbe = linalg.solve(ff_info.v[bref, :6].T, ff_info.v[:, :6].T).T", "    rbe = linalg.solve(ff_info.v[bset[:6], :6].T, ff_info.v[:, :6].T).T",
     "rbe normalised at the first six boundary DOF instead of the reference DOF"),
    ("C06", "break", ["C06-R5"], CB, '    _wrtmass(f, mg, "geometry")', '    _wrtmass(f, me, "geometry")', "eigensolution mass reported as geometry"),
    ("C06", "break", ["C06-R5"], CB, '    _wrtinertia(f, I_g, Ip_g, "geometry")', '    _wrtinertia(f, I_s, Ip_g, "geometry")', "stiffness inertia reported as geometry"),
    ("C06", "break", ["C06-R5"], CB, "        rbs=rbs,\n", "        rbs=rbe,\n", "namespace publishes rbe as rbs"),
    ("C06", "break", ["C06-R5"], CB, "        effmass = (m[QB] @ rbg) ** 2", "        effmass = m[QB] @ rbg", "participation not squared"),
    ("C06", "break", ["C06-R5"], CB, "    QB = np.ix_(qset, bset)\n    kqq = k[Q]", "    QB = np.ix_(bset, bset)\n    kqq = k[Q]", "effective mass from the boundary mass partition"),
    # ---- R6 _cbcoordchk
    ("C06", "break", ["C06-R6"], CB, "        rbmodes[o] = -linalg.solve(koo, kor)", "        rbmodes[o] = linalg.solve(koo, kor)", "sign of the constraint modes"),
    ("C06", "break", ["C06-R6"], CB, "        koo = kbb[np.ix_(o, o)]", "        koo = kbb[np.ix_(refpoint, refpoint)]", "constraint modes solved with the reference partition"),
    ("C06", "break", ["C06-R6"], CB, "        rb2[z, :] = 0.0\n        rbmodes = rb2", "        rb2[z, :] = 1.0\n        rbmodes = rb2", "non-zero motion at boundary DOF without stiffness"),
    ("C06", "break", ["C06-R6"], CB, "            refpoint = refpoint_bool[nz].nonzero()[0]", "            refpoint = refpoint - np.count_nonzero(z[: refpoint[0]])",
     "reference DOF shifted by one common count after trimming"),
    ("C06", "break", ["C06-R6"], CB, "            refpoint = refpoint_bool[nz].nonzero()[0]\n", "", "reference DOF not renumbered after trimming"),
    ("C06", "break", ["C06-R6"], CB, "        rbmodes[bset] = rbmodes1", "        rbmodes[:lb_orig] = rbmodes1", "boundary modes put into the first rows instead of the b-set rows"),
    # ---- behaviour-preserving variants
    ("C06", "neutral", [], CB, "        f = b[qb] @ v - m[qb] @ a\n        sol = tf.fsolve(f, freq)", "        load_q = -(m[qb] @ a) + np.dot(b[qb], v)\n        sol = tf.fsolve(load_q, freq)",
     "cbtf: renamed load, commuted sum, np.dot"),
    ("C06", "neutral", [], CB, "    if qset.size == 0:\n        accel = a.copy()", "    if len(qset) == 0:\n        accel = a.copy()", "cbtf: len() instead of .size"),
    ("C06", "neutral", [], CB, "        accel[bset] = a\n        accel[qset] = sol.a\n", "        for rows_, val_ in ((qset, sol.a), (bset, a)):\n            accel[rows_] = val_\n",
     "cbtf: stores through a loop over literal pairs"),
    ("C06", "neutral", [], CB, "    return SimpleNamespace(frc=frc, a=accel, d=displ, v=veloc, freq=freq, f=freq)",
     "    out = SimpleNamespace(frc=frc, a=accel)\n    out.d, out.v = displ, veloc\n    out.freq = out.f = freq\n    return out", "cbtf: namespace filled attribute by attribute"),
    ("C06", "neutral", [], CB, "            pv = np.hstack((b, q))", "            pv = np.concatenate([b, q])", "cbreorder: concatenate of a list"),
    ("C06", "neutral", [], CB, "    M = ytools.multmd(M, C)\n    if not drm:\n        M = ytools.multmd(D, M)\n    return M",
     "    if drm:\n        return M * C\n    return ytools.multmd(D, ytools.multmd(M, C))", "cbconvert: early return, inlined column scaling"),
    ("C06", "neutral", [], CB, "    pv = dof == 1\n    uset.iloc[pv, 1:] *= lengthconv\n    pv = dof == 3\n    uset.iloc[pv, 1:] *= lengthconv",
     "    for row_ in (3, 1):\n        uset.iloc[dof == row_, 1:] *= lengthconv", "uset_convert: loop over the two length rows"),
    ("C06", "neutral", [], CB, "        v2[z_m, :] = psi @ v\n", "        v2[z_m] = np.dot(psi, v)\n", "_solve_eig: row index without the trailing colon, np.dot"),
    ("C06", "neutral", [], CB, '    _wrtmass(f, ms, "stiffness")\n    _wrtmass(f, mg, "geometry")\n    _wrtmass(f, me, "eigensolution")',
     '    for mass_, lab_ in ((ms, "stiffness"), (mg, "geometry"), (me, "eigensolution")):\n        _wrtmass(f, mass_, lab_)', "cbcheck: mass report through a loop"),
    ("C06", "neutral", [], CB, '    _wrtground(f, uset, rbfs, rbs.T @ rbfs, "stiffness")', '    _wrtground(f, uset, rbf=rbfs, rbfsumm=rbs.T @ rbfs, rbtype="stiffness")',
     "cbcheck: keyword arguments"),
    ("C06", "neutral", [], CB, "    rbfs = k @ rbs\n    rbfg = kbb @ rbg\n    rbfe = k @ rbe\n", "    rbfe = k @ rbe\n    k_rbs = k @ rbs\n    rbfs = k_rbs\n    rbfg = k[np.ix_(bset, bset)] @ rbg\n",
     "cbcheck: grounding forces reordered, temporaries, partition inlined"),
    ("C06", "neutral", [], CB, "            refpoint = refpoint_bool[nz].nonzero()[0]", "            refpoint = np.flatnonzero(refpoint_bool[nz])", "_cbcoordchk: flatnonzero"),
    ("C06", "neutral", [], CB, "        kor = kbb[np.ix_(o, refpoint)]\n        koo = kbb[np.ix_(o, o)]\n        rbmodes[o] = -linalg.solve(koo, kor)",
     "        k_or = kbb[np.ix_(o, refpoint)]\n        kor = k_or\n        koo = kbb[np.ix_(o, o)]\n        psi_ = linalg.solve(koo, -k_or)\n        rbmodes[o] = psi_",
     "_cbcoordchk: sign moved into the right-hand side (same numbers; at most the sign of a zero differs)"),
    ("C06", "neutral", [], CB, "    pv = dof == 1\n    uset.iloc[pv, 1:] *= lengthconv\n    pv = dof == 3\n    uset.iloc[pv, 1:] *= lengthconv",
     "    length_rows = (dof == 1) | (dof == 3)\n    uset.iloc[length_rows, 1:] *= lengthconv", "uset_convert: one combined row mask"),
    ("C06", "neutral", [], CB, """    if conv == "m2e":
        lengthconv = 1 / 0.0254
        massconv = 0.005710147154735817
    elif conv == "e2m":
        lengthconv = 0.0254
        massconv = 175.12683524637913
    else:
        lengthconv, massconv = conv
    return lengthconv, massconv""", """    named = (("m2e", 1 / 0.0254, 0.005710147154735817), ("e2m", 0.0254, 175.12683524637913))
    for key, lengthconv, massconv in named:
        if conv == key:
            return lengthconv, massconv
    lengthconv, massconv = conv
    return lengthconv, massconv""", "_get_conv_factors: table of named conversions, early return from a loop"),
    ("C06", "neutral", [], CB, """    C = np.ones(lt)
    D = np.ones(lt)
    trn = ytools.mkpattvec([0, 1, 2], lb, 6).ravel()
    rot = trn + 3
    C[b[trn]] = 1 / lengthconv
    D[b[trn]] = massconv * lengthconv
    D[b[rot]] = massconv * lengthconv**2
    if lq > 0:
        q = locate.flippv(b, lt)
        c = math.sqrt(massconv) * lengthconv
        C[q] = 1 / c
        D[q] = c
    M = ytools.multmd(M, C)
    if not drm:
        M = ytools.multmd(D, M)
    return M""", """    diag = {"disp": np.ones(lt), "force": np.ones(lt)}
    trn = ytools.mkpattvec([0, 1, 2], lb, 6).ravel()
    blocks = [("disp", b[trn], 1 / lengthconv), ("force", b[trn], massconv * lengthconv), ("force", b[trn + 3], massconv * lengthconv**2)]
    if lq > 0:
        q = locate.flippv(b, lt)
        c = math.sqrt(massconv) * lengthconv
        blocks += [("disp", q, 1 / c), ("force", q, c)]
    for which, dof, factor in blocks:
        diag[which][dof] = factor
    result = ytools.multmd(M, diag["disp"])
    return result if drm else ytools.multmd(diag["force"], result)""", "cbconvert: diagonals kept in a dict and filled from a list of blocks"),
    ("C06", "neutral", [], CB, """    if z_m.any():
        v2 = np.empty((z_m.shape[0], v.shape[1]))
        v2[nz_m, :] = v
        v2[z_m, :] = psi @ v
        v = v2

    if z.any():
        v2 = np.empty((z.shape[0], v.shape[1]))
        v2[nz, :] = v
        v2[z, :] = 0.0
        v = v2
""", """    def expand(vecs, kept, removed, fill):
        big = np.empty((removed.shape[0], vecs.shape[1]))
        big[removed, :] = fill
        big[kept, :] = vecs
        return big

    if z_m.any():
        v = expand(v, nz_m, z_m, psi @ v)

    if z.any():
        v = expand(v, nz, z, 0.0)
""", "_solve_eig: expansion through a nested helper"),
    ("C06", "neutral", [], CB, """    _wrtground(f, uset, rbfs, rbs.T @ rbfs, "stiffness")
    _wrtground(f, uset, rbfg, rbg.T @ rbfg, "geometry")
    _wrtground(f, uset, rbfe, rbe.T @ rbfe, "eigensolution")
""", """    for rbtype, (rb, rbf) in {"stiffness": (rbs, rbfs), "geometry": (rbg, rbfg), "eigensolution": (rbe, rbfe)}.items():
        _wrtground(f, uset, rbf, rb.T @ rbf, rbtype)
""", "cbcheck: grounding report through a table keyed by label"),
    ("C06", "neutral", [], CB, """    return SimpleNamespace(
        m=m,
        k=k,
        bset=bset,
        rbs=rbs,
        rbg=rbg,
        rbe=rbe,
        uset=uset,
        effmass=effmass,
        effmass_percent=effmass_percent,
        cb_frq=frq,
    )""", """    out = SimpleNamespace(m=m, k=k, bset=bset, uset=uset)
    for name, modes in zip(("rbs", "rbg", "rbe"), (rbs, rbg, rbe)):
        setattr(out, name, modes)
    out.effmass, out.effmass_percent, out.cb_frq = effmass, effmass_percent, frq
    return out""", "cbcheck: namespace filled with setattr in a loop"),
    # ---- pass 3: spellings of the fresh neutral round (N11 / N12) and of my own refactorings, one replacement each
    ("C06", "neutral", [], CB, "    freq = np.atleast_1d(freq).ravel()\n    Omega", "    freq = np.ravel(np.atleast_1d(freq))\n    Omega", "cbtf: function form of ravel"),
    ("C06", "neutral", [], CB, "            try:\n                tf = save[\"tf\"]\n            except KeyError:\n                pass\n",
     "            from contextlib import suppress\n\n            with suppress(KeyError):\n                tf = save[\"tf\"]\n", "cbtf: contextlib.suppress instead of try / except / pass"),
    ("C06", "neutral", [], CB, "    b = np.atleast_1d(b).ravel()\n    lb = len(b)\n", "    b = np.ravel(np.atleast_1d(b))\n    lb = b.size\n", "cbreorder: .size of the flattened vector"),
    ("C06", "neutral", [], CB, "    trn = ytools.mkpattvec([0, 1, 2], lb, 6).ravel()\n    rot = trn + 3\n    C[b[trn]]",
     "    trn = ytools.mkpattvec(start=[0, 1, 2], stop=lb, inc=6).ravel()\n    rot = trn + 3\n    C[b[trn]]", "cbconvert: keyword arguments of a function of a sibling module"),
    ("C06", "neutral", [], CB, "    c_chk = cbcoordchk(\n        k,\n        bset,\n        bref,\n        uset.index.get_level_values(\"id\")[::6],\n        ttl,\n        True,\n        f,\n        rb_normalizer,\n    )",
     "    c_chk = _cbcoordchk(f, k, bset, bref, uset.index.get_level_values(\"id\")[::6], ttl, True, rb_normalizer)", "cbcheck: the worker called directly instead of the public wrapper"),
    ("C06", "neutral", [], CB, "            M = M[np.ix_(pv, pv)]", "            M = M[pv][:, pv]", "cbreorder: rows then columns (chained indexing) instead of np.ix_"),
    ("C06", "neutral", [], CB, "        f = b[qb] @ v - m[qb] @ a\n", "        part = lambda X: X[qset][:, bset]\n        f = part(b) @ v - part(m) @ a\n", "cbtf: partition through a lambda with chained indexing"),
    ("C06", "neutral", [], CB, "            pv = np.hstack((q, b))", "            pv = np.r_[q, b]", "cbreorder: np.r_ index trick"),
    ("C06", "neutral", [], CB, "    pvnz = Omega != 0.0\n", "    pvnz = np.not_equal(Omega, 0.0)\n", "cbtf: np.not_equal"),
    ("C06", "neutral", [], CB, "    nz = m.any(axis=0) | k.any(axis=0)\n", "    nz = (m != 0).any(axis=0) | np.any(k != 0, axis=0)\n", "_solve_eig: explicit comparison with zero under any()"),
    ("C06", "neutral", [], CB, "        psi = linalg.solve(-k[zz], k[zx])\n", "        psi = linalg.solve(-k[z_m][:, z_m], k[z_m][:, nz_m])\n", "_solve_eig: chained mask indexing for the massless partitions"),
    ("C06", "neutral", [], CB, "    C = np.ones(lt)\n    D = np.ones(lt)\n", "    C = np.full(lt, 1.0)\n    D = C.copy()\n", "cbconvert: np.full and a copy of the sibling diagonal"),
    ("C06", "neutral", [], CB, "    C = np.ones(lt)\n    D = np.ones(lt)\n", "    C = np.ones(lt)\n    D = np.empty(lt)\n", "cbconvert: D is stored on every DOF, so it may start uninitialised"),
    ("C06", "neutral", [], CB, "    pv = dof == 1\n    uset.iloc[pv, 1:] *= lengthconv\n    pv = dof == 3\n", "    pv = np.flatnonzero(dof == 1)\n    uset.iloc[pv, 1:] *= lengthconv\n    pv = np.nonzero(dof == 3)[0]\n",
     "uset_convert: integer row positions instead of row masks"),
    ("C06", "neutral", [], CB, "    qset = locate.flippv(bset, lt)\n\n    pvnz", "    from pyyeti.locate import flippv as _complement\n\n    qset = _complement(bset, lt)\n\n    pvnz", "cbtf: function imported under another name"),
    ("C06", "neutral", [], CB, "        accel = displ.copy()\n        displ[np.ix_(bset, pvnz)]", "        accel = np.zeros_like(displ)\n        displ[np.ix_(bset, pvnz)]", "cbtf: zeros_like instead of a copy of the (still zero) displacement"),
    ("C06", "neutral", [], CB, "        frc = m[bset] @ accel + b[bset] @ veloc + k[bb] @ displ[bset]", "        frc = m[bset] @ accel\n        frc += b[bset] @ veloc\n        frc += k[bb] @ displ[bset]",
     "cbtf: force accumulated with augmented assignments (same association)"),
    # siblings of the round-3 seeds F (order of the boundary set lost), H (sign in the static condensation) and of the new spellings
    ("C06", "break", ["C06-R1"], CB, "    bset = np.atleast_1d(bset).ravel()\n    lt = m.shape[0]", "    bset = np.sort(np.atleast_1d(bset).ravel())\n    lt = m.shape[0]",
     "cbtf: boundary set sorted - row i of `a` is no longer applied to bset[i]"),
    ("C06", "break", ["C06-R1"], CB, "    bset = np.atleast_1d(bset).ravel()\n    lt = m.shape[0]", "    bset = np.unique(bset)\n    lt = m.shape[0]", "cbtf: boundary set made unique (sorted)"),
    ("C06", "break", ["C06-R1"], CB, "        accel[bset] = a\n", "        accel[np.sort(bset)] = a\n", "cbtf: enforced acceleration stored in ascending DOF order"),
    ("C06", "break", ["C06-R3"], CB, "            M = M[np.ix_(pv, pv)]", "            M = M[pv][pv]", "cbreorder: rows permuted twice, columns not at all"),
    ("C06", "break", ["C06-R3"], CB, "            M = M[np.ix_(pv, pv)]", "            M = M[pv][:, np.sort(pv)]", "cbreorder: columns left in ascending order"),
    ("C06", "break", ["C06-R4"], CB, "        k = k[xx] + k[xz] @ psi\n", "        k = k[xx] - k[xz] @ psi\n", "_solve_eig: sign of the condensation term (psi already carries the minus)"),
    ("C06", "break", ["C06-R4"], CB, "        psi = linalg.solve(-k[zz], k[zx])\n", "        psi = linalg.solve(-k[zz], k[xz])\n", "_solve_eig: condensation matrix from the transposed coupling partition"),
    ("C06", "break", ["C06-R4"], CB, "        v2[z_m, :] = psi @ v\n", "        v2[z_m, :] = -psi @ v\n", "_solve_eig: massless rows expanded with the wrong sign"),
    ("C06", "break", ["C06-R2"], CB, "    pv = dof == 3\n", "    pv = np.flatnonzero(dof == 2)\n", "uset_convert: id row scaled instead of the origin row (integer positions)"),
    ("C06", "break", ["C06-R2"], CB, "    C = np.ones(lt)\n", "    C = np.full(lt, 0.0)\n", "cbconvert: displacement diagonal starts as zeros - boundary rotations wiped"),
    ("C06", "break", ["C06-R5"], CB, "    c_chk = cbcoordchk(\n        k,\n        bset,\n        bref,\n", "    c_chk = cbcoordchk(\n        k,\n        bset,\n        bset[:6],\n",
     "cbcheck: stiffness-based modes referenced to the first boundary grid instead of bref"),
    ("C06", "break", ["C06-R7"], CB, "        i = np.argsort(np.argsort(bseto))\n", "        i = np.argsort(bseto)\n", "cbcheck: USET rows gathered with the inverse permutation (finding F17 re-introduced)"),
    ("C06", "neutral", [], CB, "        i = np.argsort(np.argsort(bseto))\n", "        i = np.searchsorted(np.sort(bseto), bseto)\n", "cbcheck: rank of each b-set DOF through searchsorted"),
    # ---- neutral round N14-N16 and the own refactorings O1-O4 of that pass: one replacement each
    ("C06", "neutral", [], CB, "    Omega = 2 * math.pi * freq\n", "    Omega = math.tau * freq\n", "cbtf: math.tau for 2 pi"),
    ("C06", "neutral", [], CB, "        displ[np.ix_(bset, pvnz)] = -a[:, pvnz] / Omega[pvnz] ** 2", "        displ[np.ix_(bset, pvnz)] = np.negative(a[:, pvnz]) / np.square(Omega[pvnz])",
     "cbtf: np.negative / np.square"),
    ("C06", "neutral", [], CB, "        tf = None\n        if isinstance(save, abc.MutableMapping):\n            try:\n                tf = save[\"tf\"]\n            except KeyError:\n                pass\n",
     "        tf = save.get(\"tf\") if isinstance(save, abc.MutableMapping) else None\n", "cbtf: cache read with .get"),
    ("C06", "neutral", [], CB, "            try:\n                tf = save[\"tf\"]\n            except KeyError:\n                pass\n",
     "            if \"tf\" in save:\n                tf = save[\"tf\"]\n", "cbtf: cache read guarded by a membership test"),
    ("C06", "neutral", [], CB, "        tf = None\n        if isinstance(save, abc.MutableMapping):\n            try:\n                tf = save[\"tf\"]\n            except KeyError:\n                pass\n        if tf is None:\n            qq = np.ix_(qset, qset)\n            tf = ode.SolveUnc(m[qq], b[qq], k[qq], rb=[])\n            if isinstance(save, abc.MutableMapping):\n                save[\"tf\"] = tf\n",
     "        cache = save if isinstance(save, abc.MutableMapping) else None\n        tf = None\n        if cache is not None:\n            try:\n                tf = cache[\"tf\"]\n            except LookupError:\n                pass\n        if tf is None:\n            qq = np.ix_(qset, qset)\n            tf = ode.SolveUnc(m[qq], b[qq], k[qq], rb=[])\n            if cache is not None:\n                cache[\"tf\"] = tf\n",
     "cbtf: the cache under another name that is None when there is none; the parent exception class"),
    ("C06", "neutral", [], CB, "    if a.ndim == 1 or (a.ndim == 2 and a.shape[1] == 1):", "    if a.ndim == 1 or a.shape[1:] == (1,):", "cbtf: single-column test on the shape tuple"),
    ("C06", "neutral", [], CB, "    return SimpleNamespace(frc=frc, a=accel, d=displ, v=veloc, freq=freq, f=freq)",
     "    out = SimpleNamespace(frc=frc, a=accel)\n    vars(out).update(d=displ, v=veloc, freq=freq, f=freq)\n    return out", "cbtf: namespace completed through vars()"),
    ("C06", "neutral", [], CB, "    if conv == \"m2e\":\n        lengthconv = 1 / 0.0254\n        massconv = 0.005710147154735817\n    elif conv == \"e2m\":\n        lengthconv = 0.0254\n        massconv = 175.12683524637913\n    else:\n        lengthconv, massconv = conv\n    return lengthconv, massconv",
     "    match conv:\n        case \"m2e\":\n            return 1 / 0.0254, 0.005710147154735817\n        case \"e2m\":\n            return 0.0254, 175.12683524637913\n        case _:\n            lengthconv, massconv = conv\n            return lengthconv, massconv",
     "_get_conv_factors: match statement"),
    ("C06", "break", ["C06-R2"], CB, "    if conv == \"m2e\":\n        lengthconv = 1 / 0.0254\n        massconv = 0.005710147154735817\n    elif conv == \"e2m\":\n        lengthconv = 0.0254\n        massconv = 175.12683524637913\n    else:\n        lengthconv, massconv = conv\n    return lengthconv, massconv",
     "    match conv:\n        case \"m2e\":\n            return 0.0254, 0.005710147154735817\n        case \"e2m\":\n            return 0.0254, 175.12683524637913\n        case _:\n            lengthconv, massconv = conv\n            return lengthconv, massconv",
     "_get_conv_factors: match statement whose m2e arm returns the e2m length factor"),
    ("C06", "neutral", [], CB, "        c = math.sqrt(massconv) * lengthconv\n        C[q] = 1 / c\n        D[q] = c\n", "        C[q], D[q] = (lambda c: (1 / c, c))(math.sqrt(massconv) * lengthconv)\n",
     "cbconvert: a lambda called on the spot"),
    ("C06", "neutral", [], CB, "    rot = trn + 3\n    C[b[trn]]", "    rot = ytools.mkpattvec([3, 4, 5], lb, 6).ravel()\n    C[b[trn]]", "cbconvert: the rotation rows from their own pattern vector"),
    ("C06", "neutral", [], CB, "    D[b[rot]] = massconv * lengthconv**2\n", "    np.put(D, b[rot], massconv * lengthconv**2)\n", "cbconvert: np.put on the one-dimensional diagonal"),
    ("C06", "break", ["C06-R2"], CB, "    D[b[rot]] = massconv * lengthconv**2\n", "    np.put(D, b[rot], massconv * lengthconv)\n", "cbconvert: np.put with the translation factor on the rotations"),
    ("C06", "neutral", [], CB, "    pv = dof == 1\n    uset.iloc[pv, 1:] *= lengthconv\n    pv = dof == 3\n    uset.iloc[pv, 1:] *= lengthconv",
     "    rows = uset.iloc\n    pv = dof == 1\n    rows[pv, 1:] = rows[pv, 1:] * lengthconv\n    pv = dof == 3\n    rows[pv, 1:] = rows[pv, 1:] * lengthconv", "uset_convert: the indexer held in a name"),
    ("C06", "neutral", [], CB, "        psi = linalg.solve(-k[zz], k[zx])\n", "        psi = linalg.solve(np.negative(k[zz]), k[zx])\n", "_solve_eig: np.negative"),
    ("C06", "neutral", [], CB, "    if z_m.any():\n        # there are massless dof with stiffness", "    if not nz_m.all():\n        # there are massless dof with stiffness", "_solve_eig: `not mask.all()` for `(~mask).any()`"),
    ("C06", "neutral", [], CB, "    if z.any():\n        # there are zero cols", "    if np.count_nonzero(z) > 0:\n        # there are zero cols", "_solve_eig: count of the null columns"),
    ("C06", "neutral", [], CB, "    if z.any():\n        v2 = np.empty((z.shape[0], v.shape[1]))", "    if nz.sum() < nz.shape[0]:\n        v2 = np.empty((z.shape[0], v.shape[1]))", "_solve_eig: fewer kept columns than columns"),
    ("C06", "break", ["C06-R4"], CB, "    if z_m.any():\n        # there are massless dof with stiffness", "    if nz_m.all():\n        # there are massless dof with stiffness",
     "_solve_eig: the condensation is run when there is nothing to condense and skipped when there is"),
    ("C06", "neutral", [], CB, "        if z.any():\n            nz2 = np.ix_(nz, nz)\n            kbb = kbb[nz2]", "        if not nz.all():\n            nz2 = np.ix_(nz, nz)\n            kbb = kbb[nz2]", "_cbcoordchk: `not nz.all()`"),
    ("C06", "neutral", [], CB, "    if lb_orig > 6 and z.any():\n        rb2", "    if not (lb_orig <= 6 or np.count_nonzero(z) == 0):\n        rb2", "_cbcoordchk: De Morgan and a count"),
    ("C06", "neutral", [], CB, "    if o.size > 0:\n        kor", "    if len(o) != 0:\n        kor", "_cbcoordchk: len() != 0"),
    ("C06", "neutral", [], CB, "    o = locate.flippv(refpoint, lb)\n    rbmodes = np.zeros((lb, 6))", "    lb = kbb.shape[0]\n    o = locate.flippv(refpoint, lb)\n    rbmodes = np.zeros((lb, 6))",
     "_cbcoordchk: the size of the boundary stiffness re-read from the matrix (equal to len(bset) when nothing was trimmed)"),
    ("C06", "break", ["C06-R6"], CB, "        if z.any():\n            nz2 = np.ix_(nz, nz)\n            kbb = kbb[nz2]", "        if nz.all():\n            nz2 = np.ix_(nz, nz)\n            kbb = kbb[nz2]",
     "_cbcoordchk: trimming skipped exactly when there are null DOF"),
    ("C06", "neutral", [], CB, "    f.write(f\"6x6 mass matrix from {rbtype}-based rb modes:\\n\\n\")", "    print(f\"6x6 mass matrix from {rbtype}-based rb modes:\\n\", file=f)", "_wrtmass: print(..., file=f)"),
    ("C06", "neutral", [], CB, "    _wrtmass(f, ms, \"stiffness\")\n    _wrtmass(f, mg, \"geometry\")\n    _wrtmass(f, me, \"eigensolution\")\n",
     "    def _by_rbtype(*groups):\n        for i, rbtype in enumerate((\"stiffness\", \"geometry\", \"eigensolution\")):\n            yield (rbtype,) + tuple(group[i] for group in groups)\n\n    for rbtype, mass in _by_rbtype((ms, mg, me)):\n        _wrtmass(f, mass, rbtype)\n",
     "cbcheck: a generator pairs each label with its mass"),
    ("C06", "break", ["C06-R5"], CB, "    _wrtmass(f, ms, \"stiffness\")\n    _wrtmass(f, mg, \"geometry\")\n    _wrtmass(f, me, \"eigensolution\")\n",
     "    def _by_rbtype(*groups):\n        for i, rbtype in enumerate((\"stiffness\", \"geometry\", \"eigensolution\")):\n            yield (rbtype,) + tuple(group[i - 1] for group in groups)\n\n    for rbtype, mass in _by_rbtype((ms, mg, me)):\n        _wrtmass(f, mass, rbtype)\n",
     "cbcheck: the generator pairs each label with the mass of its neighbour"),
    ("C06", "neutral", [], CB, "    effmass = pd.DataFrame(effmass, index=frq, columns=cols).rename_axis(\n        \"Frq (Hz)\", axis=\"index\"\n    )\n    effmass_percent = pd.DataFrame(\n        effmass_percent,\n        index=frq,\n        columns=cols,\n    ).rename_axis(\"Frq (Hz)\", axis=\"index\")\n",
     "    def _em_table(values):\n        return pd.DataFrame(values, index=frq, columns=cols).rename_axis(\"Frq (Hz)\", axis=\"index\")\n\n    effmass, effmass_percent = map(_em_table, (effmass, effmass_percent))\n",
     "cbcheck: the two effective-mass tables through map() over a local function"),
    ("C06", "neutral", [], CB, "        effmass_percent = effmass * (100 / np.diag(mg))", "        effmass_percent = effmass * (100 / np.diagonal(mg))", "cbcheck: np.diagonal of the 6x6 mass"),
    ("C06", "break", ["C06-R5"], CB, "        effmass_percent = effmass * (100 / np.diag(mg))", "        effmass_percent = effmass * (100 / np.diagonal(ms))", "cbcheck: percentage of the stiffness-based mass (np.diagonal)"),
    ("C06", "neutral", [], CB, "        displ[np.ix_(bset, pvnz)] = -a[:, pvnz] / Omega[pvnz] ** 2", "        w2 = Omega**2\n        displ[bset[:, None], pvnz] = -a[:, pvnz] / w2[pvnz]",
     "cbtf: squared frequency as a temporary; the open mesh np.ix_ written by hand"),
    ("C06", "break", ["C06-R1"], CB, "        displ[np.ix_(bset, pvnz)] = -a[:, pvnz] / Omega[pvnz] ** 2", "        w2 = Omega**2\n        displ[qset[:, None], pvnz] = -a[:, pvnz] / w2[pvnz]",
     "cbtf: the enforced displacement stored at the interior rows (hand-written open mesh)"),
    ("C06", "neutral", [], CB, "        frc = m[bset] @ accel + b[bset] @ veloc + k[bb] @ displ[bset]", "        frc = np.take(m, bset, axis=0) @ accel + b[bset] @ veloc + k[bb] @ displ[bset]", "cbtf: np.take for the boundary rows"),
    ("C06", "break", ["C06-R1"], CB, "        frc = m[bset] @ accel + b[bset] @ veloc + k[bb] @ displ[bset]", "        frc = np.take(m, bset, axis=1) @ accel + b[bset] @ veloc + k[bb] @ displ[bset]",
     "cbtf: np.take of the boundary columns instead of the rows"),
    ("C06", "neutral", [], CB, "        q = locate.flippv(b, lt)\n        if last:", "        q = np.setdiff1d(np.arange(lt), b)\n        if last:", "cbreorder: the complement through setdiff1d"),
    ("C06", "break", ["C06-R3"], CB, "        q = locate.flippv(b, lt)\n        if last:", "        q = np.setdiff1d(np.arange(lb), b)\n        if last:", "cbreorder: the complement taken in range(len(b))"),
    ("C06", "neutral", [], CB, "        q = locate.flippv(b, lt)\n        c = math.sqrt(massconv) * lengthconv", "        modal = np.ones(lt, dtype=bool)\n        modal[b] = False\n        q = modal.nonzero()[0]\n        c = math.sqrt(massconv) * lengthconv",
     "cbconvert: the complement of the boundary set written out"),
    ("C06", "break", ["C06-R2"], CB, "        q = locate.flippv(b, lt)\n        c = math.sqrt(massconv) * lengthconv", "        modal = np.zeros(lt, dtype=bool)\n        modal[b] = True\n        q = modal.nonzero()[0]\n        c = math.sqrt(massconv) * lengthconv",
     "cbconvert: the modal factors put on the boundary DOF (membership mask instead of its complement)"),
    ("C06", "neutral", [], CB, "        tf = None\n        if isinstance(save, abc.MutableMapping):\n            try:", "        from collections.abc import MutableMapping as _Mapping\n\n        tf = None\n        if isinstance(save, _Mapping):\n            try:",
     "cbtf: the mapping class imported under another name"),
    ("C06", "neutral", [], CB, "        psi = linalg.solve(-k[zz], k[zx])\n", "        import scipy.linalg\n\n        psi = scipy.linalg.solve(-k[zz], k[zx])\n", "_solve_eig: the solver by its full dotted name"),
    ("C06", "neutral", [], CB, "    pvnz = Omega != 0.0\n", "    pvnz = ~(Omega == 0.0)\n", "cbtf: the non-zero mask as the complement of the zero mask"),
    ("C06", "break", ["C06-R1"], CB, "    pvnz = Omega != 0.0\n", "    pvnz = ~(Omega != 0.0)\n", "cbtf: the mask selects the zero frequencies"),
    ("C06", "neutral", [], CB, "    pvnz = Omega != 0.0\n", "    pvnz = freq != 0.0\n", "cbtf: zero test on the frequency itself (2 pi f is zero exactly where f is)"),
    ("C06", "neutral", [], CB, "    pvnz = Omega != 0.0\n", "    pvnz = Omega.astype(bool)\n", "cbtf: truth of the circular frequency as the mask"),
    ("C06", "neutral", [], CB, "    rbe = linalg.solve(ff_info.v[bref, :6].T, ff_info.v[:, :6].T).T\n", "    v6 = ff_info.v[:, :6]\n    rbe = linalg.solve(v6[bref].T, v6.T).T\n",
     "cbcheck: the six lowest modes as a temporary, reference rows selected afterwards"),
    ("C06", "break", ["C06-R5"], CB, "    rbe = linalg.solve(ff_info.v[bref, :6].T, ff_info.v[:, :6].T).T\n", "    v6 = ff_info.v[:, :6]\n    rbe = linalg.solve(v6[bset[:6]].T, v6.T).T\n",
     "cbcheck: rbe normalised at the first six boundary DOF (through the temporary)"),
    ("C06", "neutral", [], CB, "    nz = m.any(axis=0) | k.any(axis=0)\n    z = ~nz\n", "    z = ~m.any(axis=0) & ~k.any(axis=0)\n    nz = ~z\n", "_solve_eig: De Morgan on the column masks"),
    ("C06", "neutral", [], CB, "        nz = kbb.any(axis=0)\n        z = ~nz\n", "        z = (kbb == 0).all(axis=0)\n        nz = ~z\n", "_cbcoordchk: null columns as `all zero` along the axis"),
    ("C06", "neutral", [], CB, "        rb2[nz, :] = rbmodes\n        rb2[z, :] = 0.0\n", "        rb2[np.flatnonzero(nz)] = rbmodes\n        rb2[np.flatnonzero(z)] = 0.0\n", "_cbcoordchk: integer positions of the masks for the scatter"),
    ("C06", "break", ["C06-R6"], CB, "        rb2[nz, :] = rbmodes\n        rb2[z, :] = 0.0\n", "        rb2[np.flatnonzero(z)] = 0.0\n        rb2[np.flatnonzero(z)] = rbmodes\n",
     "_cbcoordchk: the computed modes scattered to the null rows (integer positions)"),
    ("C06", "neutral", [], CB, "            refpoint_bool = np.zeros(lb, dtype=bool)\n            refpoint_bool[refpoint] = True\n", "            refpoint_bool = np.isin(np.arange(lb), refpoint)\n",
     "_cbcoordchk: membership mask of the reference DOF through np.isin"),
    ("C06", "neutral", [], CB, "            M = M[:, pv]\n", "            M = M.T[pv].T\n", "cbreorder: columns selected as rows of the transpose"),
    ("C06", "neutral", [], CB, "            M = M[:, pv]\n", "            M = M[..., pv]\n", "cbreorder: ellipsis for the row axis of a matrix"),
    ("C06", "neutral", [], CB, "            pv = np.hstack((b, q))\n", "            pv = np.append(b, q)\n", "cbreorder: np.append"),
    ("C06", "neutral", [], CB, "            pv = np.hstack((b, q))\n", "            pv = np.array([*b, *q])\n", "cbreorder: starred list display"),
    ("C06", "break", ["C06-R3"], CB, "            pv = np.hstack((b, q))\n", "            pv = np.append(q, b)\n", "cbreorder: np.append in the wrong order"),
    ("C06", "neutral", [], CB, "    qset = locate.flippv(bset, n)\n    nq = len(qset)\n", "    qset = locate.flippv(bset, n)\n    nq = n - len(bset)\n", "cbcheck: number of modal DOF as a difference of sizes"),
    ("C06", "neutral", [], CB, "        bset = np.sort(bseto)\n        if not (bset == bseto).all():", "        bset = np.array(sorted(bseto))\n        if np.any(bset != bseto):", "cbcheck: sorted() and any(!=)"),
    ("C06", "neutral", [], CB, "        i = np.argsort(np.argsort(bseto))\n", "        order = np.argsort(bseto, kind=\"stable\")\n        i = np.empty_like(order)\n        i[order] = np.arange(nb)\n",
     "cbcheck: rank as the inverse permutation, written as a scatter"),
    ("C06", "break", ["C06-R7"], CB, "        i = np.argsort(np.argsort(bseto))\n", "        order = np.argsort(bseto, kind=\"stable\")\n        i = np.empty_like(order)\n        i[np.arange(nb)] = order\n",
     "cbcheck: the scatter that reproduces the sorting permutation itself (finding F17 again)"),
    # per-DOF reading of the cbconvert diagonals (an index into b that is understood and wrong is a violation, one that is not understood is exit 2)
    ("C06", "neutral", [], CB, "    C[b[trn]] = 1 / lengthconv\n", "    for j in range(3):\n        C[b[j::6]] = 1 / lengthconv\n", "cbconvert: one strided store per translation DOF"),
    ("C06", "break", ["C06-R2"], CB, "    rot = trn + 3\n", "    rot = trn - 3\n", "cbconvert: rotation rows three DOF before the translations (the previous grid)"),
    ("C06", "break", ["C06-R2"], CB, "    trn = ytools.mkpattvec([0, 1, 2], lb, 6).ravel()\n", "    trn = ytools.mkpattvec([0, 1, 2], lb, 7).ravel()\n", "cbconvert: seven DOF per grid"),
    ("C06", "break", ["C06-R2"], CB, "    C[b[trn]] = 1 / lengthconv\n", "    for j in range(1, 4):\n        C[b[j::6]] = 1 / lengthconv\n", "cbconvert: strided stores on DOF 2-4"),
    ("C06", "break", ["C06-R3"], CB, "            pv = np.hstack((q, b))\n", "            pv = np.hstack((q, q))\n", "cbreorder: the boundary set lost from the new order"),
    ("C06", "break", ["C06-R1"], CB, "    if qset.size == 0:\n        accel = a.copy()", "    if bset.size == 0:\n        accel = a.copy()", "cbtf: the all-boundary shortcut tested on the wrong set"),
    # ---- R8 cgmass (pass 5): value identity on the rigid mass M = T^T blkdiag(diag(mx, my, mz), J) T
    ("C06", "break", ['C06-R8'], CB, '            [mz * dy**2 + my * dz**2, -mz * dx * dy, -my * dx * dz],\n',
     '            [my * dy**2 + mz * dz**2, -mz * dx * dy, -my * dx * dz],\n',
     'cgmass: Ixx parallel-axis terms with the mass subscript following the distance subscript (seed P, one entry)'),
    ("C06", "break", ['C06-R8'], CB, '            [-my * dx * dz, -mx * dy * dz, mx * dy**2 + my * dx**2],\n',
     '            [-my * dx * dz, -mx * dy * dz, mx * dx**2 + my * dy**2],\n',
     'cgmass: Izz parallel-axis terms with the mass subscript following the distance subscript'),
    ("C06", "break", ['C06-R8'], CB, '            [mz * dy**2 + my * dz**2, -mz * dx * dy, -my * dx * dz],\n',
     '            [mz * dy**2 + my * dz**2, -my * dx * dy, -my * dx * dz],\n',
     'cgmass: product term xy with the mass of the wrong direction (off-diagonal, one triangle)'),
    ("C06", "break", ['C06-R8'], CB, '            [-mz * dx * dy, mz * dx**2 + mx * dz**2, -mx * dy * dz],\n',
     '            [-mz * dx * dy, mz * dx**2 + mx * dz**2, -my * dy * dz],\n',
     'cgmass: product term yz with my instead of mx'),
    ("C06", "break", ['C06-R8'], CB, '            [-my * dx * dz, -mx * dy * dz, mx * dy**2 + my * dx**2],\n',
     '            [-my * dx * dz, mx * dy * dz, mx * dy**2 + my * dx**2],\n',
     'cgmass: sign slip in one product term'),
    ("C06", "break", ['C06-R8'], CB, '            [-mz * dx * dy, mz * dx**2 + mx * dz**2, -mx * dy * dz],\n',
     '            [-mz * dx * dy, mz * dx**2, -mx * dy * dz],\n',
     'cgmass: one parallel-axis term dropped'),
    ("C06", "break", ['C06-R8'], CB, '            [mz * dy**2 + my * dz**2, -mz * dx * dy, -my * dx * dz],\n',
     '            [mz * dy**2 + my * dz, -mz * dx * dy, -my * dx * dz],\n',
     'cgmass: a distance not squared'),
    ("C06", "break", ['C06-R8'], CB, '            [mz * dy**2 + my * dz**2, -mz * dx * dy, -my * dx * dz],\n',
     '            [mz * dy**2 - my * dz**2, -mz * dx * dy, -my * dx * dz],\n',
     'cgmass: sign of one parallel-axis term'),
    ("C06", "break", ['C06-R8'], CB, '        [[0, mx * dz, -mx * dy], [-my * dz, 0, my * dx], [mz * dy, -mz * dx, 0]]\n',
     '        [[0, mx * dz, -mx * dy], [-my * dz, 0, my * dx], [mz * dy, -mz * dz, 0]]\n',
     'cgmass: coupling term with the wrong distance'),
    ("C06", "break", ['C06-R8'], CB, '        [[0, mx * dz, -mx * dy], [-my * dz, 0, my * dx], [mz * dy, -mz * dx, 0]]\n',
     '        [[0, mx * dz, mx * dy], [-my * dz, 0, my * dx], [mz * dy, -mz * dx, 0]]\n',
     'cgmass: sign slip in the coupling matrix'),
    ("C06", "break", ['C06-R8'], CB, '    mcg[3:, :3] -= Md.T\n',
     '    mcg[3:, :3] -= Md\n',
     'cgmass: lower-left coupling block reduced by the untransposed matrix'),
    ("C06", "break", ['C06-R8'], CB, '    mcg[3:, 3:] -= I\n',
     '    mcg[3:, 3:] += I\n',
     'cgmass: parallel-axis terms added instead of removed'),
    ("C06", "break", ['C06-R8'], CB, '    dy = m[2, 3] / mz\n',
     '    dy = m[2, 3] / my\n',
     'cgmass: cg offset y from the mass of the wrong direction'),
    ("C06", "break", ['C06-R8'], CB, '    dz = m[0, 4] / mx\n',
     '    dz = m[1, 3] / my\n',
     'cgmass: cg offset z with the sign of the transposed coupling entry'),
    ("C06", "break", ['C06-R8'], CB, '    dx = m[1, 5] / my\n',
     '    dx = m[1, 4] / my\n',
     'cgmass: cg offset x read from a zero entry'),
    ("C06", "break", ['C06-R8'], CB, '    dxyz = np.array([dx, dy, dz])\n',
     '    dxyz = np.array([dx, dz, dy])\n',
     'cgmass: returned offsets in the wrong order'),
    ("C06", "break", ['C06-R8'], CB, '    gyr = np.sqrt(np.diag(I) / np.diag(mcg)[:3])\n',
     '    gyr = np.sqrt(np.diag(I) / np.diag(mcg)[3:])\n',
     'cgmass: radius of gyration divides the inertia by itself'),
    ("C06", "break", ['C06-R8'], CB, '    gyr = np.sqrt(np.diag(I) / np.diag(mcg)[:3])\n',
     '    gyr = np.sqrt(np.diag(I)) / np.diag(mcg)[:3]\n',
     'cgmass: root taken of the inertia only'),
    ("C06", "break", ['C06-R8'], CB, '    I = mcg[3:, 3:]\n    dxyz',
     '    I = m[3:, 3:]\n    dxyz',
     'cgmass: returned inertia taken about the reference point'),
    ("C06", "break", ['C06-R8'], CB, '    mcg = m.astype(float, copy=True)\n',
     '    mcg = np.empty_like(m, dtype=float)\n    mcg[:3, :3] = m[:3, :3]\n    mcg[3:, 3:] = m[3:, 3:]\n    mcg[:3, 3:] = m[:3, 3:]\n',
     'cgmass: one block of the work matrix left uninitialised'),
    ("C06", "neutral", [], CB, '            [mz * dy**2 + my * dz**2, -mz * dx * dy, -my * dx * dz],\n',
     '            [my * dz**2 + mz * dy**2, -mz * dx * dy, -my * dx * dz],\n',
     'cgmass: summands reordered'),
    ("C06", "neutral", [], CB, '            [mz * dy**2 + my * dz**2, -mz * dx * dy, -my * dx * dz],\n',
     '            [mz * dy * dy + my * dz * dz, -(mz * dx * dy), -(my * dx * dz)],\n',
     'cgmass: x * x for x ** 2, negation of the product'),
    ("C06", "neutral", [], CB, '            [-mz * dx * dy, mz * dx**2 + mx * dz**2, -mx * dy * dz],\n',
     '            [-dy * (mz * dx), dx * dx * mz + dz * (dz * mx), -dz * mx * dy],\n',
     'cgmass: factors re-associated and reordered'),
    ("C06", "neutral", [], CB, '            [mz * dy**2 + my * dz**2, -mz * dx * dy, -my * dx * dz],\n',
     '            [mz * dy**2 + my * dz**2, -mz * dx * dy, -m[1, 5] * dz],\n',
     'cgmass: my * dx read back from the matrix'),
    ("C06", "neutral", [], CB, '    # compute mass terms that will be subtracted off:\n',
     '    dx2, dy2, dz2 = dx * dx, dy * dy, dz * dz\n    ixx = mz * dy2 + my * dz2\n',
     'cgmass: named temporaries (unused here; see the next one)'),
    ("C06", "neutral", [], CB, '    I = np.array(\n        [\n            [mz * dy**2 + my * dz**2, -mz * dx * dy, -my * dx * dz],\n',
     '    ixx = mz * dy**2 + my * dz**2\n    pxy = mz * dx * dy\n    I = np.array(\n        [\n            [ixx, -pxy, -my * dx * dz],\n',
     'cgmass: named temporaries for one diagonal and one product term'),
    ("C06", "neutral", [], CB, '    mcg[3:, 3:] -= I\n',
     '    mcg[3:, 3:] = mcg[3:, 3:] - I\n',
     'cgmass: plain assignment instead of the in-place subtraction'),
    ("C06", "neutral", [], CB, '    mcg[3:, :3] -= Md.T\n',
     '    mcg[3:, :3] = mcg[:3, 3:].T\n',
     'cgmass: lower-left coupling block copied from the (already reduced) upper-right one'),
    ("C06", "neutral", [], CB, '    mx, my, mz = np.diag(m)[:3]\n',
     '    mx, my, mz = m[0, 0], m[1, 1], m[2, 2]\n',
     'cgmass: masses read entry by entry'),
    ("C06", "neutral", [], CB, '    mx, my, mz = np.diag(m)[:3]\n',
     '    mx, my, mz = (m[i][i] for i in range(3))\n',
     'cgmass: masses through a generator over range(3)'),
    ("C06", "neutral", [], CB, '    dx = m[1, 5] / my\n',
     '    dx = -m[2, 4] / mz\n',
     'cgmass: cg offset x from the other coupling entry that holds it'),
    ("C06", "neutral", [], CB, '    dy = m[2, 3] / mz\n',
     '    dy = (m[3, 2] / mz - m[0, 5] / mx) / 2\n',
     'cgmass: cg offset y as the mean of its two readings'),
    ("C06", "neutral", [], CB, '    mcg = m.astype(float, copy=True)\n',
     '    mcg = np.array(m, dtype=float)\n',
     'cgmass: work copy through np.array'),
    ("C06", "neutral", [], CB, '    mcg[3:, 3:] -= I\n',
     '    for i in range(3):\n        for j in range(3):\n            mcg[3 + i, 3 + j] -= I[i][j]\n',
     'cgmass: rotary block reduced entry by entry'),
    ("C06", "neutral", [], CB, '    mcg[3:, 3:] -= I\n',
     '    S = np.array([[0, -dz, dy], [dz, 0, -dx], [-dy, dx, 0]])\n    mcg[3:, 3:] -= S.T @ np.diag([mx, my, mz]) @ S\n',
     'cgmass: parallel-axis terms as skew(d)^T diag(m) skew(d)'),
    ("C06", "neutral", [], CB, '    gyr = np.sqrt(np.diag(I) / np.diag(mcg)[:3])\n',
     '    gyr = np.sqrt(np.array([I[0, 0] / mx, I[1, 1] / my, I[2, 2] / mz]))\n',
     'cgmass: radii of gyration entry by entry'),
    ("C06", "neutral", [], CB, '    dxyz = np.array([dx, dy, dz])\n    if not all6:\n        return mcg, dxyz\n',
     '    dxyz = np.array([dx, dy, dz])\n    if all6 is False or not all6:\n        return (mcg, dxyz)\n',
     'cgmass: the early return written differently'),
]

# ---- pass 6 (round 7): cbreorder on a finite world of boundary vectors (C06-R9) - tests on the *content* of b that the term rule R3 cannot decide
_Q_OLD = "        q = locate.flippv(b, lt)\n        if last:\n"
RECIPES += [
    ("C06", "break", ["C06-R9"], CB, _Q_OLD,
     "        if not last and b.max() < lb:\n            return M\n" + _Q_OLD,
     "round-7 seed S: b already in the leading block -> M returned as it is (wrong when b is not ascending)"),
    ("C06", "break", ["C06-R9"], CB, _Q_OLD,
     "        if last and b.min() >= lq:\n            return M\n" + _Q_OLD,
     "sibling of seed S: b already in the trailing block and last=True -> M returned as it is"),
    ("C06", "break", ["C06-R9"], CB, "            M = M[np.ix_(b, b)]\n",
     "            if not np.array_equal(b, np.arange(lb)):\n                M = M[np.ix_(np.sort(b), np.sort(b))]\n",
     "no-complement branch sorts b (identity when b is a permutation: the caller's order is lost)"),
    ("C06", "neutral", [], CB, "        q = locate.flippv(b, lt)\n        if last:\n            pv = np.hstack((q, b))\n        else:\n            pv = np.hstack((b, q))\n",
     "        q = locate.flippv(b, lt)\n        parts = (q, b) if last else (b, q)\n        pv = np.hstack(parts)\n",
     "the two arrangements through a tuple chosen by `last`"),
]
