"""C09 -- parallel == serial, bit for bit (Bernstein conditions + worker/serial expression identity).

Verdicts: a VIOLATION is reported for a definite conflict or difference only (every task writes the same cells with task-dependent values; a task
reads what another one writes; an in-place operation on shared data outside the own slice; a stale process global; a content tree that differs
from the serial one; block edges that reach the number of indices only in exact arithmetic; a name the code after the split definitely reads
where one arm left it unbound; a chunk size below 1 in a world that reaches the pool call - reported with the witness).  A partition of the index
space the rules do not understand (a task index mapped through something else than the identity or recognised consecutive blocks), a read after
the split that depends on undecided tests, a result iterator handed to an unknown consumer are reported as undecided (exit 2).

C09-R5 compares trees, and its verdict is three-valued: a parallel and a serial path are compared only when their decisions can hold together
(verifier/c09_facts.py: finite world evaluation per tested subject - `X in (a, b)` true with `X == a` false is `X == b`; a table lookup `D[X]`
that went through makes X one of D's keys); when the quick exploration (helpers that only compute are left as terms in the parent) finds any
difference, the comparison is repeated on an exploration that follows every helper on both sides (early returns merged into one value), the
function whose result selects the mode excepted; there a difference is a VIOLATION only between trees that were followed completely - a merged
conditional, a starred sequence or an unknown on one side only is expanded (both outcomes of the test under the facts of the two paths) or,
failing that, reported as not decided (exit 2).

All rules read one exact symbolic execution of `srs.srs` and `fdepsd.fdepsd` (verifier/c09_sim.py): every path through the parent up
to the statement that joins the parallel and the serial arm, with the pool executed as fork + initializer + one symbolic task.  The rules
speak about *objects and values* (which array a store lands on - through helper calls, views and `out=` -, which term is stored, which
process global was bound by which initializer call), never about how the worker bodies are spelled."""
from __future__ import annotations

import ast

from .core import AnchorError, Unsupported
from .e1_srcmodel import qualname_of
from .c09_terms import World, Unsup, is_tag, is_const, subterms, contains, show, NONE, ZEROS, EMPTY
from .c09_blocks import norm as bnorm, fragile, Facts, length_of, _lin_parts
from .c09_chunks import expand_calls, search
from .c09_facts import consistent, unfollowed, soft_terms, diff_pairs, rigid_difference, selector_functions
from .c09_run import (explore, join_index, live_in, compatible, equal_mod_alloc, diff_text, resolve, mode_atoms, extend_join, first_use, tail_test,
                      READ, MAYREAD, unstar)

SRS = "pyyeti/srs.py"
FDE = "pyyeti/fdepsd.py"
ENTRIES = [(SRS, "srs"), (FDE, "fdepsd")]
C_DOUBLE = ("ext", "ctypes.c_double")
FLOAT64 = (None, ("ext", "builtins.float"), ("ext", "numpy.float64"), ("ext", "numpy.double"), ("c", "str", "float64"), ("c", "str", "f8"),
           ("c", "str", "d"), ("c", "str", "float"))
FILE_CALLS = ("open", "write", "writelines", "save", "savez", "savetxt", "dump", "tofile", "to_csv", "to_pickle")


# ------------------------------------------------------------------------------------------------------------------- analysis (cached)
class Analysis:
    def __init__(self, ctx):
        self.world = World(ctx, [SRS, FDE])
        self.entries = {}
        self.pgw = set()
        for rel, q in ENTRIES:
            fn = self.world.func(rel, q)
            if fn is None:
                raise AnchorError(f"function {q} not found in {rel}")
            K = join_index(self.world, rel, fn)
            leaves = explore(self.world, rel, q, K)
            K2 = extend_join(fn, K, leaves)
            if K2 != K:
                K = K2
                leaves = explore(self.world, rel, q, K)
            live = live_in(fn.body[K + 1:], set())
            if not leaves:
                raise Unsup(f"{q}: no live path")
            self.entries[q] = (rel, fn, K, live, leaves)
            for lf in leaves:
                self.pgw |= lf.sim.pgw
        if not any(lf.sim.launches for _, _, _, _, lvs in self.entries.values() for lf in lvs):
            raise AnchorError("no pool launch (Pool + imap*/map) reached from srs() or fdepsd()")


def analysis(ctx):
    a = getattr(ctx, "_c09", None)
    if a is None:
        try:
            a = Analysis(ctx)
        except Exception as e:  # noqa - re-raised by every rule so that each reports it
            a = e
        ctx._c09 = a
    if isinstance(a, Exception):
        raise a
    return a


class Agg:
    """one obligation per distinct text; it holds when it held on every path on which it was met"""

    def __init__(self, ctx):
        self.ctx = ctx
        self.d = {}

    def add(self, text, ok, node=None, detail=None, nontrivial=True):
        cur = self.d.get(text)
        if cur is None:
            self.d[text] = [bool(ok), node, None if ok else detail, nontrivial]
        elif cur[0] and not ok:
            self.d[text] = [False, node, detail, nontrivial]

    def flush(self):
        for text, (ok, node, detail, nt) in self.d.items():
            if ok:
                self.ctx.ok(text, node, None, nt)
            else:
                self.ctx.fail(text, node, detail)


def wname(L):
    f = L.func
    while is_tag(f, "partial"):
        f = f[1]
    return f[2] if is_tag(f, "fn") else show(f)


def label(sim, oid):
    labs = sim.heap[oid].labels
    pg = set().union(*[mi.proc_globals for mi in sim.world.mods.values()])
    for l in labs:
        if l in pg or "[" in l:          # the process-global name (or state-dict entry) the workers know the object by
            return l
    for l in labs:
        if l.endswith("_"):
            return l
    return labs[0] if labs else f"object created at line {getattr(sim.heap[oid].node, 'lineno', '?')}"


def src(node):
    try:
        return ast.unparse(node).split("\n")[0][:70]
    except Exception:  # noqa
        return "?"


def task_events(sim, L):
    return [e for e in sim.events if e.ctx == ("task", L.lid)]


def shared(sim, L, oid):
    """an object that exists outside the task (not created by the task itself)"""
    return L.fid not in sim.heap[oid].born_frames


def lv_positions(sel, lv):
    return [i for i, x in enumerate(sel) if x == lv]


def comparable_diff(a, b):
    """two iteration counts / axis lengths that provably differ: their difference, in integer-affine normal form over sizes (len(...), .size - all
    at least 1 for a non-empty problem), is a non-zero constant or has one definite sign.  `min(n, len(x))` against n, `int(n)` against n and the
    like are not decided here (the caller leaves them uncompared)."""
    if a == b:
        return False
    facts = Facts()
    def length(t):
        if is_tag(t, "min"):
            # zip stops at the shortest: decided when the lengths differ by constants only
            parts = [length(x) for x in t[1:]]
            if any(x is None for x in parts):
                return None
            lins = [_lin_parts(bnorm(x)) for x in parts]
            if all(d == lins[0][1] for _, d in lins):
                c = min(c for c, _ in lins)
                return bnorm(("bin", "Add", _unlin(lins[0][1]), ("c", "int", c)))
            return None
        r = length_of(t, facts)
        if r is None and not any(is_tag(x, "min") for x in subterms(t)):
            r = bnorm(t)            # a length this algebra does not look into: an opaque non-negative integer
        return r
    la, lb = length(a), length(b)
    if la is None or lb is None:
        return False
    (ca, da), (cb, db) = _lin_parts(bnorm(la)), _lin_parts(bnorm(lb))
    d = dict(da)
    for k, v in db.items():
        d[k] = d.get(k, 0) - v
    d = {k: v for k, v in d.items() if v != 0}
    c = ca - cb
    if not d:
        return c != 0
    if not all(_is_size(k, facts) for k in d):
        return False
    return (c >= 0 and all(v > 0 for v in d.values())) or (c <= 0 and all(v < 0 for v in d.values()))


def _unlin(d):
    t = ("c", "int", 0)
    for k, v in sorted(d.items(), key=repr):
        t = ("bin", "Add", t, k if v == 1 else ("bin", "Mult", ("c", "int", v), k))
    return t


def _is_size(t, facts):
    return (is_tag(t, "attr") and t[2] == "size") or (is_tag(t, "call") and t[1] == ("ext", "builtins.len")) or \
        (is_tag(t, "bin") and t[1] == "Mult" and _is_size(t[2], facts) and _is_size(t[3], facts))




def _task_axes(sim, L):
    """(object, axis of the task index, shape term) for every store a task makes into an object it did not create"""
    out = set()
    for e in task_events(sim, L):
        if e.kind == "store" and shared(sim, L, e.oid):
            pos = lv_positions(e.sel, L.lv)
            if len(pos) == 1:
                out.add((e.oid, pos[0], e.shape if e.shape is not None else sim.heap[e.oid].shape))
    return sorted(out, key=repr)


def multi_index(sim, L):
    """does the task address written shared arrays through something else than its plain index combined with an inner loop of its own (a block of
    indices the analysis did not recognise as one)?  The content terms of such arrays do not describe what the tasks do together."""
    if L.fid is None:
        return False
    for e in task_events(sim, L):
        if e.kind != "store" or not shared(sim, L, e.oid):
            continue
        pos = lv_positions(e.sel, L.lv)
        if len(pos) == 1 and not any(contains(x, L.lv) for i, x in enumerate(e.sel) if i != pos[0]):
            continue
        if any(is_tag(x, "blk") or (is_tag(x, "lv") and x != L.lv) for it in e.sel for x in subterms(it)):
            return True
    return False


def launches(an):
    for q, (rel, fn, K, live, leaves) in an.entries.items():
        for lf in leaves:
            for L in lf.sim.launches:
                yield q, lf, L


# ------------------------------------------------------------------------------------------------------------------- R1
def r1_disjoint_writes(ctx):
    an = analysis(ctx)
    ag = Agg(ctx)
    undecided = set()
    written_labels = set()
    for q, lf, L in launches(an):
        sim, w = lf.sim, wname(L)
        evs = [e for e in task_events(sim, L) if shared(sim, L, e.oid)]
        wobjs = {e.oid for e in evs}
        axes = {}
        if L.block is not None:
            B = L.block
            if B.used:
                ag.add(f"{w}: task number k owns the indices range(F(k), F(k+1)) of one edge sequence F (consecutive ranges: pairwise disjoint and "
                       "without gaps when F does not decrease) and its loop runs over exactly that range", True, L.node)
            else:
                undecided.add((f"{w}: the task element holds two consecutive values F(k), F(k+1) of one sequence but the task does not loop over "
                               "range(F(k), F(k+1)): what the task owns is not decided", L.node))
            if B.mono:
                ag.add(f"{w}: the block edges F(k) do not decrease with k (sign / monotonicity calculus)", True, L.node)
            else:
                undecided.add((f"{w}: cannot prove that the block edges F(k) = {show(B.Fx)[:200]} do not decrease with k (blocks may overlap)", L.node))
        for e in evs:
            lab = label(sim, e.oid)
            written_labels.add((q, lab))
            pos = lv_positions(e.sel, L.lv) if e.kind == "store" else []
            ok = len(pos) == 1 and not any(contains(x, L.lv) for i, x in enumerate(e.sel) if i != pos[0])
            if not ok and e.kind == "store":
                # not the plain task index.  A definite conflict: no index depends on the task, so every task writes the same cells, with a value
                # that depends on the task (the last writer wins).  Anything else (another injective map of the task index, an inner loop of the
                # task over a range of its own) is a partition this rule does not decide.
                dep = any(is_tag(x, "lv", "blk") for it in e.sel for x in subterms(it))
                if dep or not (e.value is not None and contains(e.value, L.lv)):
                    undecided.add((f"{w}: store `{src(e.node)}` into shared array {lab} is not indexed by the plain task index "
                                   f"([{', '.join(show(x)[:60] for x in e.sel)}]): disjointness of the tasks' writes not decided", e.node))
                    continue
            ag.add(f"{w}: store `{src(e.node)}` into shared array {lab} is made at the task index (own slice only)", ok, e.node,
                   {"selection": [show(x) for x in e.sel], "how": e.how or e.note})
            if ok:
                axes.setdefault(e.oid, set()).add((pos[0], e.shape))
        for r in sim.reads:
            if r.ctx != ("task", L.lid) or r.oid not in wobjs:
                continue
            lab = label(sim, r.oid)
            pos = lv_positions(r.sel, L.lv)
            ok = len(pos) == 1
            if not ok and any(e.oid == r.oid and e.kind == "store" and e.sel == r.sel for e in evs) and \
                    any(is_tag(x, "lv", "blk") for it in r.sel for x in subterms(it)):
                undecided.add((f"{w}: read `{src(r.node)}` of written shared array {lab} is made where the task itself stores, which is not the plain "
                               "task index: not decided", r.node))
                continue
            ag.add(f"{w}: read `{src(r.node)}` of written shared array {lab} is made at the task index", ok, r.node,
                   {"selection": [show(x) for x in r.sel]})
            if ok:
                axes.setdefault(r.oid, set()).add((pos[0], r.shape))
        for oid, ax in axes.items():
            lab = label(sim, oid)
            ps = {p for p, _ in ax}
            ok = len(ps) == 1
            ag.add(f"{w}: the task index is always on the same axis of {lab} -> tasks touch disjoint slices", ok, L.node, sorted(ps))
            if not ok:
                continue
    ag.flush()
    for text, node in sorted(undecided, key=lambda x: x[0]):
        ctx.error(text, node, "undecided")
    labs = sorted({l for _, l in written_labels})
    ctx.check(len(labs) >= 5, "written shared arrays bound: SRSmax_, HIST_, ASV_, BinAmps_, Count_", SRS + ":1", labs, nontrivial=False)


# ------------------------------------------------------------------------------------------------------------------- R2
def r2_readonly(ctx):
    an = analysis(ctx)
    ag = Agg(ctx)
    for q, lf, L in launches(an):
        sim, w = lf.sim, wname(L)
        tevs = task_events(sim, L)
        touched = {e.oid for e in tevs} | {r.oid for r in sim.reads if r.ctx == ("task", L.lid)}
        written = {e.oid for e in tevs}
        for e in tevs:
            lab = label(sim, e.oid)
            if e.kind == "escape":
                ok = not shared(sim, L, e.oid)
                ag.add(f"{w}: `{src(e.node)}` hands {'shared array ' + lab if not ok else 'only a task-local array'} to the foreign routine {e.note}",
                       ok, e.node)
                continue
            if e.how == "store" and shared(sim, L, e.oid):
                continue        # plain stores into outputs are R1's business
            if not shared(sim, L, e.oid):
                ok, what = True, "a task-local array (fresh result of a call inside the task)"
            else:
                ok = len(lv_positions(e.sel, L.lv)) == 1
                what = f"the task's own slice of {lab}" if ok else f"shared array {lab} outside the task's own slice"
            ag.add(f"{w}: in-place operation `{src(e.node)}` touches {what if ok else 'only task-local data or the own slice'}", ok, e.node,
                   None if ok else what)
        for c, node, name, fname in sim.unbound:
            if c == ("task", L.lid):
                ag.add(f"{w}: `{src(node)}` in {fname} assigns the process global {name} without a `global` declaration", False, node,
                       "Python treats the name as a local of the function: the read raises UnboundLocalError in the worker (with the declaration it "
                       "would overwrite the shared array)")
        for oid in sorted(touched - written):
            if not shared(sim, L, oid) or sim.heap[oid].kind not in ("raw", "array"):
                continue
            lab = label(sim, oid)
            ag.add(f"{w}: shared input {lab} is read-only in the task and in every helper it calls (no store, augmented assignment, out=, "
                   "mutating method or foreign routine reaches it or a view of it)", True, L.node)
    ag.flush()


# ------------------------------------------------------------------------------------------------------------------- R3
def _bad_calls(fn):
    bad = []
    for n in ast.walk(fn):
        if isinstance(n, ast.Call):
            fx = n.func
            last = fx.attr if isinstance(fx, ast.Attribute) else (fx.id if isinstance(fx, ast.Name) else "")
            root = fx
            while isinstance(root, ast.Attribute):
                root = root.value
            if last in FILE_CALLS or (isinstance(root, ast.Name) and root.id in ("os", "shutil", "subprocess") and isinstance(fx, ast.Attribute)):
                bad.append(ast.unparse(fx))
    return bad


def _without(t, paths):
    """the tuple term t with the components at the given index paths blanked"""
    def go(x, path):
        if path in paths:
            return ("s", "<block edge>")
        if is_tag(x, "tuple", "list"):
            return (x[0],) + tuple(go(e, path + (i,)) for i, e in enumerate(x[1:]))
        return x
    return go(t, ())


def r3_no_other_channel(ctx):
    an = analysis(ctx)
    ag = Agg(ctx)
    for q, lf, L in launches(an):
        sim, w = lf.sim, wname(L)
        gw = [(k, n) for k, c, n in sim.gwrites if c == ("task", L.lid)]
        ag.add(f"{w}: rebinds no module global (the task and its helpers)", not gw, gw[0][1] if gw else L.node, [k[1] for k, _ in gw])
        bad = [b for f in L.fns for b in _bad_calls(f)]
        ast_st = [n for c, n in sim.attr_stores if c == ("task", L.lid)]
        ag.add(f"{w}: writes no file and no object attribute (the task and its helpers)", not bad and not ast_st, L.node,
               bad + [ast.unparse(n) for n in ast_st])
        if L.ret == NONE:
            ag.add(f"{w}: returns nothing (results travel only through the shared arrays)", True, L.node)
        el = L.elem
        if L.block is not None:
            rest = _without(sim.snap(el, record=False), L.block.paths)
            ok = not contains(rest, L.block.blk) and not contains(rest, L.lv)
            ag.add(f"{q}: each task is (own index range, arguments) with the arguments the same for every task [{w}]", ok, L.node,
                   None if ok else show(rest)[:200])
        else:
            ok = is_tag(el, "tuple") and len(el) == 3 and el[1] == L.lv and not contains(sim.snap(el[2], record=False), L.lv)
            if ok:
                ag.add(f"{q}: each task is (index, arguments) with the index running over the task range and the arguments the same for every task "
                       f"[{w}]", True, L.node)
            else:
                # not a necessary condition (a task may be handed per-task values or a range of indices): what the tasks write where is judged by
                # C09-R1, what they compute by C09-R5
                ctx.note(f"{w}: tasks are not of the form (index, common arguments): {show(sim.snap(el, record=False))[:120]}")
        for oid, p, shp in _task_axes(sim, L):
            lab = label(sim, oid)
            if is_tag(shp, "tuple") and p < len(shp) - 1 and L.count is not None:
                dim, cnt = lf.term(shp[1 + p]), lf.term(L.count)
                txt = f"{q}: one task per index of the task axis of {lab} (as many tasks as entries) [{w}]"
                if L.block is not None:
                    txt = f"{q}: the blocks cover the task axis of {lab} exactly (as many indices as entries) [{w}]"
                    if bnorm(dim) == cnt:
                        ag.add(txt, True, L.node)
                    elif fragile(cnt, bnorm(dim), L.block.facts):
                        ag.add(txt, False, L.node, fragile(cnt, bnorm(dim), L.block.facts))
                    else:
                        ctx.note(f"{w}: length of the task axis of {lab} ({show(dim)[:80]}) not compared with the span of the blocks ({show(cnt)[:80]})")
                elif dim == cnt:
                    ag.add(txt, True, L.node)
                elif comparable_diff(dim, cnt):
                    ag.add(txt, False, L.node, {"axis length": show(dim)[:200], "tasks": show(cnt)[:200]})
                else:
                    ctx.note(f"{w}: length of the task axis of {lab} ({show(dim)[:80]}) not compared with the number of tasks ({show(cnt)[:80]})")
        pool = sim.pools[L.pid]
        T = pool.processes
        if T != NONE and not is_const(T):
            where = []
            # (the edges of a block launch may depend on the worker count: what matters is that the blocks tile the index range, C09-R1/R5)
            # (that the worker count is handed to the tasks or the initializer is not by itself a dependence of the result on it: only what is
            # stored or returned counts, and only when the tasks are understood, see multi_index)
            if multi_index(sim, L):
                continue
            for e in sim.events:
                if e.value is not None and contains(e.value, T):
                    where.append(f"value stored by `{src(e.node)}`")
                    break
            for n in an.entries[q][3]:
                v = lf.fr.locals.get(n)
                if v is None:
                    continue
                sv = sim.snap(v, record=False)
                if sv != T and contains(sv, T):
                    where.append(f"local `{n}`")
            ag.add(f"{q}: the worker count reaches only `processes` (and a local that reports it), no task argument, shared array or output [{w}]",
                   not where, pool.node, where)
    for q, (rel, fn, K, live, leaves) in an.entries.items():
        for lf in leaves:
            if not lf.sim.launches:
                continue
            leak = []
            for n in live:
                v = lf.fr.locals.get(n)
                if v is not None and any(is_tag(x, "relem", "results") for x in subterms(lf.sim.snap(v, record=False))):
                    leak.append(n)
            if lf.ret is not None and any(is_tag(x, "relem", "results") for x in subterms(lf.sim.snap(lf.ret, record=False))):
                leak.append("return value")
            for e in lf.sim.events:
                if e.value is not None and any(is_tag(x, "relem", "results") for x in subterms(e.value)):
                    leak.append(src(e.node))
            leak += [src(n) for c, n in lf.sim.relem_uses]
            for L in lf.sim.launches:
                harmless = L.ret == NONE or L.ordered
                ag.add(f"{q}: arrival order of the results cannot reach an output (the tasks return nothing, or the values yielded by the "
                       f"unordered result iterator are dropped) [{wname(L)}]", harmless or not leak, L.node, leak)
    ag.flush()


# ------------------------------------------------------------------------------------------------------------------- R4
def r4_lifecycle(ctx):
    an = analysis(ctx)
    ag = Agg(ctx)
    undecided = set()
    for q, (rel, fn, K, live, leaves) in an.entries.items():
        for lf in leaves:
            sim = lf.sim
            by_lid = {L.lid: L for L in sim.launches}
            # ---- process globals: bound by the initializer of this very launch (or never bound anywhere in the parent process)
            for key, prov, c, node, val, frames in sim.preads:
                g = key[1]
                if c[0] in ("task", "init") and c[1] in by_lid:
                    L = by_lid[c[1]]
                    who = wname(L) if c[0] == "task" else "initializer of " + wname(L)
                    own = prov == "bound:%s" % (("init", L.lid),)
                    stale = (not own) and key in an.pgw
                    ag.add(f"{who}: process global {g} is bound by the initializer registered for the same pool on every path on which the "
                           "task reads it (or is never assigned in the parent process)", not stale, node,
                           None if not stale else f"{g} is not (re)bound for this launch but is assigned in the parent process on another path: "
                                                  "a value left over from an earlier call is used")
                    ag.add(f"{who}: reads {g} " + ("as bound by its own initializer" if own else "as left by the module (None)"), True, node,
                           nontrivial=own)
                elif c[0] == "parent":
                    own = prov.startswith("bound:")
                    stale = (not own) and key in an.pgw
                    ag.add(f"{qualname_of(node) or q}: process global {g} read in the parent process was bound during the same call", not stale, node,
                           None if not stale else f"{g} is read before this call binds it, and the parent process assigns it on another path: "
                                                  "a value left over from an earlier call is used")
            for c, node, what in sim.none_uses:
                who = wname(by_lid[c[1]]) if c[0] in ("task", "init") and c[1] in by_lid else q
                ag.add(f"{who}: every shared array the task uses was bound for this launch (`{src(node)}`)", False, node, what + " (global not bound by the initializer on this path)")
            for L in sim.launches:
                w = wname(L)
                pool = sim.pools[L.pid]
                touched = {e.oid for e in sim.events if e.ctx in (("task", L.lid), ("init", L.lid))} | \
                          {r.oid for r in sim.reads if r.ctx in (("task", L.lid), ("init", L.lid))}
                touched = {o for o in touched if shared(sim, L, o)}
                ie = [e for e in sim.events if e.ctx == ("init", L.lid) and e.oid in touched and sim.heap[e.oid].born_ctx[0] == "parent"]
                ag.add(f"{q}: the pool initializer only binds views, it writes no shared memory [{w}]", not ie, ie[0].node if ie else pool.node,
                       [src(e.node) for e in ie])
                hi = L.drain_seq if L.drained else float("inf")
                pw = [e for e in sim.events if e.ctx[0] == "parent" and e.oid in touched and L.seq0 < e.seq < hi]
                ag.add(f"{q}: parent writes to the shared buffers precede the tasks (none between launch and drain) [{w}]", not pw,
                       pw[0].node if pw else L.node, [src(e.node) for e in pw])
                written = {e.oid for e in sim.events if e.ctx == ("task", L.lid)}
                pr = [r for r in sim.reads if r.ctx[0] == "parent" and r.oid in written and L.seq0 < r.seq < hi]
                ag.add(f"{q}: result buffers are read by the parent only after every task has finished [{w}]", not pr,
                       pr[0].node if pr else L.node, [src(r.node) for r in pr])
                ok = L.drained and (pool.end_seq is None or L.drain_seq < pool.end_seq)
                if not L.drained and sim.relem_uses:
                    # the iterator was handed to a callable the analysis does not know as a consumer: it may well exhaust it
                    undecided.add((f"{q}: the result iterator is exhausted before the pool is shut down [{w}]: it is handed to "
                                   f"`{src(sim.relem_uses[0][1])}`, which the analysis does not know to consume it", L.node))
                else:
                    ag.add(f"{q}: the result iterator is exhausted before the pool is shut down [{w}]", ok, L.node,
                           None if ok else ("never consumed" if not L.drained else "consumed after the pool was terminated"))
                post = [r for r in sim.reads if r.ctx[0] == "parent" and r.oid in written and r.seq > hi] if L.drained else []
                outs = any(any(is_tag(x, "ref") and x[1] in written for x in subterms(v)) for v in lf.fr.locals.values()
                           if isinstance(v, tuple)) or any(any(is_tag(x, "ref") and x[1] in written for x in subterms(v))
                                                           for o in sim.heap.values() for v in o.entries.values())
                ag.add(f"{q}: the outputs are taken from the shared buffers after the tasks [{w}]", bool(post) or outs or lf.ret is not None, L.node)
    ag.flush()
    for text, node in sorted(undecided, key=lambda x: x[0]):
        ctx.error(text, node, "undecided")


# ------------------------------------------------------------------------------------------------------------------- R4b
def r4b_shared_buffer_io(ctx):
    """the parent writes a shared RawArray through the same kind of numpy view the workers read it with (np.frombuffer, float64):
    a raw byte copy would reinterpret a non-float64 input"""
    an = analysis(ctx)
    W = an.world
    fn = W.func(SRS, "copyToSharedArray")
    if fn is None:
        raise AnchorError("copyToSharedArray")
    dflt = {a.arg: d for a, d in zip(fn.args.args[::-1], (fn.args.defaults or [])[::-1])}
    ctype_default = len(dflt) == 1 and ast.unparse(next(iter(dflt.values()))).endswith("c_double")
    leaves = explore(W, SRS, "copyToSharedArray", params={k: C_DOUBLE for k in dflt} if ctype_default else None)
    ag = Agg(ctx)
    arr = ("s", fn.args.args[0].arg)
    for lf in leaves:
        sim = lf.sim
        r = lf.ret
        okret = is_tag(r, "ref") and sim.heap[r[1]].kind == "raw"
        ag.add("copyToSharedArray returns the RawArray it allocated", okret, fn, None if okret else show(lf.term(r))[:200])
        if not okret:
            continue
        o = sim.heap[r[1]]
        esc = [e for e in o.events if e.kind == "escape"]
        ag.add("copyToSharedArray performs no raw byte copy into the shared buffer (no foreign routine is handed the buffer)", not esc,
               esc[0].node if esc else fn, [e.note for e in esc])
        st = [e for e in o.events if e.kind == "store"]
        dts = [d for oid, d, n in sim.views if oid == o.oid]
        whole = bool(st) and st[-1].sel == () and (lf.term(st[-1].value) == arr or
                                                  # the flattened input through the flat view (C order, like the shaped views that read it)
                                                  (st[-1].shape is None and lf.term(st[-1].value) == ("call", ("ext", "numpy.ravel"), (arr,), ())))
        ok = whole and all(d in FLOAT64 for d in dts) and bool(dts)
        ag.add("copyToSharedArray fills the shared buffer by assigning the input to a float64 np.frombuffer view (numpy converts the dtype), "
               "on every path", ok, st[-1].node if st else fn,
               None if ok else {"stores": [f"[{', '.join(show(x) for x in e.sel)}] <- {show(e.value)[:80]}" for e in st], "view dtypes": [show(d) if d else "default" for d in dts]})
        ok = o.meta.get("ctype") == C_DOUBLE and lf.term(o.meta.get("size")) == ("attr", arr, "size")
        ag.add("copyToSharedArray allocates arr.size c_double elements", ok, fn,
               None if ok else {"ctype": show(o.meta.get("ctype")), "size": show(o.meta.get("size"))})
    # every view of a shared buffer anywhere in the simulation is float64, every buffer c_double
    for q, (rel, f0, K, live, lvs) in an.entries.items():
        for lf in lvs:
            sim = lf.sim
            for oid, d, node in sim.views:
                ag.add(f"{qualname_of(node) or q}: shared buffers are read through default-dtype (float64) np.frombuffer views", d in FLOAT64, node,
                       None if d in FLOAT64 else show(d))
            for o in sim.heap.values():
                if o.kind == "raw":
                    ag.add(f"{qualname_of(o.node) or q}: shared buffers are allocated as c_double", o.meta.get("ctype") == C_DOUBLE, o.node,
                           show(o.meta.get("ctype")))
            for oid, shp, node in sim.shaped:
                size = lf.term(sim.heap[oid].meta.get("size"))
                shp = lf.term(shp)
                dims = _prod_arg(size)
                if dims is not None and is_tag(shp, "tuple"):
                    ok = dims == shp
                    ag.add(f"{qualname_of(node) or q}: a shared buffer is viewed with the shape it was allocated for", ok, node,
                           None if ok else {"allocated for": show(dims)[:200], "viewed as": show(shp)[:200]})
                elif is_tag(size, "attr") and size[2] == "size" and is_tag(shp, "attr") and shp[2] == "shape" and size[1] == shp[1]:
                    ag.add(f"{qualname_of(node) or q}: a shared buffer is viewed with the shape it was allocated for", True, node)
    ag.flush()


def _prod_arg(size):
    """int(np.prod(dims)) -> dims as a tuple term"""
    t = size
    if is_tag(t, "call") and t[1] == ("ext", "builtins.int") and len(t[2]) == 1:
        t = t[2][0]
    if is_tag(t, "call") and t[1] in (("ext", "numpy.prod"), ("ext", "numpy.product"), ("ext", "math.prod")) and len(t[2]) == 1:
        d = t[2][0]
        if is_tag(d, "tuple", "list"):
            return ("tuple",) + tuple(d[1:])
    return None


# ------------------------------------------------------------------------------------------------------------------- R5
def _shapes(leaf, v, assign):
    """{path: shape term} of the arrays reachable from a local (the array itself, or the entries of a dict)"""
    sim = leaf.sim
    out = {}
    if is_tag(v, "ref") and sim.heap[v[1]].kind in ("raw", "array"):
        sh = sim.ref_shape(v)
        if sh is not None:
            out[""] = leaf.term(sh, assign)
    elif is_tag(v, "dref"):
        for k, x in sim.heap[v[1]].entries.items():
            for kk, sh in _shapes(leaf, x, assign).items():
                out[f"[{show(k)}]{kk}"] = sh
    return out


def _has_shared(sim, v):
    for x in subterms(v):
        if is_tag(x, "ref") and sim.heap[x[1]].kind == "raw":
            return True
        if is_tag(x, "dref") and any(_has_shared(sim, y) for y in sim.heap[x[1]].entries.values() if isinstance(y, tuple)):
            return True
    return False


def _drop(assign, atoms):
    return {k: v for k, v in assign.items() if k not in atoms}


def _empty_read(sim):
    return [o for o in sim.heap.values() if o.init == EMPTY and o.init_reads]


class _Collected:
    """what one comparison of the parallel with the serial paths of an entry function found (kept apart so that a comparison can be repeated on
    a normalised exploration and only one of the two is reported)"""

    def __init__(self):
        self.adds, self.undecided, self.errors, self.notes = [], set(), [], []

    def add(self, text, ok, node=None, detail=None, nontrivial=True):
        self.adds.append((text, ok, node, detail, nontrivial))

    def error(self, text, node=None, detail=None):
        self.errors.append((text, node, detail))

    def note(self, text):
        self.notes.append(text)

    def clean(self):
        return all(a[1] for a in self.adds) and not self.undecided and not self.errors

    def emit(self, ctx, ag, undecided):
        for a in self.adds:
            ag.add(*a)
        undecided |= self.undecided
        for e in self.errors:
            ctx.error(*e)
        for n in self.notes:
            ctx.note(n)

    def not_decided(self, why):
        """every failed comparison is reported as not decided (the exploration it comes from was not a complete one)"""
        for text, ok, node, detail, nt in self.adds:
            if not ok:
                self.undecided.add((text + ": not decided - " + why, node))
        self.adds = [a for a in self.adds if a[1]]


def _entry_leaves(world, rel, q):
    fn = world.func(rel, q)
    if fn is None:
        raise AnchorError(f"function {q} not found in {rel}")
    K = join_index(world, rel, fn)
    leaves = explore(world, rel, q, K)
    K2 = extend_join(fn, K, leaves)
    if K2 != K:
        K = K2
        leaves = explore(world, rel, q, K)
    if not leaves:
        raise Unsup(f"{q}: no live path")
    return fn, K, live_in(fn.body[K + 1:], set()), leaves


def _assume(sim, assign, c, val):
    """the decisions `assign` extended by "test c comes out as val"; None when that contradicts them"""
    out = dict(assign)

    def go(t, v):
        if is_tag(t, "bool"):
            if (t[1] == "And") == v:          # `a and b` true, `a or b` false: every part
                return all(go(x, v) for x in t[2:])
            return True                       # one of the parts: not expressed (the conditional stays merged)
        if is_tag(t, "not") and is_tag(t[1], "bool"):
            return go(t[1], not v)
        atom, pol = sim.norm_atom(t)
        if pol is None:
            return bool(atom) == v
        if is_tag(atom, "bool"):
            return go(atom, v if pol else not v)
        want = v if pol else not v
        saved, sim.assign = sim.assign, out
        try:
            k = sim.known(atom)
        finally:
            sim.assign = saved
        if k is not None:
            return k == want
        out[atom] = want
        return True

    if not go(c, val) or not consistent(out):
        return None
    # decisions made on values that were merged: what they say once the merged value is known
    saved, sim.assign = sim.assign, out
    try:
        for a, v in list(out.items()):
            if any(is_tag(x, "phi") for x in subterms(a)):
                r = sim.resolve(a)
                if r != a:
                    k = sim.try_decided(r[1]) if is_tag(r, "truth") else sim.try_decided(r)
                    if k is not None and k != v:
                        return None
    finally:
        sim.assign = saved
    return out


def _judge(p, s, rp, rs, up, us, depth=0):
    """compare what the parallel path p and the serial path s leave in one variable -> ("equal" | "definite" | "open", detail).
    Conditionals that are still merged where the trees differ are expanded first: both outcomes of the test, each under the decisions of the
    two paths.  A difference is definite only between trees that were followed completely."""
    vp, vs = p.term(rp, up), s.term(rs, us)
    tol = []
    if equal_mod_alloc(vp, vs, tol):
        if tol and (_empty_read(p.sim) or _empty_read(s.sim)):
            return "definite", {"parallel": "an array that is read before it is filled is allocated with " + show(tol[0][0]),
                                "serial": "allocated with " + show(tol[0][1])}
        return "equal", None
    # judged in the spelling in which a sequence unpacked into n targets is written out (X[0], ..., X[n-1]); when that leaves a starred sequence
    # against written-out arguments (`f(*X[::-1], y)`), in the starred spelling (the sequences themselves are compared)
    spellings = [(unstar(vp, p.sim, up), unstar(vs, s.sim, us))]
    if spellings[0] != (vp, vs):
        spellings.append((vp, vs))
    judged = []
    for a_, b_ in spellings:
        pairs = []
        diff_pairs(a_, b_, pairs)
        # what stands for the evaluator's representation on one side only of a differing pair (the same merged conditional / starred sequence at
        # the same place on both sides is not a difference)
        one_sided = [x for a, b in pairs if not rigid_difference(a, b) for x in soft_terms(a) ^ soft_terms(b)]
        judged.append((a_, b_, pairs, one_sided))
    vp, vs, pairs, one_sided = next((j for j in judged if not j[3]), judged[0])
    conds = []
    for x in one_sided:
        if is_tag(x, "phi") and x[1] not in conds:
            conds.append(x[1])
    _BUDGET[0] -= 1
    if conds and all(is_tag(x, "phi") for x in one_sided) and depth < 4 and _BUDGET[0] > 0:
        res = []
        for val in (True, False):
            up2, us2 = _assume(p.sim, up, conds[0], val), _assume(s.sim, us, conds[0], val)
            if up2 is None or us2 is None or (up2 == up and us2 == us):
                continue
            res.append(_judge(p, s, rp, rs, up2, us2, depth + 1))
        if res:
            if all(r[0] == "equal" for r in res):
                return "equal", None
            return next((r for r in res if r[0] == "definite"), next(r for r in res if r[0] != "equal"))
    left = sorted(set(unfollowed(vp) + unfollowed(vs) + [f for a in list(up) + list(us) for f in unfollowed(a)]) -
                  set(getattr(p.sim.world, "keep_opaque", ())))
    if left:
        return "open", "the helper(s) " + ", ".join(left) + " were not followed where the trees differ or in the conditions of the paths"
    if one_sided:
        return "open", "the trees differ in a merged conditional, a starred sequence or a value the evaluator does not know: " + \
            str(diff_text(vp, vs))[:600]
    return "definite", diff_text(vp, vs)


_BUDGET = [0]


def _compare_entry(world, q, rel, fn, K, live, leaves):
    """C09-R5 for one entry function, on one exploration of it"""
    out = _Collected()
    ag = out
    undecided = out.undecided
    _BUDGET[0] = 300          # expansions of merged conditionals in differing trees
    P = [lf for lf in leaves if lf.parallel]
    S = [lf for lf in leaves if not lf.parallel]
    if not P or not S:
        raise AnchorError(f"{q}: parallel and serial paths ({len(P)} / {len(S)})")
    # the tests that tell the parallel mode from the serial mode: decided on every path, one way on all parallel paths, the other way on all
    # serial paths
    mode = mode_atoms(leaves)
    if not mode:
        raise Unsup(f"{q}: no single test separates the parallel paths from the serial paths")
    for p in P:
        ws = "/".join(sorted({wname(L) for L in p.sim.launches})) or "in-process tasks"
        if any(multi_index(p.sim, L) for L in p.sim.launches):
            undecided.add((f"{q}: the tasks {ws} own several indices each in a way the analysis does not recognise as consecutive blocks of one "
                           "edge sequence: what they compute together is not compared with the serial loop", fn))
            continue
        if not consistent(p.assign):
            continue          # the tests decided on this path contradict each other: no input takes it
        partners = [s for s in S if compatible(_drop(p.assign, mode), _drop(s.assign, mode))]
        if not partners:
            out.error(f"{q}: no serial path runs under the conditions of the parallel path with {ws}", fn,
                      [f"{show(a)[:80]} = {v}" for a, v in p.sim.decisions][:12])
            continue
        for s in partners:
            union = _drop(s.assign, mode)
            union.update(_drop(p.assign, mode))
            up, us = dict(union), dict(union)
            up.update({k: v for k, v in p.assign.items() if k in mode})
            us.update({k: v for k, v in s.assign.items() if k in mode})
            if (p.ret is None) != (s.ret is None):
                ag.add(f"{q}: the parallel path with {ws} and the serial path leave the function at the same place", False, fn)
                continue
            ub_p = {(f_, n_) for c, nd, n_, f_ in p.sim.unbound_locals}
            ub_s = {(f_, n_) for c, nd, n_, f_ in s.sim.unbound_locals}
            for f_, n_ in sorted(ub_p ^ ub_s):
                nd = next(nd for c, nd, n2, f2 in p.sim.unbound_locals + s.sim.unbound_locals if (f2, n2) == (f_, n_))
                ag.add(f"{f_}: local `{n_}` is bound before it is read", False, nd,
                       "read before assignment on the " + ("parallel" if (f_, n_) in ub_p else "serial") + " path only: UnboundLocalError there")
            if ub_p & ub_s:
                raise Unsup(f"{q}: local {sorted(ub_p & ub_s)[0][1]} is read before it is bound on the parallel and on the serial path")
            names = ["<return value>"] if p.ret is not None else sorted(live)
            other_ok = True
            for n in names:
                if n == "<return value>":
                    rp, rs = p.ret, s.ret
                else:
                    rp, rs = p.fr.locals.get(n), s.fr.locals.get(n)
                if rp is None and rs is None:
                    continue
                if rp is None or rs is None:
                    if n in world.mods[rel].imports or n in world.mods[rel].funcs:
                        continue
                    # judged on the path that lacks the binding: does the code after the split read the name there before it rebinds it?
                    lack = p if rp is None else s
                    use = first_use(fn.body[K + 1:], n, lambda t, lf=lack, a=(up if rp is None else us): tail_test(lf, t, a, fn.body[K + 1:]))
                    txt = f"{q}: `{n}`, which the code after the parallel/serial split reads, is bound on the paths on which it is read [{ws}]"
                    if use == READ:
                        ag.add(txt, False, fn, "unbound on the " + ("parallel" if rp is None else "serial") + " path, where the code after the "
                               "split reads it before any assignment: NameError / UnboundLocalError there")
                    elif use == MAYREAD:
                        undecided.add((txt + ": unbound on the " + ("parallel" if rp is None else "serial") + " path, where a read that depends "
                                       "on tests the analysis does not decide may come first", fn))
                    continue
                shp_p, shp_s = _shapes(p, rp, up), _shapes(s, rs, us)
                for k in sorted(set(shp_p) & set(shp_s)):
                    ok = shp_p[k] == shp_s[k]
                    ag.add(f"{q}: `{n}{k}` has the same shape after the parallel arm ({ws}) and after the serial arm", ok,
                           p.sim.launches[0].node if p.sim.launches else fn,
                           None if ok else {"parallel": show(shp_p[k])[:300], "serial": show(shp_s[k])[:300]})
                vp, vs = p.term(rp, up), s.term(rs, us)
                if any(is_tag(x, "poison") for x in subterms(vp)) or any(is_tag(x, "poison") for x in subterms(vs)):
                    raise Unsup(f"{q}: `{n}` is read after the split but is a loop-local of one arm")
                verdict, why = _judge(p, s, rp, rs, up, us)
                key_obj = _has_shared(p.sim, rp)
                if key_obj:
                    txt = (f"{q}: `{n}` computed by the tasks {ws} (under the bindings made by initializer/initargs) is the expression tree the "
                           "serial loop computes => bit-identical")
                    nd = p.sim.launches[0].node if p.sim.launches else fn
                else:
                    txt, nd = f"{q}: local `{n}` has the same value after the parallel arm ({ws}) and after the serial arm", fn
                if verdict == "equal":
                    if key_obj:
                        ag.add(txt, True, nd)
                elif verdict == "definite":
                    other_ok = other_ok and key_obj
                    ag.add(txt, False, nd, why)
                else:
                    # the trees differ, but not both were followed completely: no verdict
                    other_ok = other_ok and key_obj
                    undecided.add((txt + ": not decided - " + str(why), nd))
            ag.add(f"{q}: the other locals read after the split agree between the parallel arm ({ws}) and the serial arm", other_ok, fn,
                   nontrivial=False)
            # iteration space
            for L in p.sim.launches:
                loops = [lfm for lfm, st, c in s.sim.loops if c[0] == "parent" and lfm.count is not None
                         and any(lfm.fid in e.frames for e in s.sim.events)]
                outer = [l for l in loops if not any(l2.fid != l.fid and any(l2.fid in e.frames and l.fid in e.frames and
                                                                          e.frames.index(l2.fid) < e.frames.index(l.fid) for e in s.sim.events)
                                                      for l2 in loops)]
                for lo in outer:
                    a, b = p.term(L.count, up) if L.count is not None else None, s.term(lo.count, us)
                    if a is None:
                        continue
                    if L.block is not None:
                        B = L.block
                        f0, fn_, exp = p.term(B.F0, up), (None if B.Fn is None else p.term(B.Fn, up)), bnorm(b)
                        t0 = f"{q}: the first block of {wname(L)} starts at index 0"
                        t1 = f"{q}: the last block of {wname(L)} ends exactly at the number of indices of the serial loop"
                        if f0 == ("c", "int", 0):
                            ag.add(t0, True, L.node)
                        elif is_const(f0):
                            ag.add(t0, False, L.node, show(f0))
                        else:
                            undecided.add((t0 + f": not decided, F(0) = {show(f0)[:200]}", L.node))
                        if fn_ is not None and fn_ == exp and f0 == ("c", "int", 0):
                            ag.add(t1, True, L.node)
                        elif fn_ is not None and fragile(fn_, exp, B.facts):
                            ag.add(t1, False, L.node, fragile(fn_, exp, B.facts))
                        else:
                            undecided.add((t1 + f": not decided, F(number of tasks) = {show(fn_)[:200] if fn_ is not None else '?'}, "
                                                f"serial loop: {show(exp)[:80]}", L.node))
                        continue
                    if a == b:
                        ag.add(f"{q}: the tasks of {wname(L)} and the serial loop run over the same index range", True, L.node)
                    elif comparable_diff(a, b):
                        ag.add(f"{q}: the tasks of {wname(L)} and the serial loop run over the same index range", False, L.node,
                               {"tasks": show(a)[:200], "serial": show(b)[:200]})
                    else:
                        out.note(f"{q}: task range {show(a)[:60]} and serial range {show(b)[:60]} not compared")
    return out


def r5_serial_equals_worker(ctx):
    an = analysis(ctx)
    ag = Agg(ctx)
    undecided = set()
    for q, (rel, fn, K, live, leaves) in an.entries.items():
        res = _compare_entry(an.world, q, rel, fn, K, live, leaves)
        if not res.clean():
            # something differs (or is not decided) in the quick exploration, where helpers that only compute were left as terms in the parent
            # while the tasks followed them: the comparison is repeated on an exploration that follows every helper on both sides (so that
            # facts hidden in them - a table lookup that raises for other keys, an early return - belong to the paths); only that one counts
            try:
                w2 = World(ctx, [SRS, FDE])
                w2.inline_all = True
                # ... except the function whose result selects the mode: the comparison is between what the two modes compute for the same
                # inputs otherwise, so the selector stays the one symbol both sides share (what it reports - `parallel`, `ncpu` - differs
                # between the modes by design)
                w2.keep_opaque = {f for a in mode_atoms(leaves) for f in selector_functions(a)}
                fn2, K2, live2, leaves2 = _entry_leaves(w2, rel, q)
                res = _compare_entry(w2, q, rel, fn2, K2, live2, leaves2)
            except (Unsup, AnchorError, RecursionError) as e:
                res.not_decided(f"the exploration that follows every helper could not be made ({e})")
        res.emit(ctx, ag, undecided)
    ag.flush()
    for text, node in sorted(undecided, key=lambda x: x[0]):
        ctx.error(text, node, "undecided")
    ctx.assume("scipy.signal.lfilter, numpy reductions and the repo's pure helpers are deterministic functions of their arguments")
    ctx.assume("user-supplied peak/rolloff callables and the coefficient routines picked from the srs tables are pure")
    ctx.assume("the value copied into a float64 shared buffer is the value the serial path hands to lfilter (inputs are real; float64 conversion is exact for them)")
    ctx.assume("x += y, np.add(x, y, out=x) and x = x + y produce the same float64 array content")
    ctx.assume("A[s] = [e_0, ..., e_n-1] (a list of scalars as long as A[s]) stores what the loop A[s][k] = e_k stores; x.max() and numpy.max(x) are one "
               "computation; arguments equal to the documented default of a library routine may be left out")
    ctx.assume("a sequence unpacked into n targets has n elements (otherwise the unpacking raises): f(*X, y) and `a, b = X; f(a, b, y)` are one call; "
               "X.ravel() written through the flat view of a buffer is X written through the view shaped X.shape (C order); X[0:] holds what X holds")


# ------------------------------------------------------------------------------------------------------------------- R6
def r6_every_task_runs(ctx):
    """every task handed to the pool is really run: the chunking argument of map / starmap (a chunk size of 0 makes Pool.map return at once without
    running anything) and of imap / imap_unordered / Executor.map (a chunk size below 1 raises ValueError) is absent, None, or at least 1 in every
    world in which the call is reached with at least one task (verifier/c09_chunks.py: finite world evaluation, callee paths expanded)"""
    an = analysis(ctx)
    ag = Agg(ctx)
    undecided = set()
    for q, lf, L in launches(an):
        w = wname(L)
        how = getattr(L, "how", None) or "map"
        chunk = getattr(L, "chunk", None)
        if chunk is None or chunk == NONE:
            ag.add(f"{q}: pool.{how} that runs {w} leaves the chunk size to the pool (every task is handed out)", True, L.node)
            continue
        txt = (f"{q}: the chunk size handed to pool.{how} that runs {w} is at least 1 wherever the call is reached with at least one task "
               "(checked on a grid of small worlds: integers up to 8, None, both outcomes of opaque tests; callee paths expanded)")
        cnt = getattr(L, "ntasks", None) if L.block is not None else L.count
        terms = {"chunk": lf.term(chunk)}
        if cnt is not None:
            terms["count"] = lf.term(cnt)
        conds = [(lf.sim.resolve(a), v) for a, v in lf.assign.items()]
        cases = expand_calls(an.world, explore, terms, conds)
        if cases is None:
            undecided.add((txt + ": a function called on the way to the chunk size could not be followed", L.node))
            continue
        effect = ("Pool.%s cuts the task list into batches of that size: with 0 there is no batch, the call returns at once and not a single task "
                  "has run - the parent reads the untouched shared buffers" % how) if how in ("map", "starmap", "map_async") else \
                 ("pool.%s raises ValueError for a chunk size below 1: the parallel mode fails where the serial loop computes" % how)
        verdicts = [(search(t["chunk"], t.get("count"), cs), desc) for t, cs, desc in cases]
        wit = [(v, d) for v, d in verdicts if v[0] == "witness"]
        und = [(v, d) for v, d in verdicts if v[0] == "undecided"]
        if wit:
            ag.add(txt, False, L.node, {"chunk size": show(lf.term(chunk))[:200], "world": wit[0][0][1], "path": wit[0][1], "effect": effect})
        elif und and not any(v[0] == "ok" for v, _ in verdicts):
            undecided.add((txt + f": not decided ({und[0][0][1]})", L.node))
        elif und:
            # some callee paths could not be evaluated, the others are fine: say so
            undecided.add((txt + f": not decided on the path {'; '.join(und[0][1])[:200]} ({und[0][0][1]})", L.node))
        else:
            ag.add(txt, True, L.node)
    ag.flush()
    for text, node in sorted(undecided, key=lambda x: x[0]):
        ctx.error(text, node, "undecided")


RULES = [
    ("C09-R1", r1_disjoint_writes, 16),
    ("C09-R2", r2_readonly, 8),
    ("C09-R3", r3_no_other_channel, 14),
    ("C09-R4", r4_lifecycle, 30),
    ("C09-R4b", r4b_shared_buffer_io, 8),
    ("C09-R5", r5_serial_equals_worker, 14),
    ("C09-R6", r6_every_task_runs, 2),
]
LEVEL = "proof"
TRUSTED = ["CPython ast", "verifier/c09_sim.py exact symbolic execution (heap of array objects, views, helper calls followed, pool = fork + initializer + one symbolic task)",
           "purity of library namespaces numpy/scipy/itertools/builtins without out= (scipy.signal.lfilter, numpy reductions, cyclecount.findap/rainflow)",
           "IEEE determinism of the listed library calls", "multiprocessing delivers each task exactly once",
           "library facts used to identify spellings (verifier/c09_sim.py SIGS / ALIASES / ND_METHODS): documented parameter order and defaults of "
           "scipy.signal.lfilter and the numpy reductions, x.max() == numpy.max(x) for arrays, float / 'f8' / numpy.float64 name one dtype, "
           "numpy.linspace returns its end points exactly",
           "verifier/c09_blocks.py index algebra for tasks that own a block of indices: integer + - * // are exact, a true division is rounded, "
           "int()/floor/ceil of a rounded value is never assumed to hit the intended integer",
           "verifier/c09_facts.py: decisions on one subject (X == c, X in (...), X is None, bool(X), values merged over such tests) are read together by "
           "evaluating them for every constant they mention, None and one other value; D[X] on a literal table raises KeyError for other keys",
           "CPython multiprocessing: Pool.map / starmap with chunksize <= 0 return without running a task, imap / imap_unordered / Executor.map raise "
           "ValueError for chunksize < 1 (verifier/c09_chunks.py evaluates the chunk size on a finite grid of worlds with Python integer arithmetic)"]
EXPLANATION = ("Bernstein's conditions proved from the source for every schedule and worker count: each task touches written shared arrays only at "
               "its own task index on one fixed axis, never mutates read-only inputs or views of them (through helpers, views and out= alike), has no "
               "other output channel, results of the pool iterator reach nothing; the pool lifecycle orders parent writes before and reads after, and "
               "every process global a task reads is bound by the initializer of the same launch; and for every pair of a parallel and a serial path "
               "under the same conditions the content of every array read afterwards is the same exact expression tree; and no pool call is "
               "handed a chunk size below 1 in a world that reaches it with at least one task.")
MANIFEST = {
    "text": "Proved statically for every worker count and completion order (under the stated determinism assumptions): tasks commute (disjoint writes by task index, "
            "read-only inputs, no other channel, results discarded) and each parallel task computes exactly the expression DAG of the serial iteration "
            "(5 worker/loop pairs in srs.py and fdepsd.py), with pool lifecycle ordering. Hence parallel output == serial output bit for bit.",
    "note": "Assumes: scipy.signal.lfilter / numpy reductions / repo pure helpers are deterministic; inputs real; user peak/rolloff callables pure; "
            "multiprocessing runs each task exactly once.",
    "technique": "exact symbolic execution of parent, initializer and one symbolic task over a heap of array objects (effects, aliases, views, helper calls, "
                 "process globals), Bernstein conditions on the recorded accesses, equality of content terms between parallel and serial paths",
}
