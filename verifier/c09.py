"""C09 -- parallel == serial, bit for bit (Bernstein conditions + worker/serial expression identity)."""
from __future__ import annotations

import ast
import copy

from .core import AnchorError, Unsupported
from .e1_srcmodel import dotted, walk_no_nested, parent, enclosing_stmt, utext

SRS = "pyyeti/srs.py"
FDE = "pyyeti/fdepsd.py"

WORKERS = [(SRS, "_dosrs_nohist"), (SRS, "_dosrs"), (SRS, "_dosrs_nohist_ic"), (SRS, "_dosrs_ic"), (FDE, "_dofde")]

# library / repo callables whose result is a fresh object and which do not mutate their array arguments
PURE_CALLS = {
    "signal.lfilter": "scipy.signal.lfilter returns a new array (no `zi`/out argument is passed)",
    "np.var": "reduction", "np.sum": "reduction", "abs": "elementwise, new array", "np.abs": "elementwise, new array",
    "cyclecount.findap": "repo: reads its argument, returns indices", "cyclecount.rainflow": "repo: reads its argument, returns a new table",
    "print": "stdout only; not an output of the computation", "range": "", "len": "",
}


def module_globals(ctx, rel):
    """names assigned at module level to None and rebound by an initializer through `global`"""
    m = ctx.src.mod(rel)
    g = set()
    for st in m.tree.body:
        if isinstance(st, ast.Assign) and isinstance(st.value, ast.Constant) and st.value.value is None:
            for t in st.targets:
                if isinstance(t, ast.Name):
                    g.add(t.id)
    return g


def task_index(fn):
    """(j, rest) = args  -> name of the task index, list of other unpacked names"""
    for st in fn.body:
        if isinstance(st, ast.Assign) and isinstance(st.value, ast.Name) and st.value.id == fn.args.args[0].arg \
                and isinstance(st.targets[0], ast.Tuple):
            t = st.targets[0]
            if isinstance(t.elts[0], ast.Name):
                rest = [n.id for n in ast.walk(t) if isinstance(n, ast.Name)][1:]
                return t.elts[0].id, rest, st
    raise AnchorError(f"{fn.name}: `(j, (...)) = args` unpacking not found")


def _index_elts(sub):
    s = sub.slice
    return list(s.elts) if isinstance(s, ast.Tuple) else [s]


def _is_store(sub):
    p = parent(sub)
    if isinstance(sub.ctx, ast.Store):
        return True
    if isinstance(p, ast.AugAssign) and p.target is sub:
        return True
    return False


def global_accesses(fn, gnames):
    """list of (global, node, kind) kind in {'sub-load','sub-store','shape','bare'}"""
    out = []
    local_assigned = {n.id for n in ast.walk(fn) if isinstance(n, ast.Name) and isinstance(n.ctx, ast.Store)}
    for n in ast.walk(fn):
        if isinstance(n, ast.Name) and n.id in gnames and n.id not in local_assigned:
            p = parent(n)
            if isinstance(p, ast.Subscript) and p.value is n:
                out.append((n.id, p, "sub-store" if _is_store(p) else "sub-load"))
            elif isinstance(p, ast.Attribute) and p.attr == "shape":
                out.append((n.id, p, "shape"))
            else:
                out.append((n.id, n, "bare"))
    return out


def r1_disjoint_writes(ctx):
    written = {}   # global -> set of axis positions of j over all accesses
    acc_all = []
    for rel, q in WORKERS:
        fn = ctx.src.func(rel, q)
        g = module_globals(ctx, rel)
        j, rest, ust = task_index(fn)
        # j never reassigned
        stores = [n for n in ast.walk(fn) if isinstance(n, ast.Name) and n.id == j and isinstance(n.ctx, ast.Store)]
        ctx.check(len(stores) == 1, f"{q}: the task index `{j}` is bound once (from args) and never reassigned", fn)
        for gname, node, kind in global_accesses(fn, g):
            acc_all.append((rel, q, fn, j, gname, node, kind))
    wr = {(rel, gname) for rel, q, fn, j, gname, node, kind in acc_all if kind == "sub-store"}
    for rel, q, fn, j, gname, node, kind in acc_all:
        if (rel, gname) not in wr:
            continue
        if kind == "shape":
            ctx.ok(f"{q}: `{ast.unparse(node)}` reads only the shape of written array {gname}", node, nontrivial=False)
            continue
        if kind == "bare":
            ctx.fail(f"{q}: written shared array {gname} is used whole (not through the task index)", node, ast.unparse(enclosing_stmt(node)))
            continue
        elts = _index_elts(node)
        pos = [i for i, e in enumerate(elts) if isinstance(e, ast.Name) and e.id == j]
        ok = len(pos) == 1
        ctx.check(ok, f"{q}: access `{ast.unparse(node)}` ({'store' if kind == 'sub-store' else 'load'}) to written shared array "
                      f"{gname} carries the task index `{j}`", node)
        if ok:
            # axis position counted from the front, with full-slice prefix allowed: HIST_[:, :, j]
            written.setdefault((rel, gname), set()).add((pos[0], len(elts)))
    for (rel, gname), axes in sorted(written.items()):
        ax = {a for a, n in axes}
        ok = len(ax) == 1
        ctx.check(ok, f"{gname}: the task index is always on the same axis ({sorted(ax)}) -> tasks touch disjoint slices", rel + ":1",
                  None if ok else sorted(axes))
    # the task-index axis is the axis of length LF in the parent's allocation
    shapes = {}
    for rel, q in ((SRS, "srs"), (FDE, "fdepsd")):
        pfn = ctx.src.func(rel, q)
        for st in walk_no_nested(pfn):
            if isinstance(st, ast.Assign) and isinstance(st.targets[0], ast.Name) and isinstance(st.value, ast.Tuple) \
                    and len(st.value.elts) == 2 and isinstance(st.value.elts[0], ast.Call) \
                    and (dotted(st.value.elts[0].func) or "").endswith("createSharedArray") and isinstance(st.value.elts[1], ast.Tuple):
                dims = [ast.unparse(e) for e in st.value.elts[1].elts]
                shapes.setdefault((rel, st.targets[0].id.lower()), set()).add(tuple(dims))
    for (rel, gname), axes in sorted(written.items()):
        key = (rel, gname.rstrip("_").lower())
        shp = shapes.get(key)
        if not shp:
            ctx.error(f"{gname}: allocation shape in the parent", rel + ":1", sorted(shapes))
            continue
        for dims in shp:
            for a, n in axes:
                ok = n <= len(dims) and dims[a] == "LF"
                ctx.check(ok, f"{gname}: the task index sits on the axis of length LF of the parent's allocation {dims}", rel + ":1",
                          None if ok else {"axis": a, "dims": dims})
    ctx.check(len(written) >= 5, "written shared arrays bound: SRSmax_, HIST_, ASV_, BinAmps_, Count_", SRS + ":1",
              sorted(g for _, g in written), nontrivial=False)


def _aliases(fn, roots):
    """local names that may alias (be a view of) one of `roots` -- transitive closure over simple assignments"""
    VIEW_ATTRS = {"T", "real", "imag", "flat"}
    VIEW_METHODS = {"reshape", "ravel", "view", "transpose", "squeeze", "swapaxes"}
    al = set(roots)
    changed = True
    while changed:
        changed = False
        for st in ast.walk(fn):
            if isinstance(st, ast.Assign) and len(st.targets) == 1 and isinstance(st.targets[0], ast.Name):
                v = st.value
                base = None
                if isinstance(v, ast.Name):
                    base = v.id
                elif isinstance(v, ast.Subscript) and isinstance(v.value, ast.Name):
                    # basic slicing gives a view; indexing with a scalar task index on a 1-d array gives a scalar, which
                    # cannot be mutated in place -- both treated as alias (conservative)
                    base = v.value.id
                elif isinstance(v, ast.Attribute) and isinstance(v.value, ast.Name) and v.attr in VIEW_ATTRS:
                    base = v.value.id
                elif isinstance(v, ast.Call) and isinstance(v.func, ast.Attribute) and isinstance(v.func.value, ast.Name) \
                        and v.func.attr in VIEW_METHODS:
                    base = v.func.value.id
                if base in al and st.targets[0].id not in al:
                    al.add(st.targets[0].id)
                    changed = True
    return al


def r2_readonly(ctx):
    for rel, q in WORKERS:
        fn = ctx.src.func(rel, q)
        g = module_globals(ctx, rel)
        acc = global_accesses(fn, g)
        wr = {gname for gname, node, kind in acc if kind == "sub-store"}
        ro = {gname for gname, node, kind in acc} - wr
        al = _aliases(fn, ro)
        n = 0
        for node in ast.walk(fn):
            tgt = None
            if isinstance(node, ast.AugAssign):
                tgt = node.target
            elif isinstance(node, ast.Assign):
                for t in node.targets:
                    if isinstance(t, ast.Subscript):
                        tgt = t
            elif isinstance(node, ast.Call):
                for kw in node.keywords:
                    if kw.arg == "out":
                        tgt = kw.value
                if isinstance(node.func, ast.Attribute) and node.func.attr in ("sort", "fill", "resize", "itemset", "put", "partition") \
                        and isinstance(node.func.value, ast.Name):
                    tgt = node.func.value
            if tgt is None:
                continue
            base = tgt
            while isinstance(base, (ast.Subscript, ast.Attribute)):
                base = base.value
            if not isinstance(base, ast.Name):
                continue
            n += 1
            bad = base.id in al
            # an in-place op on a local is fine when that local was bound to a fresh object
            ctx.check(not bad, f"{q}: in-place operation `{ast.unparse(node)[:60]}` does not touch a read-only shared input "
                               f"({', '.join(sorted(ro))}) or a view of one", node,
                      None if not bad else {"aliases": sorted(al)})
        # shared inputs handed to callees: only to functions known not to mutate them
        for node in ast.walk(fn):
            if isinstance(node, ast.Call):
                d = dotted(node.func)
                args = list(node.args) + [k.value for k in node.keywords]
                for a in args:
                    if isinstance(a, ast.Name) and a.id in al:
                        ok = d in PURE_CALLS
                        ctx.check(ok, f"{q}: shared input `{a.id}` is passed whole only to a non-mutating callee (`{d}`)", node)
        # fresh-ness of the array that does get mutated: resphist = signal.lfilter(...)
        for node in ast.walk(fn):
            if isinstance(node, ast.AugAssign) and isinstance(node.target, ast.Name):
                nm = node.target.id
                defs = [s for s in ast.walk(fn) if isinstance(s, ast.Assign) and any(isinstance(t, ast.Name) and t.id == nm for t in s.targets)]
                ok = bool(defs) and all(isinstance(s.value, ast.Call) and dotted(s.value.func) in PURE_CALLS for s in defs)
                ctx.check(ok, f"{q}: `{nm}` mutated by `{ast.unparse(node)[:50]}` is a fresh result of a library call", node)


def r3_no_other_channel(ctx):
    for rel, q in WORKERS:
        fn = ctx.src.func(rel, q)
        g = module_globals(ctx, rel)
        ok = not any(isinstance(n, (ast.Global, ast.Nonlocal)) for n in ast.walk(fn))
        ctx.check(ok, f"{q}: declares no global/nonlocal (cannot rebind module state)", fn)
        bad = []
        for n in ast.walk(fn):
            if isinstance(n, ast.Call):
                d = dotted(n.func) or ""
                if d in ("open",) or d.endswith(".write") or d.endswith(".save") or d.endswith(".dump") or d.startswith("os."):
                    bad.append(d)
            if isinstance(n, (ast.Attribute,)) and isinstance(n.ctx, ast.Store):
                bad.append("attribute store " + ast.unparse(n))
        ctx.check(not bad, f"{q}: writes no file and no object attribute", fn, bad)
        rets = [n for n in ast.walk(fn) if isinstance(n, ast.Return) and n.value is not None]
        ctx.check(not rets, f"{q}: returns nothing (results travel only through the shared arrays)", fn)
    # parent side: results of imap_unordered are discarded
    for rel, q in ((SRS, "srs"), (FDE, "fdepsd")):
        fn = ctx.src.func(rel, q)
        loops = [n for n in walk_no_nested(fn) if isinstance(n, ast.For) and isinstance(n.iter, ast.Call)
                 and isinstance(n.iter.func, ast.Attribute) and n.iter.func.attr.startswith("imap")]
        if not loops:
            raise AnchorError(f"{q}: pool.imap* loop not found")
        for lp in loops:
            ok = len(lp.body) == 1 and isinstance(lp.body[0], ast.Pass) and isinstance(lp.target, ast.Name)
            used = [n for n in ast.walk(fn) if isinstance(n, ast.Name) and n.id == lp.target.id and isinstance(n.ctx, ast.Load)] \
                if isinstance(lp.target, ast.Name) else [1]
            ctx.check(ok and not used, f"{q}: the values yielded by `{ast.unparse(lp.iter.func)}` are discarded "
                                       "(arrival order cannot reach any output)", lp)
            # task list is zip(range(LF), repeat(args, LF))
            a = lp.iter.args
            ok = len(a) == 2 and ast.unparse(a[1]).replace(" ", "") == "zip(range(LF),it.repeat(args,LF))"
            ctx.check(ok, f"{q}: one task per frequency index: zip(range(LF), repeat(args, LF))", lp)
    # ncpu flows only to processes=
    for rel, q in ((SRS, "srs"), (FDE, "fdepsd")):
        fn = ctx.src.func(rel, q)
        uses = [n for n in walk_no_nested(fn) if isinstance(n, ast.Name) and n.id == "ncpu" and isinstance(n.ctx, ast.Load)]
        ok = True
        for u in uses:
            p = parent(u)
            if isinstance(p, ast.keyword) and p.arg in ("processes", "ncpu"):
                continue
            ok = False
        ctx.check(ok and uses, f"{q}: the worker count reaches only `processes=` (and the reported ncpu)", fn,
                  [ast.unparse(parent(u)) for u in uses])


def _pool_sites(fn):
    out = []
    for n in walk_no_nested(fn):
        if isinstance(n, ast.With):
            for it in n.items:
                c = it.context_expr
                if isinstance(c, ast.Call) and dotted(c.func) == "mp.Pool":
                    out.append((n, c))
    return out


def r4_lifecycle(ctx):
    for rel, q in ((SRS, "srs"), (FDE, "fdepsd")):
        fn = ctx.src.func(rel, q)
        g = module_globals(ctx, rel)
        sites = _pool_sites(fn)
        if not sites:
            raise AnchorError(f"{q}: mp.Pool site not found")
        for w, call in sites:
            kw = {k.arg: k.value for k in call.keywords}
            init = kw.get("initializer")
            ia = kw.get("initargs")
            if not (isinstance(init, ast.Name) and isinstance(ia, ast.Name)):
                ctx.error(f"{q}: Pool(initializer=, initargs=) shape", call)
                continue
            ifn = ctx.src.func(rel, init.id)
            params = [a.arg for a in ifn.args.args]
            # globals bound by the initializer, in parameter order
            bound = {}
            for st in ast.walk(ifn):
                if isinstance(st, ast.Assign) and isinstance(st.targets[0], ast.Name) and st.targets[0].id in g:
                    src = [n.id for n in ast.walk(st.value) if isinstance(n, ast.Name) and n.id in params]
                    if src:
                        bound[st.targets[0].id] = src[0]
            # the gvars tuple reaching this site (same block, nearest preceding assignment)
            blk = _block_of(w)
            gv = None
            for st in blk[: blk.index(w)][::-1]:
                if isinstance(st, ast.Assign) and isinstance(st.targets[0], ast.Name) and st.targets[0].id == ia.id \
                        and isinstance(st.value, ast.Tuple):
                    gv = [ast.unparse(e) for e in st.value.elts]
                    break
            ok = gv is not None and len(gv) == len(params)
            ctx.check(ok, f"{q}: initargs `{ia.id}` has one entry per parameter of {init.id}", call, {"initargs": gv, "params": params})
            if not ok:
                continue
            # positional agreement by name: parameter `wn` <- WN, `sig` <- SIG, ...
            for p, a in zip(params, gv):
                okp = p.lower().replace("_", "") == a.lower().replace("_", "")
                ctx.check(okp, f"{q}: initializer parameter `{p}` receives `{a}`", call)
            # func used at this site and the globals it needs
            lp = [n for n in w.body if isinstance(n, ast.For)]
            fexpr = lp[0].iter.args[0] if lp else None
            fdefs = []
            if isinstance(fexpr, ast.Name):
                for st in blk[: blk.index(w)][::-1]:
                    if isinstance(st, ast.Assign) and isinstance(st.targets[0], ast.Name) and st.targets[0].id == fexpr.id:
                        v = st.value
                        if isinstance(v, ast.IfExp):
                            fdefs = [(v.body.id, ast.unparse(v.test), True), (v.orelse.id, ast.unparse(v.test), False)]
                        elif isinstance(v, ast.Name):
                            fdefs = [(v.id, None, None)]
                        break
            if not fdefs:
                ctx.error(f"{q}: worker function selection at the Pool site", w)
                continue
            for wname, test, branch in fdefs:
                wfn = ctx.src.func(rel, wname)
                used = {gname for gname, node, kind in global_accesses(wfn, g)}
                missing = used - set(bound)
                ctx.check(not missing, f"{q}: every shared global used by worker {wname} ({', '.join(sorted(used))}) is bound by "
                                       f"the initializer {init.id} registered at this Pool site", call, sorted(missing))
                if "HIST_" in used:
                    ok = test == "getresp" and branch is True
                    ctx.check(ok, f"{q}: the worker that stores histories ({wname}) is selected only when getresp "
                                  "(HIST_ is bound only then)", call)
            # parent-side ordering: writes to shared buffers before the pool, reads after
            pre = blk[: blk.index(w)]
            post = blk[blk.index(w) + 1:]
            for st in post:
                for n in ast.walk(st):
                    if isinstance(n, ast.Call) and dotted(n.func) in ("copyToSharedArray", "srs.copyToSharedArray", "createSharedArray",
                                                                      "srs.createSharedArray"):
                        ctx.fail(f"{q}: shared buffer created after the pool", n)
                    if isinstance(n, ast.AugAssign):
                        base = n.target
                        while isinstance(base, (ast.Subscript, ast.Attribute)):
                            base = base.value
                        if isinstance(base, ast.Name) and base.id in ("a",):
                            ctx.fail(f"{q}: parent writes a shared buffer after the pool started", n)
            reads_pre = [n for st in pre for n in ast.walk(st) if isinstance(n, ast.Call) and
                         dotted(n.func) in ("np.frombuffer", "_to_np_array") and
                         any(isinstance(x, ast.Name) and x.id in ("SRSmax", "HIST", "ASV", "Count") for x in ast.walk(n))]
            ctx.check(not reads_pre, f"{q}: result buffers are read (np.frombuffer) only after the pool block", w,
                      [ast.unparse(r) for r in reads_pre])
            reads_post = [n for st in post for n in ast.walk(st) if isinstance(n, ast.Call) and
                          dotted(n.func) in ("np.frombuffer", "_to_np_array")]
            ctx.check(bool(reads_post), f"{q}: results are taken from the shared buffers after the `with` block has exhausted the iterator", w)
            # the iterator is exhausted inside the with
            ctx.check(bool(lp), f"{q}: the result iterator is consumed inside the `with mp.Pool` block", w)
            # the signal copied to shared memory is the one the serial loop uses
            sigdef = [st for st in pre if isinstance(st, ast.Assign) and isinstance(st.targets[0], ast.Name) and st.targets[0].id == "SIG"]
            ok = bool(sigdef) and "copyToSharedArray(sig)" in ast.unparse(sigdef[-1].value) and \
                not any(isinstance(st, ast.Assign) and any(isinstance(t, ast.Name) and t.id == "sig" for t in st.targets)
                        for st in pre[pre.index(sigdef[-1]):])
            ctx.check(ok, f"{q}: SIG is a copy of the `sig` that reaches the serial loop (no rebinding in between)", w)


def r4b_shared_buffer_io(ctx):
    """the parent writes a shared RawArray through the same kind of numpy view the workers read it with (np.frombuffer, float64):
    a raw byte copy would reinterpret a non-float64 input"""
    fn = ctx.src.func(SRS, "copyToSharedArray")
    views = {}
    for st in walk_no_nested(fn):
        if isinstance(st, ast.Assign) and isinstance(st.targets[0], ast.Name):
            for c in ast.walk(st.value):
                if isinstance(c, ast.Call) and dotted(c.func) == "np.frombuffer" and c.args and isinstance(c.args[0], ast.Name):
                    dt = [k for k in c.keywords if k.arg == "dtype"] + list(c.args[1:2])
                    views[st.targets[0].id] = (c.args[0].id, ast.unparse(dt[0].value if isinstance(dt[0], ast.keyword) else dt[0]) if dt else None)
    stores = [st for st in walk_no_nested(fn) if isinstance(st, ast.Assign) and isinstance(st.targets[0], ast.Subscript)
              and isinstance(st.targets[0].value, ast.Name) and st.targets[0].value.id in views]
    ok = len(stores) == 1 and ast.unparse(stores[0].value) == fn.args.args[0].arg and views[stores[0].targets[0].value.id][1] in (None, "float", "np.float64")
    ctx.check(ok, "copyToSharedArray fills the shared buffer by assigning the input to a float64 np.frombuffer view (numpy converts the dtype)", fn,
              {"views": views, "stores": [ast.unparse(s) for s in stores]})
    raw = [ast.unparse(c.func) for c in ast.walk(fn) if isinstance(c, ast.Call) and (dotted(c.func) or "").split(".")[-1] in
           ("memmove", "memcpy", "memset", "from_buffer_copy", "tobytes", "frombytes")]
    ctx.check(not raw, "copyToSharedArray performs no raw byte copy into the shared buffer", fn, raw)
    ra = [c for c in ast.walk(fn) if isinstance(c, ast.Call) and dotted(c.func) == "mp.RawArray"]
    ok = len(ra) == 1 and ast.unparse(ra[0].args[0]) == "ctype" and ast.unparse(ra[0].args[1]).replace(" ", "") == "arr.size"
    dflt = fn.args.defaults
    ok = ok and len(dflt) == 1 and ast.unparse(dflt[0]) == "ctypes.c_double"
    ctx.check(ok, "copyToSharedArray allocates arr.size c_double elements", fn)
    # readers: every initializer view is np.frombuffer(x[0]).reshape(x[1]) with the default (float64) dtype
    for rel, q in ((SRS, "_mk_par_globals"), (SRS, "_mk_par_globals_ic"), (FDE, "_to_np_array")):
        f2 = ctx.src.func(rel, q)
        calls = [c for c in ast.walk(f2) if isinstance(c, ast.Call) and dotted(c.func) == "np.frombuffer"]
        ok = bool(calls) and all(len(c.args) == 1 and not c.keywords for c in calls)
        ctx.check(ok, f"{q}: shared buffers are read through default-dtype (float64) np.frombuffer views", f2)


def _block_of(st):
    p = parent(st)
    for fld in ("body", "orelse", "finalbody"):
        b = getattr(p, fld, None)
        if isinstance(b, list) and st in b:
            return b
    raise AnchorError("block of statement")


# ---------------------------------------------------------------------------
class _Subst(ast.NodeTransformer):
    def __init__(self, mp):
        self.mp = mp   # source text (normalised) -> replacement AST expr

    def generic_visit(self, node):
        if isinstance(node, ast.expr):
            key = ast.unparse(node)
            if key in self.mp:
                return copy.deepcopy(self.mp[key])
        return super().generic_visit(node)

    def visit(self, node):
        if isinstance(node, ast.expr):
            key = ast.unparse(node)
            if key in self.mp:
                return copy.deepcopy(self.mp[key])
        return super().visit(node)


def _subst(stmts, mp):
    mp2 = {k: ast.parse(v, mode="eval").body for k, v in mp.items()}
    out = []
    for s in stmts:
        s2 = _Subst(mp2).visit(copy.deepcopy(s))
        out.append(s2)
    return out


def _norm_stmts(stmts, drop_print=True):
    out = []
    for s in stmts:
        if drop_print and isinstance(s, ast.If) and all(
                isinstance(b, ast.Expr) and isinstance(b.value, ast.Call) and dotted(b.value.func) == "print" for b in s.body) \
                and not s.orelse:
            continue
        if isinstance(s, ast.Expr) and isinstance(s.value, ast.Constant):
            continue
        out.append(ast.unparse(s))
    return out


def r5_serial_equals_worker(ctx):
    # ---- srs: two serial loops (with / without initial-condition add-back)
    fn = ctx.src.func(SRS, "srs")
    loops = [n for n in walk_no_nested(fn) if isinstance(n, ast.For) and ast.unparse(n.iter).replace(" ", "") == "range(LF)"
             and isinstance(n.target, ast.Name)]
    serial = {}
    for lp in loops:
        has_ic = any("icvals" in ast.unparse(s) for s in lp.body)
        serial["ic" if has_ic else "noic"] = lp
    if set(serial) != {"ic", "noic"}:
        raise AnchorError("srs: the two serial frequency loops")
    # dT of the serial loop is 1/sr; the task tuple carries 1/sr in the same slot
    for key, lp in serial.items():
        blk = _block_of(lp)
        dts = [s for s in blk[: blk.index(lp)] if isinstance(s, ast.Assign) and ast.unparse(s.targets[0]) == "dT"]
        ok = bool(dts) and ast.unparse(dts[-1].value).replace(" ", "") == "1/sr"
        ctx.check(ok, f"srs serial loop ({key}): dT = 1/sr", lp)
    sites = _pool_sites(fn)
    for w, call in sites:
        blk = _block_of(w)
        argdef = [s for s in blk[: blk.index(w)] if isinstance(s, ast.Assign) and ast.unparse(s.targets[0]) == "args"]
        if not argdef:
            ctx.error("srs: task argument tuple", w)
            continue
        tup = [utext(e) for e in argdef[-1].value.elts]
        fdef = [s for s in blk[: blk.index(w)] if isinstance(s, ast.Assign) and ast.unparse(s.targets[0]) == "func"]
        names = [fdef[-1].value.body.id, fdef[-1].value.orelse.id]
        for wname in names:
            wfn = ctx.src.func(SRS, wname)
            j, rest, ust = task_index(wfn)
            # argument slots: worker unpack names <- tuple expressions
            ok = len(rest) == len(tup)
            ctx.check(ok, f"{wname}: unpacks as many task arguments as the parent packs", ust, {"unpacked": rest, "packed": tup})
            if not ok:
                continue
            env = dict(zip(rest, tup))
            key = "ic" if "stype" in rest else "noic"
            lp = serial[key]
            # parent-side meaning of every worker-local name, in the serial loop's vocabulary
            want = {"coeffunc": "coeffunc", "Q": "Q", "dT": "1/sr", "methfunc": "methfunc", "S": "S", "stype": "stype"}
            for nm in rest:
                ok = env[nm] == want.get(nm)
                ctx.check(ok, f"{wname}: task argument `{nm}` is `{env[nm]}` (the serial loop's {want.get(nm)})", ust)
            mp = {f"WN_[{j}]": f"wn[{lp.target.id}]", "SIG_": "sig", "ICVALS_": "icvals",
                  f"SRSmax_[{j}]": f"SRSmax[{lp.target.id}]", f"HIST_[:, :, {j}]": f"resp['hist'][:, :, {lp.target.id}]"}
            wbody = [s for s in wfn.body if s is not ust]
            wtxt = _norm_stmts(_subst(wbody, mp))
            sbody = list(lp.body)
            # serial: `if getresp: resp['hist'][..] = ...` ; the history worker is selected exactly when getresp
            stores_hist = "HIST_" in ast.unparse(wfn)
            sflat = []
            for s in sbody:
                if isinstance(s, ast.If) and ast.unparse(s.test) == "getresp" and not s.orelse:
                    if stores_hist:
                        sflat.extend(s.body)
                else:
                    sflat.append(s)
            stxt = _norm_stmts(sflat)
            ok = wtxt == stxt
            ctx.check(ok, f"{wname} computes exactly the serial loop body ({key}) under WN_=wn, SIG_=sig, ICVALS_=icvals, "
                          "SRSmax_=SRSmax, HIST_=resp['hist'] (identical expression trees => bit-identical results)", wfn,
                      None if ok else {"worker": wtxt, "serial": stxt})
    # ---- fdepsd
    fn = ctx.src.func(FDE, "fdepsd")
    lps = [n for n in walk_no_nested(fn) if isinstance(n, ast.For) and "enumerate(Wn)" in ast.unparse(n.iter)]
    if len(lps) != 1:
        raise AnchorError("fdepsd: serial loop `for j, wn in enumerate(Wn)`")
    lp = lps[0]
    jn, wn = [e.id for e in lp.target.elts]
    wfn = ctx.src.func(FDE, "_dofde")
    j, rest, ust = task_index(wfn)
    sites = _pool_sites(fn)
    w, call = sites[0]
    blk = _block_of(w)
    argdef = [s for s in blk[: blk.index(w)] if isinstance(s, ast.Assign) and ast.unparse(s.targets[0]) == "args"]
    tup = [utext(e) for e in argdef[-1].value.elts]
    ctx.check(rest == tup == ["coeffunc", "Q", "dT", "verbose"], "_dofde: task arguments are the parent's (coeffunc, Q, dT, verbose)", ust,
              {"unpacked": rest, "packed": tup})
    # bindings proved from the post-pool unpacking: ASV rows -> Amax / SRSmax / Var
    post = blk[blk.index(w) + 1:]
    rowmap = {}
    for s in post:
        if isinstance(s, ast.Assign) and isinstance(s.value, ast.Subscript) and ast.unparse(s.value.value) == "ASV" \
                and isinstance(s.value.slice, ast.Constant):
            rowmap[s.value.slice.value] = s.targets[0].id
    ok = rowmap == {0: "Amax", 1: "SRSmax", 2: "Var"}
    ctx.check(ok, "fdepsd: ASV rows 0,1,2 are unpacked as Amax, SRSmax, Var after the pool", w, rowmap)
    # shapes: BinAmps_ is (LF, nbins)
    shp = [s for s in blk[: blk.index(w)] if isinstance(s, ast.Assign) and ast.unparse(s.targets[0]) == "BinAmps"]
    ok = bool(shp) and ast.unparse(shp[-1].value).replace(" ", "") == "(srs.createSharedArray((LF,nbins)),(LF,nbins))"
    ctx.check(ok, "fdepsd: BinAmps_ has shape (LF, nbins) so BinAmps_.shape[1] == nbins", shp[-1] if shp else w)
    # initial content of the shared BinAmps equals the serial initial content
    pre_txt = [utext(s) for s in blk[: blk.index(w)]]
    ok = "a=_to_np_array(BinAmps)" in pre_txt and "a+=np.arange(nbins,dtype=float)/nbins" in pre_txt
    ser_blk = _block_of(lp)
    ser_txt = [utext(s) for s in ser_blk[: ser_blk.index(lp)]]
    ok2 = "BinAmps=np.zeros((LF,nbins))" in ser_txt and "BinAmps+=np.arange(nbins,dtype=float)/nbins" in ser_txt
    ctx.check(ok and ok2, "fdepsd: shared and serial BinAmps start from the same zeros + arange(nbins)/nbins", w)
    ok = any(t == "BinAmps=a" for t in [utext(s) for s in post])
    ctx.check(ok, "fdepsd: after the pool BinAmps is the shared view the workers scaled in place", w)
    mp = {f"WN_[{j}]": wn, "SIG_": "sig", f"ASV_[1, {j}]": f"SRSmax[{jn}]", f"ASV_[2, {j}]": f"Var[{jn}]",
          f"ASV_[0, {j}]": f"Amax[{jn}]", "BinAmps_.shape[1]": "nbins", "BinAmps_": "BinAmps", "Count_": "Count"}
    wbody = [s for s in wfn.body if s is not ust]
    wtxt = _norm_stmts(_subst(wbody, mp))
    stxt = _norm_stmts(list(lp.body))
    ok = wtxt == stxt
    ctx.check(ok, "_dofde computes exactly the serial loop body of fdepsd under WN_=Wn, SIG_=sig, ASV_=(Amax,SRSmax,Var), "
                  "BinAmps_=BinAmps, Count_=Count", wfn, None if ok else {"worker": wtxt, "serial": stxt})
    if jn != j:
        ctx.note(f"task index named {j} in worker and {jn} in the serial loop")
    ctx.assume("scipy.signal.lfilter, numpy reductions and the repo's pure helpers are deterministic functions of their arguments")
    ctx.assume("user-supplied peak/rolloff callables are pure")


RULES = [
    ("C09-R1", r1_disjoint_writes, 20),
    ("C09-R2", r2_readonly, 10),
    ("C09-R3", r3_no_other_channel, 20),
    ("C09-R4", r4_lifecycle, 30),
    ("C09-R4b", r4b_shared_buffer_io, 6),
    ("C09-R5", r5_serial_equals_worker, 20),
]
LEVEL = "proof"
TRUSTED = ["CPython ast", "verifier/c09.py effect/alias analysis", "purity table PURE_CALLS (scipy.signal.lfilter, numpy reductions, cyclecount.findap/rainflow)",
           "IEEE determinism of the listed library calls", "multiprocessing delivers each task exactly once"]
EXPLANATION = ("Bernstein's conditions proved from the source for every schedule and worker count: each worker touches written shared arrays only at "
               "its own task index on one fixed axis, never mutates read-only inputs or views of them, has no other output channel, results of "
               "imap_unordered are discarded; the pool lifecycle orders parent writes before and reads after; and every worker body is, under the "
               "binding established by initializer/initargs, the same expression tree as the serial loop body.")
MANIFEST = {
    "text": "Proved statically for every worker count and completion order (under the stated determinism assumptions): tasks commute (disjoint writes by task index, "
            "read-only inputs, no other channel, results discarded) and each parallel task computes exactly the expression DAG of the serial iteration "
            "(5 worker/loop pairs in srs.py and fdepsd.py), with pool lifecycle ordering. Hence parallel output == serial output bit for bit.",
    "note": "Assumes: scipy.signal.lfilter / numpy reductions / repo pure helpers are deterministic; inputs real; user peak/rolloff callables pure; "
            "multiprocessing runs each task exactly once.",
    "technique": "static effect/alias analysis (Bernstein conditions) + AST substitution equality between worker bodies and serial loop bodies",
}
