"""C09 engine, part 5: is every task of a pool call really run?  The chunking argument.

`Pool.map / starmap / map_async(func, tasks, chunksize=c)` with c <= 0 cuts the task list into *no* batches: the call returns at once without
having run a single task (CPython: `Pool._get_tasks` yields nothing for size 0, `MapResult` with chunksize <= 0 is born finished) and the parent
reads the untouched (zero) shared buffers.  `imap / imap_unordered` and `Executor.map` raise ValueError for c < 1: the parallel mode fails where
the serial loop computes.  Either way the parallel result is not the serial one.  So: wherever the pool call is reached with at least one task,
the chunk size is left out, None, or >= 1.

Decided by *finite world evaluation*: the chunk size, the number of tasks and the conditions of the path are terms over a few opaque scalars
(number of frequencies, cpu count, maxcpu, ...).  A call of a function of the analysed modules that the terms contain (`_process_parallel(...)[1]`)
is expanded: the function is explored path by path and each of its paths contributes its returned value and its own conditions.  The opaque
scalars are then given small concrete values (integers, None, the strings they are compared with, both truth values for opaque tests); terms
are evaluated with Python's integer arithmetic - values are touched only through + - * // % min max and comparisons.  A world that satisfies every
condition of the path, has at least one task and a chunk size below 1 is a *witness*: a definite violation, reported with the values.  No witness
in any world and a chunk size that evaluates everywhere: the obligation holds (on the worlds examined - a bounded check, the text says so).
Anything that cannot be evaluated (or conditions that tie the scalars together in a way this module does not see) is reported as undecided."""
from __future__ import annotations

import itertools

from .c09_terms import is_tag, is_const, subterms, tmap, show, NONE

INTS = (1, 2, 3, 5, 8)
MAXWORLDS = 60000


class Uneval(Exception):
    pass


_ARITH = {"Add": lambda a, b: a + b, "Sub": lambda a, b: a - b, "Mult": lambda a, b: a * b, "FloorDiv": lambda a, b: a // b, "Mod": lambda a, b: a % b,
          "Div": lambda a, b: a / b, "Pow": lambda a, b: a ** b}
_CMP = {"Eq": lambda a, b: a == b, "NotEq": lambda a, b: a != b, "Lt": lambda a, b: a < b, "LtE": lambda a, b: a <= b, "Gt": lambda a, b: a > b,
        "GtE": lambda a, b: a >= b, "Is": lambda a, b: a is b or (a == b and isinstance(a, (bool, type(None)))), "In": lambda a, b: a in b}
_CALLS = {"builtins.min": min, "builtins.max": max, "builtins.int": int, "builtins.abs": abs, "builtins.bool": bool, "builtins.round": round,
          "builtins.float": float, "builtins.divmod": divmod}


def _math(name):
    import math
    return {"math.ceil": math.ceil, "math.floor": math.floor, "numpy.ceil": math.ceil, "numpy.floor": math.floor, "math.trunc": math.trunc,
            "numpy.minimum": min, "numpy.maximum": max, "numpy.min": min, "numpy.max": max}.get(name)


def structural(t):
    """a term this module evaluates by its structure (everything else is an opaque scalar of the world)"""
    if is_const(t):
        return True
    if is_tag(t, "bin") and t[1] in _ARITH:
        return True
    if is_tag(t, "un") and t[1] in ("USub", "UAdd"):
        return True
    if is_tag(t, "not", "truth", "phi", "bool", "tuple", "list"):
        return True
    if is_tag(t, "cmp") and t[1] in ("Eq", "NotEq", "Lt", "LtE", "Gt", "GtE", "Is", "IsNot", "In", "NotIn"):
        return True
    if is_tag(t, "call") and is_tag(t[1], "ext") and not t[3] and (t[1][1] in _CALLS or _math(t[1][1]) is not None):
        return True
    if is_tag(t, "idx") and len(t[2]) == 1 and is_const(t[2][0]) and (is_tag(t[1], "tuple", "list", "phi") or
                                                                    (is_tag(t[1], "call") and structural(t[1]))):
        return True
    return False


def cev(t, env):
    """concrete value of a term in a world"""
    if t in env:
        return env[t]
    if is_const(t):
        return t[2]
    if is_tag(t, "unbound", "unboundlocal", "poison"):
        raise Uneval("a name that is not bound on this path")
    if not structural(t):
        raise Uneval(show(t)[:80])
    k = t[0]
    try:
        if k == "bin":
            a, b = cev(t[2], env), cev(t[3], env)
            if not all(isinstance(x, (int, float)) and not isinstance(x, bool) or isinstance(x, bool) for x in (a, b)):
                raise Uneval("arithmetic on a non-number")
            return _ARITH[t[1]](a, b)
        if k == "un":
            a = cev(t[2], env)
            return -a if t[1] == "USub" else +a
        if k == "not":
            return not cev(t[1], env)
        if k == "truth":
            return bool(cev(t[1], env))
        if k == "phi":
            return cev(t[2], env) if cev(t[1], env) else cev(t[3], env)
        if k == "bool":
            v = None
            for x in t[2:]:
                v = cev(x, env)
                if (t[1] == "And") != bool(v):
                    return v
            return v
        if k in ("tuple", "list"):
            return tuple(cev(x, env) for x in t[1:])
        if k == "cmp":
            op = t[1]
            a, b = cev(t[2], env), cev(t[3], env)
            neg = op in ("NotEq", "IsNot", "NotIn")
            base = {"NotEq": "Eq", "IsNot": "Is", "NotIn": "In"}.get(op, op)
            if base in ("Lt", "LtE", "Gt", "GtE") and (a is None or b is None or isinstance(a, str) != isinstance(b, str)):
                raise Uneval("ordering of None / mixed types")          # TypeError at run time: not a world
            r = _CMP[base](a, b)
            return (not r) if neg else r
        if k == "call":
            f = _CALLS.get(t[1][1]) or _math(t[1][1])
            return f(*[cev(x, env) for x in t[2]])
        if k == "idx":
            return cev(t[1], env)[t[2][0][2]]
    except Uneval:
        raise
    except Exception as e:  # noqa - ZeroDivisionError, TypeError ...: the expression raises in this world
        raise Uneval(f"{type(e).__name__}")
    raise Uneval(show(t)[:80])


def leaves(t, out, ctxs, ctx="val"):
    """opaque scalars of a term with the contexts they are used in (int: arithmetic / ordering; str:<constants>; none; truth)"""
    if is_const(t) or is_tag(t, "unbound", "unboundlocal", "poison"):
        return
    if not structural(t):
        out.setdefault(t, set()).add(ctx)
        return
    k = t[0]
    if k in ("bin", "un"):
        for x in t[2:]:
            leaves(x, out, ctxs, "int")
    elif k in ("not", "truth"):
        leaves(t[1], out, ctxs, "truth")
    elif k == "phi":
        leaves(t[1], out, ctxs, "truth")
        leaves(t[2], out, ctxs, ctx)
        leaves(t[3], out, ctxs, ctx)
    elif k == "bool":
        for x in t[2:]:
            leaves(x, out, ctxs, "truth" if ctx in ("truth", "val") else ctx)
    elif k in ("tuple", "list"):
        for x in t[1:]:
            leaves(x, out, ctxs, ctx)
    elif k == "cmp":
        a, b = t[2], t[3]
        if t[1] in ("Lt", "LtE", "Gt", "GtE"):
            leaves(a, out, ctxs, "int")
            leaves(b, out, ctxs, "int")
        elif t[1] in ("Is", "IsNot"):
            leaves(a, out, ctxs, "none")
            leaves(b, out, ctxs, "none")
        else:
            for x, y in ((a, b), (b, a)):
                consts = [c for c in ([y] if is_const(y) else (y[1:] if is_tag(y, "tuple", "list") else [])) if is_const(c)]
                strs = [c[2] for c in consts if isinstance(c[2], str)]
                if strs:
                    leaves(x, out, ctxs, "str:" + "\x00".join(strs))
                elif any(c[2] is None for c in consts):
                    leaves(x, out, ctxs, "none")
                else:
                    leaves(x, out, ctxs, "int")
    elif k == "call":
        for x in t[2]:
            leaves(x, out, ctxs, "int")
    elif k == "idx":
        leaves(t[1], out, ctxs, ctx)


def domain(ctxs):
    strs = []
    for c in ctxs:
        if c.startswith("str:"):
            strs += c[4:].split("\x00")
    if strs:
        return tuple(dict.fromkeys(strs)) + ("<another string>",)
    dom = []
    if "int" in ctxs or "val" in ctxs:
        dom += list(INTS)
    if "none" in ctxs:
        dom += [None]
    if "truth" in ctxs:
        dom += [None, 0] if dom else [False, True]
    return tuple(dict.fromkeys(dom)) or (False, True)


def place(fn, args, kws, ev_default):
    """{parameter: argument term} of a call of the analysed function `fn`; None when the call cannot be placed"""
    a = fn.args
    params = [x.arg for x in a.posonlyargs + a.args]
    if len(args) > len(params) or a.vararg or a.kwarg:
        return None
    out = dict(zip(params, args))
    for k, v in kws:
        if k in out or k not in params + [x.arg for x in a.kwonlyargs]:
            return None
        out[k] = v
    dfl = dict(zip(params[::-1], (a.defaults or [])[::-1]))
    dfl.update({x.arg: d for x, d in zip(a.kwonlyargs, a.kw_defaults) if d is not None})
    for p in params + [x.arg for x in a.kwonlyargs]:
        if p not in out:
            if p not in dfl:
                return None
            out[p] = ev_default(dfl[p])
    return out


def expand_calls(world, explore, terms, conds):
    """case split over the paths of the analysed functions called inside the terms.
    terms: {name: term}; conds: [(atom, bool)] -> list of (terms, conds, description of the callee path) ; None when a callee cannot be followed"""
    # the calls that matter: opaque scalars of the chunk size / task count that are (an element of) the result of an analysed function
    calls = []
    lv = {}
    for t in terms.values():
        leaves(t, lv, None, "int")
    for x in lv:
        c = x[1] if is_tag(x, "idx") else x
        if is_tag(c, "call") and is_tag(c[1], "fn") and c not in calls:
            calls.append(c)
    if len(calls) > 3:
        return None
    cases = [(dict(terms), list(conds), [])]
    for call in calls:
        _, (_, rel, q), args, kws = call
        fn = world.func(rel, q)
        if fn is None:
            return None
        try:
            lvs = explore(world, rel, q)
        except Exception:  # noqa - the callee is not something the engine executes
            return None
        new = []
        for lf in lvs:
            if lf.ret is None:
                continue
            sub = place(fn, list(args), [(k[1], k[2]) for k in kws], lambda d: lf.sim.ev_const(d, rel))
            if sub is None:
                return None

            def inst(t, sub=sub):
                return tmap(lambda x: sub[x[1]] if is_tag(x, "s") and x[1] in sub else x, t)
            ret = inst(lf.term(lf.ret))
            cs = [(inst(lf.sim.resolve(a)), v) for a, v in lf.assign.items()]
            for terms0, conds0, desc0 in cases:
                def put(t, call=call, ret=ret):
                    return tmap(lambda x: ret if x == call else x, t)
                new.append(({k: _fold(put(v)) for k, v in terms0.items()}, [(_fold(put(a)), v) for a, v in conds0] + cs,
                            desc0 + [f"{q}: " + (", ".join(f"{show(a)[:50]} is {v}" for a, v in lf.sim.decisions) or "straight through")]))
        cases = new
    return cases


def _fold(t):
    """(a, b)[k] for a literal tuple"""
    def f(x):
        if is_tag(x, "idx") and len(x[2]) == 1 and is_const(x[2][0]) and is_tag(x[1], "tuple", "list") and isinstance(x[2][0][2], int) and \
                -(len(x[1]) - 1) <= x[2][0][2] < len(x[1]) - 1:
            return x[1][1:][x[2][0][2]]
        return x
    return tmap(f, t)


def search(chunk, count, conds):
    """-> ("witness", world text) | ("ok", number of worlds) | ("undecided", reason)"""
    lv, ctxs = {}, {}
    leaves(chunk, lv, ctxs, "int")
    if count is not None:
        leaves(count, lv, ctxs, "int")
    # first without any condition (more worlds than can be reached): at least 1 everywhere is at least 1 wherever the call is reached
    names = sorted(lv, key=repr)
    if not any(x != y and any(s == y for s in subterms(x)) for x in names for y in names):
        doms = [domain(lv[n]) for n in names]
        size = 1
        for d in doms:
            size *= len(d)
        if size <= MAXWORLDS:
            fine = True
            for vals in itertools.product(*doms):
                env = dict(zip(names, vals))
                try:
                    if count is not None and cev(count, env) < 1:
                        continue
                    c = cev(chunk, env)
                except Uneval:
                    fine = False
                    break
                if c is not None and (isinstance(c, bool) or not isinstance(c, (int, float)) or c < 1):
                    fine = False
                    break
            if fine:
                return "ok", size
    usable = []
    for a, v in conds:
        mine = {}
        leaves(a, mine, ctxs, "truth")
        if set(mine) & set(lv) or any(any(x in lv for x in subterms(m)) for m in mine):
            usable.append((a, v))
            for k, c in mine.items():
                lv.setdefault(k, set()).update(c)
    # conditions that only speak about other things (the signal, options that do not reach the chunk size) do not restrict the worlds; but a
    # condition that ties in a new scalar may, through it, tie two of ours: take the closure once more
    for a, v in conds:
        if (a, v) in usable:
            continue
        mine = {}
        leaves(a, mine, ctxs, "truth")
        if set(mine) & set(lv):
            usable.append((a, v))
            for k, c in mine.items():
                lv.setdefault(k, set()).update(c)
    names = sorted(lv, key=repr)
    for x in names:
        for y in names:
            if x != y and any(s == y for s in subterms(x)):
                return "undecided", f"the opaque value {show(x)[:60]} is computed from {show(y)[:40]}: they cannot be varied independently"
    doms = [domain(lv[n]) for n in names]
    total = 1
    for d in doms:
        total *= len(d)
    if total > MAXWORLDS:
        doms = [tuple(x for x in d if x not in (3, 8)) for d in doms]
        total = 1
        for d in doms:
            total *= len(d)
        if total > MAXWORLDS:
            return "undecided", f"{total} worlds"
    n_ok = n_reach = 0
    bad_eval = None
    for vals in itertools.product(*doms):
        env = dict(zip(names, vals))
        try:
            if not all(bool(cev(a, env)) == v for a, v in usable):
                continue
        except Uneval:
            continue            # the path raises (or is not taken) in this world
        n_reach += 1
        try:
            if count is not None and cev(count, env) < 1:
                continue
            c = cev(chunk, env)
        except Uneval as e:
            bad_eval = str(e)
            continue
        if c is None:
            n_ok += 1
            continue
        if isinstance(c, bool) or not isinstance(c, (int, float)):
            bad_eval = f"chunk size {c!r}"
            continue
        if c < 1:
            return "witness", ", ".join(f"{show(n)[:60]} = {v!r}" for n, v in zip(names, vals)) + f"  ->  chunk size {c!r}" + \
                (f" for {cev(count, env)} task(s)" if count is not None else "")
        n_ok += 1
    if bad_eval is not None:
        return "undecided", f"the chunk size could not be evaluated in a reachable world ({bad_eval})"
    if n_reach == 0:
        return "undecided", "no world of the examined grid reaches the pool call"
    return "ok", n_ok
