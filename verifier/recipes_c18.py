"""Self-test recipes of C18 (same tuple format as selftest.RECIPES): behaviour-preserving rewrites the value-level rules must accept and
behaviour-breaking edits each obligation must report."""

N2P = "pyyeti/nastran/n2p.py"
LOC = "pyyeti/locate.py"
OP2 = "pyyeti/nastran/op2.py"

_MKSETPV = '''    if isinstance(major, str):
        major = mkusetmask(major)
    if isinstance(minor, str):
        minor = mkusetmask(minor)
    uset_set = uset["nasset"].values
    pvmajor = (uset_set & major) != 0
    pvminor = (uset_set & minor) != 0
    if np.any(~pvmajor & pvminor):
        raise ValueError("`minorset` is not completely containedin `majorset`")
    pv = pvminor[pvmajor]
    return pv
'''

_MKDOFPV_TAIL = '''    i = np.argsort(uset_set)
    pvi = np.searchsorted(uset_set, _dof, sorter=i)
    # since searchsorted can return length as index:
    pvi[pvi == i.size] -= 1
    pv = i[pvi]

    chk = uset_set[pv] != _dof
    if chk.any():
        if strict:
            msg = (
                f"set '{nasset}' does not contain all of the dof in "
                f"`dof`. These are missing:\\n{dof[chk]}"
            )
            raise ValueError(msg)
        else:
            chk = ~chk
            pv = pv[chk]
            dof = dof[chk]

    return pv, dof
'''

_MAT_TAIL = '''    i = haystack.argsort()
    pvi = np.searchsorted(haystack, needles, sorter=i)

    # since searchsorted can return length as index:
    pvi[pvi == i.size] -= 1
    pv2 = i[pvi]

    # trim pv2 down to exact matches and create pv1:
    pv1 = np.where(haystack[pv2] == needles)[0]
    pv2 = pv2[pv1]

    if switch:
        pv1, pv2 = pv2, pv1

    return pv1, pv2
'''

_EXPAND = '''    if dof.ndim < 2 or dof.shape[1] == 1:
        rg = range(1, 7) if grids_only else range(7)
        return np.array([[n, i] for n in dof.ravel() for i in rg])
    elif dof[:, 1].max() <= 6:
        return dof
    edof = np.array([[node, int(i)] for node, arg in dof for i in str(arg)])
    if (edof[:, 1] > 6).any():
        raise ValueError("found DOF > 6?")
    return edof
'''

RECIPES = [
    # ------------------------------------------------------------------ behaviour-preserving rewrites
    ("C18", "neutral", [], N2P, _MKSETPV, '''    major = mkusetmask(major) if isinstance(major, str) else major
    bits = uset["nasset"].values
    if isinstance(minor, str):
        minor = mkusetmask(nasset=minor)
    in_minor = (minor & bits) != 0
    in_major = 0 != (bits & major)
    outside = in_minor & ~in_major
    if outside.any():
        raise ValueError("`minorset` is not completely containedin `majorset`")
    return in_minor[in_major]
''', "mksetpv: conditional expression, renamed locals, commuted &, .any() method, keyword argument"),
    ("C18", "neutral", [], N2P, "    if np.any(~pvmajor & pvminor):\n        raise ValueError(\"`minorset`",
     "    if (minor & ~major) and np.any(~pvmajor & pvminor):\n        raise ValueError(\"`minorset`",
     "mksetpv: table scan skipped when the minor mask has no bit outside the major mask (the correct shortcut)"),
    ("C18", "neutral", [], N2P, _MKDOFPV_TAIL, '''    order = np.argsort(uset_set)
    ins = np.minimum(np.searchsorted(uset_set, _dof, sorter=order), order.size - 1)
    where = order[ins]
    found = uset_set[where] == _dof
    if not found.all():
        if strict:
            raise ValueError(f"set '{nasset}' does not contain all of the dof in `dof`.")
        where = where[found]
        dof = dof[found]
    return where, dof
''', "mkdofpv: np.minimum clamp, == mask with .all(), early raise, renamed locals"),
    ("C18", "neutral", [], N2P, _MKDOFPV_TAIL, '''    i = np.argsort(uset_set)
    pvi = np.searchsorted(uset_set, _dof, side="left", sorter=i)
    pvi = np.where(pvi == len(i), len(i) - 1, pvi)
    pv = i[pvi]
    chk = uset_set[pv] != _dof
    if strict and chk.any():
        raise ValueError(f"set '{nasset}' does not contain all of the dof in `dof`. These are missing:\\n{dof[chk]}")
    keep = ~chk
    return pv[keep], dof[keep]
''', "mkdofpv: np.where clamp with len(), strict test first, exact-match filter applied in every non-raising regime"),
    ("C18", "neutral", [], N2P, '''    i = np.argsort(uset_set)
    pvi = np.searchsorted(uset_set, _dof, sorter=i)
    # since searchsorted can return length as index:
    pvi[pvi == i.size] -= 1
    pv = i[pvi]
''', '''    def _positions(keys, wanted):
        srt = np.argsort(keys)
        at = np.searchsorted(keys, wanted, sorter=srt)
        at[at == srt.shape[0]] = srt.shape[0] - 1
        return srt[at]

    pv = _positions(uset_set, _dof)
''', "mkdofpv: look-up extracted into a nested helper, clamp written as an assignment of size - 1"),
    ("C18", "neutral", [], LOC, _MAT_TAIL, '''    order = haystack.argsort(kind="stable")
    at = haystack.searchsorted(needles, sorter=order)
    at[at == len(order)] -= 1
    hpos = order[at]
    match = haystack[hpos] == needles
    npos = match.nonzero()[0]
    hpos = hpos[match]
    return (hpos, npos) if switch else (npos, hpos)
''', "mat_intersect: method forms, boolean-mask trimming, conditional return instead of the swap"),
    ("C18", "neutral", [], LOC, "    pv1 = np.where(haystack[pv2] == needles)[0]", "    pv1 = np.flatnonzero(needles == haystack[pv2])",
     "mat_intersect: flatnonzero, commuted =="),
    ("C18", "neutral", [], LOC, "    haystack = _bytes_view(haystack, out_dtype).ravel()\n", '''    haystack = np.ascontiguousarray(haystack, dtype=out_dtype)
    if np.issubdtype(haystack.dtype, np.floating):
        haystack += 0.0
    haystack = haystack.view(np.dtype((np.void, haystack.dtype.itemsize * haystack.shape[-1]))).ravel()
''', "mat_intersect: _bytes_view inlined for the haystack"),
    ("C18", "neutral", [], LOC, "    out_dtype = np.result_type(haystack.dtype, needles.dtype)", "    out_dtype = np.promote_types(needles.dtype, haystack.dtype)",
     "mat_intersect: promote_types of the two dtypes"),
    ("C18", "neutral", [], N2P, _EXPAND, '''    if dof.ndim < 2 or dof.shape[1] == 1:
        if grids_only:
            comps = range(1, 7)
        else:
            comps = range(0, 7)
        return np.array([[gid, c] for gid in dof.ravel() for c in comps])
    if (dof[:, 1] <= 6).all():
        return dof
    out = np.array([[row[0], int(ch)] for row in dof for ch in str(row[1])])
    if out[:, 1].max() > 6:
        raise ValueError("found DOF > 6?")
    return out
''', "expanddof: if/else for the range, all(<=) test, max() guard, comprehension over rows"),
    ("C18", "neutral", [], OP2, "        if any(sset):\n            uset[sset] = uset[sset] & ~np.array(2, uset.dtype)",
     "        uset[sset] &= ~np.array(2, dtype=uset.dtype)", "_rdop2uset: augmented &=, no-op gate dropped"),
    ("C18", "neutral", [], N2P, '''        sets = nasset.split("+")
        usetmask1 = 0
        for set_ in sets:
            usetmask1 = usetmask1 | usetmask[set_]
        return usetmask1
''', '''        import functools
        import operator
        return functools.reduce(operator.or_, (usetmask[s] for s in nasset.split("+")), 0)
''', "mkusetmask: reduce(or_) instead of the loop"),
    # ------------------------------------------------------------------ behaviour-breaking edits
    ("C18", "break", ["C18-R2"], N2P, "    if np.any(~pvmajor & pvminor):\n        raise ValueError(\"`minorset`",
     "    if (major & ~minor) and np.any(~pvmajor & pvminor):\n        raise ValueError(\"`minorset`", "mksetpv: shortcut with swapped operands skips the refusal"),
    ("C18", "break", ["C18-R2"], N2P, "    if isinstance(minor, str):\n        minor = mkusetmask(minor)", "    if isinstance(minor, str):\n        minor = mkusetmask(major)",
     "mksetpv: minor resolved from the major string"),
    ("C18", "break", ["C18-R2"], N2P, "    if np.any(~pvmajor & pvminor):\n        raise ValueError(\"`minorset`", "    if np.any(pvmajor & ~pvminor):\n        raise ValueError(\"`minorset`",
     "mksetpv: containment tested the wrong way round"),
    ("C18", "break", ["C18-R3"], N2P, "    i = np.argsort(uset_set)\n", "    i = np.argsort(_dof)\n", "mkdofpv: sorter of the wrong array"),
    ("C18", "break", ["C18-R3"], N2P, "    pvi = np.searchsorted(uset_set, _dof, sorter=i)", "    pvi = np.searchsorted(uset_set, _dof, side=\"right\", sorter=i)", "mkdofpv: right insertion point"),
    ("C18", "break", ["C18-R3"], N2P, "    pvi[pvi == i.size] -= 1\n    pv = i[pvi]\n\n    chk", "    pv = i[pvi]\n    pvi[pvi == i.size] -= 1\n\n    chk", "mkdofpv: clamp after the use"),
    ("C18", "break", ["C18-R3"], N2P, "    pv = i[pvi]\n\n    chk", "    pv = pvi\n\n    chk", "mkdofpv: sorted-order index used as table position"),
    ("C18", "break", ["C18-R3"], N2P, "            chk = ~chk\n            pv = pv[chk]", "            pv = pv[chk]", "mkdofpv: non-strict keeps the mismatches"),
    ("C18", "break", ["C18-R3"], N2P, "            pv = pv[chk]\n            dof = dof[chk]", "            pv = pv[chk]", "mkdofpv: DOF list not filtered with the positions"),
    ("C18", "break", ["C18-R3"], N2P, "            raise ValueError(msg)\n        else:\n            chk = ~chk", "            pass\n        else:\n            chk = ~chk", "mkdofpv: strict does not raise"),
    ("C18", "break", ["C18-R3"], N2P, "            setpv = mksetpv(uset, \"p\", nasset)", "            setpv = mksetpv(uset, nasset, \"p\")", "mkdofpv: partition arguments exchanged"),
    ("C18", "break", ["C18-R3"], N2P, "    _dof = dof[:, 0] * 10 + dof[:, 1]", "    _dof = dof[:, 0] * 100 + dof[:, 1]", "mkdofpv: request keys in another encoding"),
    ("C18", "break", ["C18-R3"], N2P, "    dof = expanddof(dof, grids_only)\n    _dof", "    dof = expanddof(dof)\n    _dof", "mkdofpv: grids_only not passed on"),
    ("C18", "break", ["C18-R3"], N2P, "    chk = uset_set[pv] != _dof\n    if chk.any():", "    chk = np.zeros(len(pv), bool)\n    if chk.any():", "mkdofpv: re-check removed"),
    ("C18", "break", ["C18-R3"], LOC, "    if switch:\n        pv1, pv2 = pv2, pv1", "    if not switch:\n        pv1, pv2 = pv2, pv1", "mat_intersect: outputs in the wrong order"),
    ("C18", "break", ["C18-R3"], LOC, "    pv2 = pv2[pv1]\n", "", "mat_intersect: haystack positions not trimmed"),
    ("C18", "break", ["C18-R3"], LOC, "    pv1 = np.where(haystack[pv2] == needles)[0]", "    pv1 = np.where(haystack[pv2] != needles)[0]", "mat_intersect: keeps the non-matches"),
    ("C18", "break", ["C18-R3"], LOC, "    needles = _bytes_view(needles, out_dtype).ravel()", "    needles = _bytes_view(needles, needles.dtype).ravel()", "mat_intersect: needles viewed in their own dtype"),
    ("C18", "break", ["C18-R3"], LOC, "    pvi[pvi == i.size] -= 1\n    pv2 = i[pvi]", "    pv2 = i[pvi]", "mat_intersect: clamp deleted"),
    ("C18", "break", ["C18-R4"], N2P, "        rg = range(1, 7) if grids_only else range(7)", "        rg = range(7) if grids_only else range(1, 7)", "expanddof: ranges exchanged"),
    ("C18", "break", ["C18-R4"], N2P, "    elif dof[:, 1].max() <= 6:\n        return dof", "    elif dof[:, 1].max() <= 7:\n        return dof", "expanddof: early return lets a 7 through"),
    ("C18", "break", ["C18-R4"], N2P, "    if (edof[:, 1] > 6).any():", "    if (edof[:, 0] > 6).any():", "expanddof: guard on the id column"),
    ("C18", "break", ["C18-R1b"], OP2, "sset = (uset & n2p.mkusetmask(\"s\")) != 0", "sset = (uset & n2p.mkusetmask(\"b\")) != 0", "_rdop2uset: wrong set selected"),
    ("C18", "break", ["C18-R1b"], LOC, "def mat_intersect(D1, D2, keep=0):", "_ASET = 0x70_008A\n\n\ndef mat_intersect(D1, D2, keep=0):", "a-set mask copied into another module (hex, grouped)"),
    ("C18", "break", ["C18-R1"], N2P, "            usetmask1 = usetmask1 | usetmask[set_]", "            usetmask1 = usetmask1 + usetmask[set_]", "mkusetmask: '+' arm adds"),
    # ---- index2slice
    ("C18", "neutral", [], LOC, """    d = np.diff(pv)
    d0 = d[0]
    if d0 != 0 and np.all(d == d0) and pv[0] >= 0 and pv[-1] >= 0:
        stop = pv[-1] + d0
        if stop < 0:
            stop = None
        return slice(pv[0], stop, d0)
""", """    steps = np.diff(pv)
    step = steps[0]
    if step != 0 and not (steps != step).any() and pv[0] >= 0 and pv[-1] >= 0:
        end = pv[-1] + step
        return slice(pv[0], end if end >= 0 else None, step)
""", "index2slice: renamed locals, any(!=) spacing test, conditional expression for the stop"),
    ("C18", "break", ["C18-R5"], LOC, "        if stop < 0:\n            stop = None\n        return slice(pv[0], stop, d0)",
     "        if stop <= 0:\n            stop = None\n        return slice(pv[0], stop, d0)", "index2slice: stop == 0 of a descending run turned into None"),
    ("C18", "break", ["C18-R5"], LOC, "        if stop == 0:\n            stop = None\n        return slice(pv[0], stop)",
     "        if stop <= 0:\n            stop = None\n        return slice(pv[0], stop)", "index2slice: single negative entry runs to the end"),
    ("C18", "break", ["C18-R5"], LOC, "    if d0 != 0 and np.all(d == d0) and pv[0] >= 0", "    if d0 != 0 and np.any(d == d0) and pv[0] >= 0", "index2slice: irregular vector accepted"),
    ("C18", "break", ["C18-R3"], LOC, "    if c1 != c2:\n        return np.array([], dtype=int), np.array([], dtype=int)\n\n    # loop over", "    if c1 == c2:\n        return np.array([], dtype=int), np.array([], dtype=int)\n\n    # loop over", "mat_intersect: empty result for equal column counts"),
    ("C18", "break", ["C18-R3"], N2P, "        if nasset == \"p\":\n            uset_set = (uset[:, 0]", "        if nasset != \"p\":\n            uset_set = (uset[:, 0]", "mkdofpv: array table searched for a set it cannot know"),
    # ---- helpers extracted at module level, sorted copy instead of a sorter
    ("C18", "neutral", [], N2P, _MKDOFPV_TAIL, """    pv = _sorted_positions(uset_set, _dof)
    chk = uset_set[pv] != _dof
    if chk.any():
        if strict:
            raise ValueError(f"set '{nasset}' does not contain all of the dof in `dof`.")
        chk = ~chk
        pv = pv[chk]
        dof = dof[chk]
    return pv, dof


def _sorted_positions(keys, wanted, clamp=True):
    order = np.argsort(keys)
    at = np.searchsorted(keys, wanted, sorter=order)
    if clamp:
        at[at == order.size] -= 1
    return order[at]
""", "mkdofpv: look-up extracted into a module-level private helper with a defaulted flag"),
    ("C18", "neutral", [], N2P, _MKSETPV, """    major, minor = _as_mask(major), _as_mask(minor)
    uset_set = uset["nasset"].values
    pvmajor = (uset_set & major) != 0
    pvminor = (uset_set & minor) != 0
    if np.any(pvminor[~pvmajor]):
        raise ValueError("`minorset` is not completely containedin `majorset`")
    return pvminor[pvmajor]


def _as_mask(nasset):
    if isinstance(nasset, str):
        return mkusetmask(nasset)
    return nasset
""", "mksetpv: string resolution extracted into a private helper, refusal test written as pvminor[~pvmajor].any()"),
    ("C18", "neutral", [], LOC, _MAT_TAIL, """    i = haystack.argsort()
    hs = haystack[i]
    pvi = np.searchsorted(hs, needles)
    pvi[pvi == hs.size] -= 1
    pv2 = i[pvi]
    pv1 = np.where(hs[pvi] == needles)[0]
    pv2 = pv2[pv1]
    if switch:
        pv1, pv2 = pv2, pv1
    return pv1, pv2
""", "mat_intersect: search in a sorted copy instead of passing a sorter"),
    ("C18", "neutral", [], N2P, "    if np.any(~pvmajor & pvminor):\n        raise ValueError(\"`minorset`", "    if not np.all(pvmajor | ~pvminor):\n        raise ValueError(\"`minorset`",
     "mksetpv: refusal test written as not all(major or not minor)"),
    ("C18", "break", ["C18-R2"], N2P, "    if np.any(~pvmajor & pvminor):\n        raise ValueError(\"`minorset`", "    if np.all(~pvmajor & pvminor):\n        raise ValueError(\"`minorset`",
     "mksetpv: refuses only when every DOF is outside"),
    ("C18", "break", ["C18-R2"], N2P, "    if np.any(~pvmajor & pvminor):\n        raise ValueError(\"`minorset`", "    if np.any(~pvmajor | pvminor):\n        raise ValueError(\"`minorset`",
     "mksetpv: refusal test with | instead of &"),
    ("C18", "break", ["C18-R5"], LOC, "        if stop < 0:\n            stop = None\n        return slice(pv[0], stop, d0)",
     "        if stop < 1:\n            stop = None\n        return slice(pv[0], stop, d0)", "index2slice: stop < 1 is stop <= 0"),
    ("C18", "neutral", [], LOC, "        if stop < 0:\n            stop = None\n        return slice(pv[0], stop, d0)",
     "        if stop <= -1:\n            stop = None\n        return slice(pv[0], stop, d0)", "index2slice: stop <= -1 is stop < 0 (integers)"),
    ("C18", "neutral", [], LOC, "        stop = pv[0] + 1\n        if stop == 0:\n            stop = None\n        return slice(pv[0], stop)",
     "        return slice(pv[0], (pv[0] + 1) or None)", "index2slice: `stop or None` for the single entry"),
]


# ------------------------------------------------------------------------------------------------------------------------------------
# second hardening pass: the refactorings of the neutral patches N5-N8 in other spellings (each a necessary robustness of the value-level
# rules), and broken variants written in the new spellings (the rules must still see through them)
_DEF_MK = "def mkusetmask(nasset=None):\n"
_HEX_TABLE = '''_SET_MASKS = {
    "m": 0x1, "b": 0x200002, "o": 0x4, "r": 0x8, "s": 0x600, "q": 0x400000, "c": 0x100000, "e": 0x800,
    "a": 0x70008A, "l": 0x300102, "t": 0xB0010A, "f": 0x7000CE, "n": 0x7006EE, "g": 0x7006FF, "p": 0x701EFF,
    "fe": 0x7048CE, "d": %s, "ne": 0x702EEE,
    "u1": 0x80000000, "u2": 0x40000000, "u3": 0x20000000, "u4": 0x10000000, "u5": 0x8000000, "u6": 0x4000000,
}


def mkusetmask(nasset=None):
    if isinstance(nasset, str):
        result = 0
        for name in nasset.split("+"):
            result |= _SET_MASKS[name]
        return result
    return _SET_MASKS.copy()


def _mkusetmask_previous(nasset=None):
'''
_LOOP_TABLE = '''import functools

_BASE_BITS = {"m": (0,), "b": (1, 21), "o": (2,), "r": (3,), "s": (9, 10), "q": (22,), "c": (20,), "e": (11,)}
_SUPERSETS = [
    ("a", ("q", "r", "b", "c"), 7), ("l", ("c", "b"), 8), ("t", ("l", "r"), 23), ("f", ("a", "o"), 6), ("n", ("f", "s"), 5),
    ("g", ("n", "m"), 4), ("p", ("g", "e"), 12), ("fe", ("f", "e"), 14), ("d", ("e", "a"), 15), ("ne", ("n", "e"), 13),
]
_USETMASK = {}
for _name, _bits in _BASE_BITS.items():
    _mask = 0
    for _bit in _bits:
        _mask |= 1 << _bit
    _USETMASK[_name] = _mask
for _name, _members, _bit in _SUPERSETS:
    _USETMASK[_name] = 2 ** _bit
    for _member in _members:
        _USETMASK[_name] |= _USETMASK[_member]
_USETMASK.update({"u%d" % _j: 1 << (32 - _j) for _j in range(1, 7)})


def mkusetmask(nasset=None):
    if isinstance(nasset, str):
        return functools.reduce(lambda acc, name: acc | _USETMASK[name], nasset.split("+"), 0)
    return {**_USETMASK}


def _mkusetmask_previous(nasset=None):
'''
_REFUSAL = "    if np.any(~pvmajor & pvminor):\n        raise ValueError(\"`minorset`"
_MAT_VIEWS = '''    haystack = _bytes_view(haystack, out_dtype).ravel()
    needles = _bytes_view(needles, out_dtype).ravel()
'''

RECIPES += [
    # ---- the mask table is the value mkusetmask returns
    ("C18", "neutral", [], N2P, _DEF_MK, _HEX_TABLE % "0x70888A", "mkusetmask: module-level table of hex literals, indexed / copied by the function"),
    ("C18", "break", ["C18-R1"], N2P, _DEF_MK, _HEX_TABLE % "0x30888A", "mkusetmask: module-level hex table in which d has lost the q bit"),
    ("C18", "neutral", [], N2P, _DEF_MK, _LOOP_TABLE, "mkusetmask: table filled by module-level loops over data tables, reduce with a lambda, {**table}"),
    ("C18", "neutral", [], N2P, "        for set_ in sets:\n            usetmask1 = usetmask1 | usetmask[set_]\n",
     "        for word in map(usetmask.__getitem__, sets):\n            usetmask1 |= word\n", "mkusetmask: map(table.__getitem__, names), |="),
    ("C18", "break", ["C18-R1"], N2P, "            usetmask1 = usetmask1 | usetmask[set_]", "            usetmask1 = usetmask[set_]",
     "mkusetmask: 'x+y' keeps only the last set"),
    ("C18", "break", ["C18-R1"], N2P, "        sets = nasset.split(\"+\")\n", "        sets = nasset.split(\"+\")[:1]\n", "mkusetmask: 'x+y' keeps only the first set"),
    # ---- mksetpv: ufunc spellings, other containment tests, helpers, loops
    ("C18", "neutral", [], N2P, _MKSETPV, '''    if isinstance(major, str):
        major = mkusetmask(major)
    if isinstance(minor, str):
        minor = mkusetmask(minor)
    words = uset["nasset"].to_numpy()
    in_major = np.bitwise_and(words, major).astype(bool)
    in_minor = np.bitwise_and(words, minor).astype(bool)
    if np.count_nonzero(np.logical_and(in_minor, np.logical_not(in_major))) > 0:
        raise ValueError("`minorset` is not completely containedin `majorset`")
    return np.compress(in_major, in_minor)
''', "mksetpv: bitwise_and + astype(bool), logical_and / logical_not, count_nonzero > 0, np.compress"),
    ("C18", "neutral", [], N2P, _MKSETPV, '''    major, minor = [s if isinstance(s, (int, np.integer)) else mkusetmask(s) for s in (major, minor)]
    uset_set = uset["nasset"].values
    pvmajor = np.not_equal(uset_set & major, 0)
    pvminor = np.not_equal(uset_set & minor, 0)
    outside = pvminor.copy()
    outside[pvmajor] = False
    if outside.any():
        raise ValueError("`minorset` is not completely containedin `majorset`")
    return pvminor[pvmajor]
''', "mksetpv: comprehension over (major, minor), isinstance(int) test, np.not_equal, outside vector by item store"),
    ("C18", "neutral", [], N2P, '''    if isinstance(major, str):
        major = mkusetmask(major)
    if isinstance(minor, str):
        minor = mkusetmask(minor)
    uset_set = uset["nasset"].values
    pvmajor = (uset_set & major) != 0
    pvminor = (uset_set & minor) != 0
''', '''    uset_set = uset["nasset"].values
    member = []
    for nasset in (major, minor):
        if isinstance(nasset, str):
            nasset = mkusetmask(nasset)
        member.append((uset_set & nasset) != 0)
    pvmajor, pvminor = member
''', "mksetpv: both membership vectors computed in a loop over (major, minor), collected in a list"),
    ("C18", "neutral", [], N2P, _MKSETPV, '''    if isinstance(major, str):
        major = mkusetmask(major)
    if isinstance(minor, str):
        minor = mkusetmask(minor)
    uset_set = uset["nasset"].values
    pvmajor = in_set(uset_set, major)
    pvminor = in_set(uset_set, minor)
    if (pvminor > pvmajor).any():
        raise ValueError(_NOT_CONTAINED)
    return pvminor[pvmajor]


_NOT_CONTAINED = "`minorset` is not completely containedin `majorset`"


def in_set(words, mask):
    """True where the DOF is in a set of `mask`"""
    return np.not_equal(words & mask, 0)
''', "mksetpv: documented helper that is not in __all__, (minor > major).any(), message as a module constant"),
    ("C18", "neutral", [], N2P, _REFUSAL, "    if not pvmajor[pvminor].all():\n        raise ValueError(\"`minorset`", "mksetpv: refusal test written as not all(pvmajor[pvminor])"),
    ("C18", "neutral", [], N2P, _REFUSAL, "    if not np.less_equal(pvminor, pvmajor).all():\n        raise ValueError(\"`minorset`",
     "mksetpv: refusal test written as not all(minor <= major)"),
    ("C18", "break", ["C18-R2"], N2P, _REFUSAL, "    if not pvminor[pvmajor].all():\n        raise ValueError(\"`minorset`", "mksetpv: refuses unless every major DOF is in minor"),
    ("C18", "break", ["C18-R2"], N2P, _REFUSAL, "    if (pvminor < pvmajor).any():\n        raise ValueError(\"`minorset`", "mksetpv: containment comparison the wrong way round"),
    ("C18", "break", ["C18-R2"], N2P, "    pvmajor = (uset_set & major) != 0\n", "    pvmajor = np.equal(uset_set & major, 0)\n", "mksetpv: major membership inverted (np.equal)"),
    ("C18", "break", ["C18-R2"], N2P, "    pvminor = (uset_set & minor) != 0\n", "    pvminor = np.not_equal(np.bitwise_or(uset_set, minor), 0)\n", "mksetpv: bitwise_or instead of bitwise_and"),
    # ---- mkdofpv
    ("C18", "neutral", [], N2P, _MKDOFPV_TAIL, '''    order = uset_set.argsort()
    at = np.searchsorted(uset_set, _dof, sorter=order).clip(max=len(order) - 1)
    pv = np.take(order, at)
    found = np.equal(uset_set[pv], _dof)
    if found.all():
        return pv, dof
    if strict is True:
        raise ValueError("set '%s' does not contain all of the dof in `dof`. These are missing:\\n%s" % (nasset, dof[~found]))
    keep = np.flatnonzero(found)
    return pv[keep], dof[keep]
''', "mkdofpv: .clip(max=), np.take, np.equal, early return, strict is True, selection by flatnonzero(found)"),
    ("C18", "break", ["C18-R3"], N2P, _MKDOFPV_TAIL, '''    order = uset_set.argsort()
    at = np.searchsorted(uset_set, _dof, sorter=order).clip(max=len(order) - 1)
    pv = np.take(order, at)
    found = np.equal(uset_set[pv], _dof)
    if found.all():
        return pv, dof
    if strict:
        raise ValueError("missing")
    keep = np.flatnonzero(~found)
    return pv[keep], dof[keep]
''', "mkdofpv: non-strict keeps the mismatches (flatnonzero form)"),
    ("C18", "break", ["C18-R3"], N2P, "    pvi[pvi == i.size] -= 1\n    pv = i[pvi]\n\n    chk", "    pvi = pvi.clip(min=0)\n    pv = i[pvi]\n\n    chk", "mkdofpv: clip without an upper bound"),
    ("C18", "neutral", [], N2P, "        if nasset != \"p\":\n            setpv = mksetpv(uset, \"p\", nasset)", "        if nasset not in (\"p\",):\n            setpv = mksetpv(uset, \"p\", nasset)",
     "mkdofpv: nasset not in ('p',)"),
    # ---- mat_intersect
    ("C18", "neutral", [], LOC, _MAT_TAIL, '''    order = np.argsort(haystack, kind="stable")
    at = np.minimum(haystack.searchsorted(needles, sorter=order), order.shape[0] - 1)
    hay_rows = order.take(at)
    hit = np.equal(haystack.take(hay_rows), needles)
    need_rows = hit.nonzero()[0]
    hay_rows = np.compress(hit, hay_rows)
    pair = (need_rows, hay_rows)
    return pair[::-1] if switch else pair
''', "mat_intersect: take / compress / equal ufuncs, reversed pair"),
    ("C18", "neutral", [], LOC, _MAT_TAIL, '''    pv2 = nearest_sorted(haystack, needles)
    pv1 = np.where(haystack[pv2] == needles)[0]
    pv2 = pv2[pv1]
    if switch:
        pv1, pv2 = pv2, pv1
    return pv1, pv2


def nearest_sorted(keys, wanted):
    order = keys.argsort()
    at = np.searchsorted(keys, wanted, sorter=order)
    at[at == order.size] -= 1
    return order[at]
''', "mat_intersect: look-up in an undocumented helper whose name has no underscore"),
    ("C18", "neutral", [], LOC, _MAT_VIEWS, '''    views = [None] * 2
    for k, arr in enumerate((haystack, needles)):
        views[k] = _bytes_view(arr, out_dtype).ravel()
    haystack, needles = views[0], views[1]
''', "mat_intersect: views stored by index into a list in a loop"),
    ("C18", "neutral", [], LOC, _MAT_VIEWS, '''    views = {}
    views["hay"] = _bytes_view(haystack, out_dtype).ravel()
    views["need"] = _bytes_view(needles, out_dtype).ravel()
    haystack = views["hay"]
    needles = views["need"]
''', "mat_intersect: views kept in a dict (a local bound to a mutable display)"),
    ("C18", "neutral", [], LOC, _MAT_VIEWS, '''    rowviews = []
    for arr in (haystack, needles):
        arr = np.ascontiguousarray(arr, out_dtype)
        if np.issubdtype(arr.dtype, np.floating):
            arr += 0.0
        rowviews.append(arr.view(np.dtype((np.void, arr.dtype.itemsize * arr.shape[-1]))).ravel())
    haystack, needles = rowviews
''', "mat_intersect: _bytes_view inlined as a loop over (haystack, needles) that appends to a list"),
    ("C18", "break", ["C18-R3"], LOC, _MAT_VIEWS, '''    rowviews = []
    for arr in (haystack, needles):
        arr = np.ascontiguousarray(arr, arr.dtype)
        rowviews.append(arr.view(np.dtype((np.void, arr.dtype.itemsize * arr.shape[-1]))).ravel())
    haystack, needles = rowviews
''', "mat_intersect: loop form in which each input keeps its own dtype"),
    ("C18", "neutral", [], LOC, '''    if (keep == 0 and r1 <= r2) or keep == 1:
        needles = D1
        haystack = D2
        switch = False
    else:
        needles = D2
        haystack = D1
        switch = True
''', '''    switch = not ((keep == 0 and r1 <= r2) or keep == 1)
    needles, haystack = (D2, D1) if switch else (D1, D2)
''', "mat_intersect: switch computed first, tuple conditional for needles / haystack"),
    ("C18", "neutral", [], LOC, "        return np.array([], dtype=int), np.array([], dtype=int)\n\n    # loop over", "        return np.empty(0, dtype=int), np.zeros((0,), int)\n\n    # loop over",
     "mat_intersect: empty results spelled np.empty(0) / np.zeros((0,))"),
    # ---- expanddof
    ("C18", "neutral", [], N2P, _EXPAND, '''    if dof.ndim < 2 or dof.shape[1] == 1:
        first = 1 if grids_only is True else 0
        comps = np.arange(first, 7)
        ids = dof.ravel()
        return np.column_stack((np.repeat(ids, comps.size), np.tile(comps, len(ids))))
    if np.max(dof[:, 1]) <= 6:
        return dof
    rows = []
    for node, packed in dof:
        for digit in "%d" % packed:
            rows.append((node, int(digit)))
    edof = np.array(rows)
    if not np.all(edof[:, 1] <= 6):
        raise ValueError("found DOF > 6?")
    return edof
''', "expanddof: arange with a conditional start, repeat / tile, digits by a loop nest with %d, not all(<= 6) guard"),
    ("C18", "neutral", [], N2P, "        return np.array([[n, i] for n in dof.ravel() for i in rg])", '''        rows = []
        for n in dof.ravel():
            for i in rg:
                rows.append([n, i])
        return np.array(rows)''', "expanddof: id expansion as a loop nest that appends rows"),
    ("C18", "break", ["C18-R4"], N2P, "        return np.array([[n, i] for n in dof.ravel() for i in rg])", '''        rows = []
        for i in rg:
            for n in dof.ravel():
                rows.append([n, i])
        return np.array(rows)''', "expanddof: loop nest in the wrong order (component-major rows)"),
    ("C18", "break", ["C18-R4"], N2P, _EXPAND, '''    if dof.ndim < 2 or dof.shape[1] == 1:
        rg = range(1, 7) if grids_only else range(7)
        return np.array([[n, i] for n in dof.ravel() for i in rg])
    if np.max(dof[:, 1]) <= 6:
        return dof
    rows = []
    for node, packed in dof:
        for digit in "%d" % packed:
            rows.append((node, int(digit)))
    return np.array(rows)
''', "expanddof: loop form without the > 6 guard"),
    ("C18", "break", ["C18-R4"], N2P, "        return np.array([[n, i] for n in dof.ravel() for i in rg])",
     "        ids = dof.ravel()\n        return np.column_stack((np.repeat(ids, 7), np.tile(np.arange(1, 8), ids.size)))", "expanddof: vectorised expansion with components 1..7"),
    # ---- producer, index2slice
    ("C18", "neutral", [], OP2, "sset = (uset & n2p.mkusetmask(\"s\")) != 0", "sset = np.not_equal(np.bitwise_and(uset, n2p.mkusetmask(\"s\")), 0)",
     "_rdop2uset: not_equal(bitwise_and(..), 0)"),
    ("C18", "neutral", [], LOC, "        stop = pv[-1] + d0\n        if stop < 0:\n            stop = None\n        return slice(pv[0], stop, d0)\n",
     "        return slice(pv[0], None if (stop := pv[-1] + d0) < 0 else stop, d0)\n", "index2slice: walrus for the stop"),
]

RECIPES += [
    ("C18", "neutral", [], N2P, _MKDOFPV_TAIL, '''    i = np.argsort(uset_set)
    sorted_keys = uset_set[i]
    pvi = np.searchsorted(uset_set, _dof, sorter=i)
    pvi = np.where(pvi < i.size, pvi, i.size - 1)
    chk = sorted_keys[pvi] != _dof
    pv = i[pvi]
    if chk.any():
        if strict:
            raise ValueError("missing")
        chk = ~chk
        pv = pv[chk]
        dof = dof[chk]
    return pv, dof
''', "mkdofpv: re-check against the sorted keys at the clamped index (uset_set[i][pvi])"),
    ("C18", "neutral", [], OP2, "sset = (uset & n2p.mkusetmask(\"s\")) != 0", "sset = (uset & n2p.mkusetmask()[\"s\"]) != 0", "_rdop2uset: mkusetmask()['s']"),
    ("C18", "break", ["C18-R1b"], OP2, "sset = (uset & n2p.mkusetmask(\"s\")) != 0", "sset = (uset & n2p.mkusetmask()[\"b\"]) != 0", "_rdop2uset: mkusetmask()['b']"),
    ("C18", "break", ["C18-R1b"], OP2, "sset = (uset & n2p.mkusetmask(\"s\")) != 0", "sset = (uset & n2p.mkusetmask(\"s\")) == 0", "_rdop2uset: inverted selection"),
]

# ---- constructs met in the independent third round of refactoring patches (stored as neutral/C18-N9..N12)
RECIPES += [
    ("C18", "neutral", [], N2P, '''        sets = nasset.split("+")
        usetmask1 = 0
        for set_ in sets:
            usetmask1 = usetmask1 | usetmask[set_]
        return usetmask1
''', '''        usetmask1 = 0
        sets = iter(nasset.split("+"))
        while True:
            try:
                set_ = next(sets)
            except StopIteration:
                return usetmask1
            usetmask1 |= usetmask[set_]
''', "mkusetmask: while True / next() / except StopIteration instead of the for loop"),
    ("C18", "neutral", [], N2P, "    pvi[pvi == i.size] -= 1\n    pv = i[pvi]\n\n    chk", "    pvi -= pvi == i.size\n    pv = i[pvi]\n\n    chk",
     "mkdofpv: clamp written as index -= (index == size)"),
    ("C18", "break", ["C18-R3"], N2P, "    pvi[pvi == i.size] -= 1\n    pv = i[pvi]\n\n    chk", "    pvi -= pvi > i.size\n    pv = i[pvi]\n\n    chk",
     "mkdofpv: index -= (index > size) never clamps"),
    ("C18", "neutral", [], N2P, "        rg = range(1, 7) if grids_only else range(7)", "        rg = np.arange(int(bool(grids_only)), 7)",
     "expanddof: component list np.arange(int(bool(grids_only)), 7) - arithmetic on the flag, no branch"),
    ("C18", "break", ["C18-R4"], N2P, "        rg = range(1, 7) if grids_only else range(7)", "        rg = np.arange(1 - int(bool(grids_only)), 7)",
     "expanddof: arithmetic on the flag the wrong way round"),
    ("C18", "break", ["C18-R4"], N2P, "        return np.zeros((0, 2), dtype=np.int64)", "        return np.zeros((1, 2), dtype=np.int64)",
     "expanddof: an empty request returns a row of zeros"),
    ("C18", "neutral", [], LOC, '''    d = np.diff(pv)
    d0 = d[0]
    if d0 != 0 and np.all(d == d0) and pv[0] >= 0 and pv[-1] >= 0:
        stop = pv[-1] + d0
        if stop < 0:
            stop = None
        return slice(pv[0], stop, d0)
''', '''    d0 = _common_step(pv)
    if d0 is not None and pv[0] >= 0 and pv[-1] >= 0:
        stop = pv[-1] + d0
        return slice(pv[0], _none_if(stop, stop < 0), d0)
''', "index2slice: step from a helper that returns None when there is none (helpers defined by the next recipe's text are appended here)"),
    ("C18", "neutral", [], LOC, "    if pv.size == 0:\n        return slice(0)\n", "    if pv.size == 0:\n        return slice(None, 0)\n", "index2slice: slice(None, 0) for the empty vector"),
]
# the helpers of the `_common_step` recipe live in the same replaced text: put them in front of the function that follows index2slice
_r = RECIPES[-2]
RECIPES[-2] = (_r[0], _r[1], _r[2], _r[3], _r[4] + '''    if not strict:
        return pv
    raise ValueError("invalid partition vector for conversion to slice")
''', _r[5] + '''    if not strict:
        return pv
    raise ValueError("invalid partition vector for conversion to slice")


def _common_step(pv):
    d = np.diff(pv)
    d0 = d[0]
    if d0 != 0 and np.all(d == d0):
        return d0
    return None


def _none_if(stop, unusable):
    if unusable:
        stop = None
    return stop
''', "index2slice: step from a helper that returns None when there is none, stop through a `_none_if(stop, test)` helper")

# ---- constructs met in the fourth round (stored as neutral/C18-N13..N16)
_MKDOFPV_HEAD = '''    if isinstance(uset, pd.DataFrame):
        if nasset != "p":
            setpv = mksetpv(uset, "p", nasset)
            uset = uset.loc[setpv]
        uset_set = uset.index.get_level_values("id") * 10 + uset.index.get_level_values(
            "dof"
        )
    else:
        if nasset == "p":
            uset_set = (uset[:, 0] * 10 + uset[:, 1]).astype(np.int64)
        else:
            raise ValueError('`nasset` must be "p" if `uset` is not a pandas DataFrame')
'''
RECIPES += [
    ("C18", "neutral", [], N2P, "    pvi[pvi == i.size] -= 1\n    pv = i[pvi]\n\n    chk", "    np.minimum(pvi, i.size - 1, out=pvi)\n    pv = i[pvi]\n\n    chk",
     "mkdofpv: clamp in place with np.minimum(..., out=pvi)"),
    ("C18", "break", ["C18-R3"], N2P, "    pvi[pvi == i.size] -= 1\n    pv = i[pvi]\n\n    chk", "    np.minimum(pvi, i.size, out=pvi)\n    pv = i[pvi]\n\n    chk",
     "mkdofpv: np.minimum(index, size, out=) does not clamp"),
    ("C18", "neutral", [], LOC, "    pvi[pvi == i.size] -= 1\n    pv2 = i[pvi]", "    np.putmask(pvi, pvi == i.size, i.size - 1)\n    pv2 = i[pvi]",
     "mat_intersect: clamp in place with np.putmask"),
    ("C18", "neutral", [], LOC, "    pvi[pvi == i.size] -= 1\n    pv2 = i[pvi]", "    np.subtract.at(pvi, pvi == i.size, 1)\n    pv2 = i[pvi]",
     "mat_intersect: clamp in place with np.subtract.at"),
    ("C18", "neutral", [], N2P, _MKDOFPV_HEAD, '''    match uset:
        case pd.DataFrame():
            if nasset != "p":
                uset = uset.loc[mksetpv(uset, "p", nasset)]
            level = uset.index.get_level_values
            uset_set = level("id") * 10 + level("dof")
        case _ if nasset == "p":
            uset_set = (uset[:, 0] * 10 + uset[:, 1]).astype(np.int64)
        case _:
            raise ValueError('`nasset` must be "p" if `uset` is not a pandas DataFrame')
''', "mkdofpv: match statement with a class pattern and a guard, bound-method alias for get_level_values"),
    ("C18", "break", ["C18-R3"], N2P, _MKDOFPV_HEAD, '''    match uset:
        case pd.DataFrame():
            if nasset != "p":
                uset = uset.loc[mksetpv(uset, "p", nasset)]
            level = uset.index.get_level_values
            uset_set = level("id") * 10 + level("dof")
        case _ if nasset != "p":
            uset_set = (uset[:, 0] * 10 + uset[:, 1]).astype(np.int64)
        case _:
            raise ValueError('`nasset` must be "p" if `uset` is not a pandas DataFrame')
''', "mkdofpv: match guard inverted (an array table is searched for a set it cannot know)"),
    ("C18", "neutral", [], N2P, _MKDOFPV_TAIL, '''    found = _lookup_keys(uset_set, _dof)
    if found.missing.any():
        if strict:
            raise ValueError("set '{}' does not contain all of the dof in `dof`. These are missing:\\n{}".format(nasset, dof[found.missing]))
        present = ~found.missing
        return found.pv[present], dof[present]
    return found.pv, dof


class _Lookup(NamedTuple):
    pv: np.ndarray
    missing: np.ndarray


def _lookup_keys(table, keys):
    i = np.argsort(table)
    pvi = np.searchsorted(table, keys, sorter=i)
    np.minimum(pvi, i.size - 1, out=pvi)
    pv = i[pvi]
    return _Lookup(pv, table[pv] != keys)
''', "mkdofpv: look-up in a helper that returns a NamedTuple (positions, missing mask)"),
    ("C18", "break", ["C18-R3"], N2P, _MKDOFPV_TAIL, '''    found = _lookup_keys(uset_set, _dof)
    if found.missing.any():
        if strict:
            raise ValueError("missing")
        return found.pv[found.missing], dof[found.missing]
    return found.pv, dof


class _Lookup(NamedTuple):
    pv: np.ndarray
    missing: np.ndarray


def _lookup_keys(table, keys):
    i = np.argsort(table)
    pvi = np.searchsorted(table, keys, sorter=i)
    np.minimum(pvi, i.size - 1, out=pvi)
    pv = i[pvi]
    return _Lookup(pv, table[pv] != keys)
''', "mkdofpv: NamedTuple form in which non-strict keeps the missing rows"),
    ("C18", "neutral", [], N2P, "    pvmajor = (uset_set & major) != 0\n    pvminor = (uset_set & minor) != 0\n",
     "    pvmajor, pvminor = ((uset_set & m) != 0 for m in tuple((major, minor)))\n", "mksetpv: generator expression unpacked into the two membership vectors"),
    ("C18", "neutral", [], LOC, '''    if pv.size == 0:
        return slice(0)
    if pv.size == 1:
        stop = pv[0] + 1
        if stop == 0:
            stop = None
        return slice(pv[0], stop)
''', '''    match pv.size:
        case 0:
            return slice(0)
        case 1:
            start = pv[0]
            stop = start + 1
            return slice(start, None if stop == 0 else stop)
''', "index2slice: match on the size"),
    ("C18", "break", ["C18-R5"], LOC, '''    if pv.size == 0:
        return slice(0)
    if pv.size == 1:
        stop = pv[0] + 1
        if stop == 0:
            stop = None
        return slice(pv[0], stop)
''', '''    match pv.size:
        case 0:
            return slice(0)
        case 1:
            start = pv[0]
            stop = start + 1
            return slice(start, None if stop <= 0 else stop)
''', "index2slice: match form in which a single negative entry runs to the end"),
    ("C18", "neutral", [], LOC, "        arr += 0.0\n", "        np.add(arr, 0.0, out=arr)\n", "_bytes_view: np.add(arr, 0.0, out=arr)"),
    ("C18", "break", ["C18-R4"], N2P, "    edof = np.array([[node, int(i)] for node, arg in dof for i in str(arg)])\n", "    edof = np.array([[node, int(i)] for node, arg in dof for i in sorted(set(str(arg)))])\n", "expanddof: digits de-duplicated and sorted (order of the request lost)"),
    ("C18", "break", ["C18-R4"], N2P, "    edof = np.array([[node, int(i)] for node, arg in dof for i in str(arg)])\n", "    edof = np.array([[node, int(i)] for node, arg in dof for i in reversed(str(arg))])\n", "expanddof: digits walked backwards"),
    ("C18", "break", ["C18-R4"], N2P, "    edof = np.array([[node, int(i)] for node, arg in dof for i in str(arg)])\n", "    edof = np.array([[node, int(i)] for node, arg in sorted(dof.tolist()) for i in str(arg)])\n", "expanddof: request rows sorted by id"),
    ("C18", "neutral", [], N2P, "    edof = np.array([[node, int(i)] for node, arg in dof for i in str(arg)])\n", "    edof = np.array([[node, int(i)] for node, arg in dof for i in list(str(arg))])\n", "expanddof: digits through list()"),
    ("C18", "neutral", [], N2P, "    edof = np.array([[node, int(i)] for node, arg in dof for i in str(arg)])\n", "    rows = []\n    for node, arg in dof:\n        for ch in str(arg):\n            rows.append([node, int(ch)])\n    edof = np.array(rows)\n", "expanddof: digit expansion as a loop nest"),
    ("C18", "break", ["C18-R2"], N2P, "    if np.any(~pvmajor & pvminor):\n        raise ValueError(\"`minorset`", "    if not (minor & major) and np.any(~pvmajor & pvminor):\n        raise ValueError(\"`minorset`", "mksetpv: DOF test skipped whenever the two masks share a bit"),
    ("C18", "neutral", [], N2P, "    if np.any(~pvmajor & pvminor):\n        raise ValueError(\"`minorset`", "    if (minor & major) != minor and np.any(~pvmajor & pvminor):\n        raise ValueError(\"`minorset`", "mksetpv: DOF test skipped when the minor mask lies inside the major mask"),
    ("C18", "break", ["C18-R2"], N2P, "    if np.any(~pvmajor & pvminor):\n        raise ValueError(\"`minorset`", "    if (minor & major) != major and np.any(~pvmajor & pvminor):\n        raise ValueError(\"`minorset`", "mksetpv: DOF test skipped when the MAJOR mask lies inside the minor mask"),
    ("C18", "neutral", [], N2P, "    if np.any(~pvmajor & pvminor):\n        raise ValueError(\"`minorset`", "    if (minor | major) != major and np.any(~pvmajor & pvminor):\n        raise ValueError(\"`minorset`", "mksetpv: mask containment written with |"),
]


# ---------------------------------------------------------------------------------------------------------------------------------------
# pass 3: flags computed as boolean expressions, lambdas / functools.partial / generator helpers, table-driven selection, index and
# enumerate loops, buffers filled column by column, import and local aliases of library functions; typestate-style "established by the
# tests taken" obligations of expanddof / index2slice; the finite world of mask tests with constants and arithmetic
_CLAMP_DOF = "    pvi[pvi == i.size] -= 1\n    pv = i[pvi]\n"
_CLAMP_MAT = "    pvi[pvi == i.size] -= 1\n    pv2 = i[pvi]\n"
_DIGITS = "    edof = np.array([[node, int(i)] for node, arg in dof for i in str(arg)])\n"
_IDS = "        return np.array([[n, i] for n in dof.ravel() for i in rg])\n"
_IDS_ARM = "    if dof.ndim < 2 or dof.shape[1] == 1:\n"
_EMPTY_REQ = "    if dof.size == 0:\n        return np.zeros((0, 2), dtype=np.int64)\n"
_EMPTY_PV = "    if pv.size == 0:\n        return slice(0)\n"
_EVEN = "    if d0 != 0 and np.all(d == d0) and pv[0] >= 0 and pv[-1] >= 0:\n"

RECIPES += [
    # ---- neutral: what the evaluator reads
    ("C18", "neutral", [], LOC, _EVEN, "    uniform = d0 != 0 and np.all(d == d0)\n    if uniform and pv[0] >= 0 and pv[-1] >= 0:\n",
     "index2slice: the even-spacing test computed as a flag (a and b) and tested later"),
    ("C18", "neutral", [], LOC, _EVEN, "    uniform = (d0 != 0) & np.all(d == d0)\n    nonneg = pv[0] >= 0 and pv[-1] >= 0\n    if uniform and nonneg:\n",
     "index2slice: flags combined with & and with `and`"),
    ("C18", "neutral", [], LOC, _EVEN, "    if d0 != 0 and not np.any(d - d0) and pv[0] >= 0 and pv[-1] >= 0:\n",
     "index2slice: all differences equal written as not any(d - d0)"),
    ("C18", "neutral", [], LOC, "        stop = pv[0] + 1\n        if stop == 0:\n            stop = None\n        return slice(pv[0], stop)\n",
     "        stop = pv[0] + 1\n        return slice(pv[0], (stop, None)[int(stop == 0)])\n", "index2slice: stop selected from a pair by a truth value"),
    ("C18", "neutral", [], LOC, "        stop = pv[-1] + d0\n        if stop < 0:\n            stop = None\n",
     "        if (stop := pv[-1] + d0) < 0:\n            stop = None\n", "index2slice: walrus in the stop test"),
    ("C18", "neutral", [], LOC, _EMPTY_PV, "    if not len(pv):\n        return slice(0, 0)\n", "index2slice: empty vector tested with not len()"),
    ("C18", "neutral", [], N2P, _MKSETPV, '''    as_mask = lambda s: mkusetmask(s) if isinstance(s, str) else s
    major, minor = as_mask(major), as_mask(minor)
    uset_set = uset["nasset"].values
    in_set = lambda mask: (uset_set & mask) != 0
    pvmajor = in_set(major)
    pvminor = in_set(minor)
    if np.any(~pvmajor & pvminor):
        raise ValueError("`minorset` is not completely containedin `majorset`")
    return pvminor[pvmajor]
''', "mksetpv: lambdas bound to locals"),
    ("C18", "neutral", [], N2P, _MKSETPV, '''    masks = []
    for spec in (major, minor):
        masks.append(mkusetmask(spec) if isinstance(spec, str) else spec)
    uset_set = uset["nasset"].values
    pvmajor, pvminor = [(uset_set & mask) != 0 for mask in masks]
    stray = pvminor & ~pvmajor
    refused = bool(stray.any())
    if refused:
        raise ValueError("`minorset` is not completely containedin `majorset`")
    return pvminor[np.flatnonzero(pvmajor)]
''', "mksetpv: loop over the two arguments, refusal as a flag, selection by np.flatnonzero"),
    ("C18", "neutral", [], N2P, _REFUSAL, "    if np.setdiff1d(np.flatnonzero(pvminor), np.flatnonzero(pvmajor)).size > 0:\n        raise ValueError(\"`minorset`",
     "mksetpv: refusal written with positions: setdiff1d(flatnonzero(minor), flatnonzero(major))"),
    ("C18", "neutral", [], N2P, _REFUSAL, "    if minor - (minor & major) and np.any(~pvmajor & pvminor):\n        raise ValueError(\"`minorset`",
     "mksetpv: the correct mask shortcut written with arithmetic"),
    ("C18", "neutral", [], N2P, _CLAMP_DOF, "    pvi = np.where(pvi == i.size, pvi - 1, pvi)\n    pv = i[pvi]\n", "mkdofpv: clamp as np.where(index == size, index - 1, index)"),
    ("C18", "neutral", [], N2P, _CLAMP_DOF, "    pvi = np.where(pvi < len(i), pvi, len(i) - 1)\n    pv = i[pvi]\n", "mkdofpv: clamp as np.where(index < size, index, size - 1)"),
    ("C18", "neutral", [], N2P, "    i = np.argsort(uset_set)\n    pvi = np.searchsorted(uset_set, _dof, sorter=i)\n",
     "    search, order_of = np.searchsorted, np.argsort\n    i = order_of(uset_set)\n    pvi = search(uset_set, _dof, sorter=i)\n",
     "mkdofpv: library functions bound to locals"),
    ("C18", "neutral", [], N2P, "    i = np.argsort(uset_set)\n    pvi = np.searchsorted(uset_set, _dof, sorter=i)\n    # since searchsorted can return length as index:\n" + _CLAMP_DOF,
     "    i = np.argsort(uset_set)\n    sorted_keys = np.asarray(uset_set)[i]\n    pvi = sorted_keys.searchsorted(_dof, side=\"left\")\n"
     "    pvi[pvi == len(sorted_keys)] = len(sorted_keys) - 1\n    pv = i[pvi]\n", "mkdofpv: search in a sorted copy of the keys"),
    ("C18", "neutral", [], N2P, "    _dof = dof[:, 0] * 10 + dof[:, 1]\n", "    ids, comps = dof.T\n    _dof = 10 * ids + comps\n", "mkdofpv: request columns unpacked from dof.T"),
    ("C18", "neutral", [], LOC, _MAT_VIEWS, '''    import functools
    as_rows = functools.partial(_bytes_view, dtype=out_dtype)
    haystack = as_rows(haystack).ravel()
    needles = as_rows(needles).ravel()
''', "mat_intersect: functools.partial of the view helper"),
    ("C18", "neutral", [], LOC, '''    if (keep == 0 and r1 <= r2) or keep == 1:
        needles = D1
        haystack = D2
        switch = False
    else:
        needles = D2
        haystack = D1
        switch = True
''', '''    search_d2 = (keep == 0 and r1 <= r2) or keep == 1
    needles, haystack = ((D2, D1), (D1, D2))[bool(search_d2)]
    switch = not search_d2
''', "mat_intersect: roles selected from a pair of pairs by a truth value"),
    ("C18", "neutral", [], N2P, _DIGITS, "    edof = np.array([[node, i] for node, arg in dof for i in map(int, str(arg))])\n", "expanddof: digits through map(int, str(arg))"),
    ("C18", "neutral", [], N2P, _DIGITS, '''    rows = []
    for k in range(len(dof)):
        for ch in str(dof[k, 1]):
            rows.append([dof[k, 0], int(ch)])
    edof = np.array(rows)
''', "expanddof: request walked by position (range(len(dof)))"),
    ("C18", "neutral", [], N2P, _DIGITS, '''    rows = []
    for _, (node, arg) in enumerate(dof):
        rows += [[node, int(ch)] for ch in str(arg)]
    edof = np.array(rows)
''', "expanddof: enumerate and += of a comprehension"),
    ("C18", "neutral", [], N2P, _DIGITS, '''
    def _digit_rows():
        for node, arg in dof:
            for i in str(arg):
                yield [node, int(i)]

    edof = np.array(list(_digit_rows()))
''', "expanddof: digit rows from a nested generator function"),
    ("C18", "neutral", [], N2P, "        rg = range(1, 7) if grids_only else range(7)\n", "        rg = (range(7), range(1, 7))[bool(grids_only)]\n",
     "expanddof: component range selected from a pair"),
    ("C18", "neutral", [], N2P, "        rg = range(1, 7) if grids_only else range(7)\n" + _IDS, '''        rg = np.arange(1 if grids_only else 0, 7)
        ids = dof.ravel()
        edof = np.empty((ids.size * rg.size, 2), dtype=np.int64)
        edof[:, 1] = np.tile(rg, ids.size)
        edof[:, 0] = np.repeat(ids, rg.size)
        return edof
''', "expanddof: id expansion stored column by column into a buffer"),
    ("C18", "neutral", [], N2P, _IDS, '''        pairs = []
        for _, n in enumerate(dof.ravel()):
            pairs.extend([n, i] for i in rg)
        return np.array(pairs)
''', "expanddof: id expansion with enumerate and extend(generator)"),
    ("C18", "neutral", [], N2P, _IDS_ARM, "    if dof.ndim == 1 or dof.shape[-1] < 2:\n", "expanddof: `no component column` written as ndim == 1 or shape[-1] < 2"),
    ("C18", "neutral", [], N2P, _EMPTY_REQ, "    if not dof.size:\n        return np.empty((0, 2), dtype=np.int64)\n", "expanddof: empty request tested with not size"),
    # ---- break: siblings of the seeded changes and the new obligations
    ("C18", "break", ["C18-R4"], N2P, _EMPTY_REQ, "    if dof.size != 0:\n        return np.zeros((0, 2), dtype=np.int64)\n", "expanddof: no rows for every non-empty request"),
    ("C18", "break", ["C18-R4"], N2P, _EMPTY_REQ, "    if dof.size <= 1:\n        return np.zeros((0, 2), dtype=np.int64)\n", "expanddof: a single id answered with no rows (fast path for `small` requests)"),
    ("C18", "break", ["C18-R4"], N2P, _IDS_ARM, "    if dof.ndim <= 2 or dof.shape[1] == 1:\n", "expanddof: two-column requests expanded as ids (ndim <= 2)"),
    ("C18", "break", ["C18-R4"], N2P, _IDS_ARM, "    if dof.ndim < 2 or dof.shape[1] != 1:\n", "expanddof: two-column requests expanded as ids (shape[1] != 1)"),
    ("C18", "break", ["C18-R4"], N2P, _IDS_ARM, "    if dof.ndim < 2 or dof.shape[1] <= 2:\n", "expanddof: two-column requests expanded as ids (shape[1] <= 2)"),
    ("C18", "break", ["C18-R4"], N2P, _DIGITS, "    edof = np.array([[node, int(i)] for node, arg in dof for i in str(arg)[::-1]])\n", "expanddof: digit string reversed by a slice"),
    ("C18", "break", ["C18-R4"], N2P, _DIGITS, "    edof = np.array([[node, int(i)] for node, arg in dof for i in dict.fromkeys(str(arg))])\n", "expanddof: repeated digits dropped (dict.fromkeys)"),
    ("C18", "break", ["C18-R4"], N2P, _DIGITS, "    edof = np.array([[node, i] for node, arg in dof for i in map(int, sorted(str(arg)))])\n", "expanddof: digits sorted under a map()"),
    ("C18", "break", ["C18-R4"], N2P, _DIGITS, "    edof = np.array([[node, int(i)] for node, arg in dof[::-1] for i in str(arg)])\n", "expanddof: request rows walked backwards"),
    ("C18", "break", ["C18-R4"], N2P, "        rg = range(1, 7) if grids_only else range(7)\n" + _IDS, '''        rg = np.arange(1 if grids_only else 0, 7)
        ids = dof.ravel()
        edof = np.empty((ids.size * rg.size, 2), dtype=np.int64)
        edof[:, 0] = np.tile(ids, rg.size)
        edof[:, 1] = np.repeat(rg, ids.size)
        return edof
''', "expanddof: buffer filled component-major (tile of the ids, repeat of the components)"),
    ("C18", "break", ["C18-R3"], N2P, _CLAMP_DOF, "    pvi = np.where(pvi == i.size, pvi, pvi - 1)\n    pv = i[pvi]\n", "mkdofpv: np.where clamp with the arms exchanged"),
    ("C18", "break", ["C18-R3"], N2P, _CLAMP_DOF, "    pvi = np.where(pvi > i.size, pvi - 1, pvi)\n    pv = i[pvi]\n", "mkdofpv: np.where clamp on index > size (never true)"),
    ("C18", "break", ["C18-R3"], LOC, _CLAMP_MAT, "    pvi = np.where(pvi < i.size, pvi, i.size)\n    pv2 = i[pvi]\n", "mat_intersect: np.where that leaves index == size in place"),
    ("C18", "break", ["C18-R5"], LOC, _EMPTY_PV, "    if pv.size != 0:\n        return slice(0)\n", "index2slice: slice(0) for every non-empty vector"),
    ("C18", "break", ["C18-R5"], LOC, _EMPTY_PV, "    if pv.size < 2 and not strict:\n        return slice(0)\n", "index2slice: slice(0) also for a single entry"),
    ("C18", "break", ["C18-R5"], LOC, _EVEN, "    uniform = d0 != 0 or np.all(d == d0)\n    if uniform and pv[0] >= 0 and pv[-1] >= 0:\n",
     "index2slice: flag computed with `or` (unevenly spaced entries become a slice)"),
    ("C18", "break", ["C18-R2"], N2P, _REFUSAL, "    if minor != 4194304 and np.any(~pvmajor & pvminor):\n        raise ValueError(\"`minorset`",
     "mksetpv: containment not tested for one particular minor mask (a constant the 4-bit world does not hold)"),
    ("C18", "break", ["C18-R2"], N2P, _REFUSAL, "    if minor > major and np.any(~pvmajor & pvminor):\n        raise ValueError(\"`minorset`",
     "mksetpv: containment tested only when minor > major as integers"),
    ("C18", "break", ["C18-R2"], N2P, _REFUSAL, "    if minor + major != (minor | major) and np.any(~pvmajor & pvminor):\n        raise ValueError(\"`minorset`",
     "mksetpv: containment tested only when the masks overlap (written with arithmetic)"),
    ("C18", "break", ["C18-R2"], N2P, _REFUSAL, "    stray = ~pvmajor & pvminor\n    refused = stray.any() and stray.all()\n    if refused:\n        raise ValueError(\"`minorset`",
     "mksetpv: refusal flag that needs every DOF to be outside"),
]

RECIPES += [
    ("C18", "break", ["C18-R4"], N2P, _IDS, "        return np.array([[n, i] for n in np.unique(dof) for i in rg])\n", "expanddof: ids sorted and de-duplicated before the expansion"),
    ("C18", "break", ["C18-R4"], N2P, _IDS, "        return np.array([[n, i] for n in sorted(dof.ravel()) for i in rg])\n", "expanddof: ids sorted before the expansion"),
    ("C18", "neutral", [], N2P, _IDS, "        return np.array([[n, i] for n in dof[:, None].ravel() for i in rg])\n", "expanddof: ids through an inserted axis and ravel"),
    ("C18", "neutral", [], LOC, _CLAMP_MAT, "    last = i.size - 1\n    pvi[pvi > last] = last\n    pv2 = i[pvi]\n", "mat_intersect: clamp written as index > size - 1 -> size - 1"),
    ("C18", "neutral", [], LOC, _CLAMP_MAT, "    pvi[i.size <= pvi] = i.size - 1\n    pv2 = i[pvi]\n", "mat_intersect: clamp written as size <= index"),
    ("C18", "break", ["C18-R3"], LOC, _CLAMP_MAT, "    last = i.size - 1\n    pvi[pvi > last + 1] = last\n    pv2 = i[pvi]\n", "mat_intersect: clamp condition index > size (never true)"),
]

# ---- pass 4 (fresh round N35 and own refactorings O1..O5): row labels selected directly, label tables by position, linear-algebra /
# broadcasting spellings, generator reductions, boundary tests re-expressed, with / try-finally blocks, ufunc out= / where=
_KEYS_DF = '''        uset_set = uset.index.get_level_values("id") * 10 + uset.index.get_level_values(
            "dof"
        )
'''
_PART = '''        if nasset != "p":
            setpv = mksetpv(uset, "p", nasset)
            uset = uset.loc[setpv]
''' + _KEYS_DF
_REQ_KEYS = "    _dof = dof[:, 0] * 10 + dof[:, 1]\n"
_CHK = "    chk = uset_set[pv] != _dof\n    if chk.any():\n"
_FILT = "            chk = ~chk\n            pv = pv[chk]\n            dof = dof[chk]\n"
_IDS2 = "        rg = range(1, 7) if grids_only else range(7)\n" + _IDS
_ASIS = "    elif dof[:, 1].max() <= 6:\n"
_GUARD = "    if (edof[:, 1] > 6).any():\n"
_SUBSET = "    if np.any(~pvmajor & pvminor):\n"
_OP2_CLEAR = '''        if any(sset):
            uset[sset] = uset[sset] & ~np.array(2, uset.dtype)
        self.rdop2eot()
        return uset
'''
RECIPES += [
    # the table side of mkdofpv
    ("C18", "neutral", [], N2P, _PART, '''        index = uset.index
        if nasset != "p":
            index = index[mksetpv(uset, "p", nasset)]
        uset_set = index.get_level_values("id") * 10 + index.get_level_values("dof")
''', "mkdofpv: the row labels are partitioned directly (uset.index[mask]) instead of uset.loc[mask].index"),
    ("C18", "break", ["C18-R3"], N2P, _PART, '''        index = uset.index
        if nasset != "p":
            index = index[mksetpv(uset, nasset, "p")]
        uset_set = index.get_level_values("id") * 10 + index.get_level_values("dof")
''', "mkdofpv: row labels partitioned by mksetpv with major and minor exchanged"),
    ("C18", "break", ["C18-R3"], N2P, _PART, '''        index = uset.index
        uset_set = index.get_level_values("id") * 10 + index.get_level_values("dof")
''', "mkdofpv: row labels never restricted to the requested set"),
    ("C18", "break", ["C18-R3"], N2P, _PART, '''        full = uset.index
        if nasset != "p":
            uset = uset.loc[mksetpv(uset, "p", nasset)]
        uset_set = uset.index.get_level_values("id") * 10 + full.get_level_values("dof")
''', "mkdofpv: id level read from the partitioned labels, dof level from the full table"),
    ("C18", "neutral", [], N2P, _PART, '''        if nasset != "p":
            uset = uset.iloc[np.flatnonzero(mksetpv(uset, "p", nasset))]
        labels = uset.index.to_frame(index=False)
        uset_set = (labels["id"] * 10 + labels["dof"]).to_numpy()
''', "mkdofpv: rows selected by position (iloc + flatnonzero), levels read as columns of index.to_frame()"),
    ("C18", "neutral", [], N2P, _KEYS_DF, "        uset_set = uset.index.get_level_values(0) * 10 + uset.index.get_level_values(1)\n",
     "mkdofpv: index levels by position (make_uset lays the labels out as (id, dof))"),
    ("C18", "break", ["C18-R3"], N2P, _KEYS_DF, "        uset_set = uset.index.get_level_values(1) * 10 + uset.index.get_level_values(0)\n",
     "mkdofpv: index levels by position, exchanged (dof*10 + id)"),
    ("C18", "neutral", [], N2P, _KEYS_DF, "        labels = np.array(uset.index.tolist())\n        uset_set = labels[:, 0] * 10 + labels[:, 1]\n",
     "mkdofpv: keys from the table of label tuples"),
    ("C18", "neutral", [], N2P, _KEYS_DF, '''        uset_set = uset.index.get_level_values("id").to_numpy() * 10 + uset.index.get_level_values("dof").to_numpy()\n''',
     "mkdofpv: levels converted with .to_numpy() before the arithmetic"),
    # the requested side
    ("C18", "neutral", [], N2P, _REQ_KEYS, "    _dof = dof @ np.array([10, 1])\n", "mkdofpv: requested keys as a matrix-vector product"),
    ("C18", "neutral", [], N2P, _REQ_KEYS, "    _dof = dof.dot((10, 1))\n", "mkdofpv: requested keys as dof.dot((10, 1))"),
    ("C18", "break", ["C18-R3"], N2P, _REQ_KEYS, "    _dof = dof @ np.array([100, 1])\n", "mkdofpv: requested keys id*100 + dof against table keys id*10 + dof"),
    ("C18", "break", ["C18-R3"], N2P, _REQ_KEYS, "    _dof = dof @ np.array([1, 10])\n", "mkdofpv: weights exchanged in the matrix-vector product"),
    ("C18", "neutral", [], N2P, _REQ_KEYS, "    _dof = dof[..., 0] * 10 + dof[..., 1]\n", "mkdofpv: columns taken with an Ellipsis index"),
    ("C18", "neutral", [], N2P, "    dof = expanddof(dof, grids_only)\n    _dof", "    dof = expanddof(dof, grids_only=bool(grids_only))\n    _dof",
     "mkdofpv: the flag handed on as bool(flag)"),
    # the search and the re-check
    ("C18", "neutral", [], N2P, _CLAMP_DOF, "    pv = i.take(pvi, mode=\"clip\")\n", "mkdofpv: clamp by take(mode='clip')"),
    ("C18", "neutral", [], LOC, _CLAMP_MAT, "    pv2 = np.take(i, pvi, mode=\"wrap\")\n", "mat_intersect: index == size wrapped to 0 by take(mode='wrap'); the re-check decides"),
    ("C18", "break", ["C18-R3"], N2P, _CLAMP_DOF, "    pv = i.take(pvi, mode=\"raise\")\n", "mkdofpv: take(mode='raise') does not clamp"),
    ("C18", "neutral", [], N2P, _MKDOFPV_TAIL.split("    chk = ")[0], '''    i = uset_set.argsort()
    keys = uset_set.to_numpy() if hasattr(uset_set, "to_numpy") else uset_set
    pvi = np.searchsorted(keys, _dof, sorter=i)
    pvi[pvi == i.size] -= 1
    pv = i[pvi]

''', "mkdofpv: the keys searched are .to_numpy() of the keys sorted"),
    ("C18", "neutral", [], N2P, _CHK, "    chk = uset_set[pv] != _dof\n    if len(dof[chk]) > 0:\n", "mkdofpv: `some DOF missing` tested as len(dof[chk]) > 0"),
    ("C18", "neutral", [], N2P, _CHK, "    chk = uset_set[pv] != _dof\n    if dof[chk].size:\n", "mkdofpv: `some DOF missing` tested as dof[chk].size"),
    ("C18", "neutral", [], N2P, _CHK, "    chk = uset_set[pv] != _dof\n    if not np.array_equal(uset_set[pv], _dof):\n", "mkdofpv: `some DOF missing` tested with np.array_equal"),
    ("C18", "neutral", [], N2P, _FILT, "            chk = ~chk\n            pv = pv[chk]\n            dof = dof[np.flatnonzero(chk)]\n",
     "mkdofpv: positions filtered by the match mask, DOF list by its index vector (same rows, same order)"),
    ("C18", "break", ["C18-R3"], N2P, _FILT, "            pv = pv[~chk]\n            dof = dof[np.flatnonzero(chk)]\n",
     "mkdofpv: positions keep the matches, the DOF list keeps the mismatches"),
    # mksetpv
    ("C18", "neutral", [], N2P, _SUBSET, "    if not np.array_equal(pvminor & pvmajor, pvminor):\n", "mksetpv: containment as array_equal(minor & major, minor)"),
    ("C18", "break", ["C18-R2"], N2P, _SUBSET, "    if not np.array_equal(pvminor & pvmajor, pvmajor):\n", "mksetpv: array_equal against major (refuses proper subsets, accepts supersets)"),
    ("C18", "neutral", [], N2P, _SUBSET, "    if any(mn and not mj for mn, mj in zip(pvminor, pvmajor)):\n", "mksetpv: containment as a generator over zip(minor, major)"),
    ("C18", "break", ["C18-R2"], N2P, _SUBSET, "    if any(mj and not mn for mn, mj in zip(pvminor, pvmajor)):\n", "mksetpv: generator test with the roles exchanged"),
    ("C18", "neutral", [], N2P, _SUBSET, "    if (pvminor & ~pvmajor).max():\n", "mksetpv: containment as the maximum of a boolean vector"),
    ("C18", "neutral", [], N2P, '    uset_set = uset["nasset"].values\n    pvmajor', '    uset_set = uset.nasset.to_numpy()\n    pvmajor', "mksetpv: column by attribute, .to_numpy()"),
    # expanddof
    ("C18", "neutral", [], N2P, _ASIS, "    elif dof[:, 1].max() < 7:\n", "expanddof: max() < 7"),
    ("C18", "break", ["C18-R4"], N2P, _ASIS, "    elif dof[:, 1].max() < 8:\n", "expanddof: max() < 8 lets a 7 through unexpanded"),
    ("C18", "neutral", [], N2P, _ASIS, "    elif all(comp <= 6 for comp in dof[:, 1]):\n", "expanddof: all() over a generator"),
    ("C18", "neutral", [], N2P, _ASIS, "    elif dof[..., 1].max() <= 6:\n", "expanddof: component column by Ellipsis"),
    ("C18", "neutral", [], N2P, _GUARD, "    if edof[:, 1].max() >= 7:\n", "expanddof: guard as max() >= 7"),
    ("C18", "break", ["C18-R4"], N2P, _GUARD, "    if edof[:, 1].max() >= 8:\n", "expanddof: guard as max() >= 8 (a 7 is returned)"),
    ("C18", "neutral", [], N2P, _GUARD, "    if any(comp > 6 for _, comp in edof):\n", "expanddof: guard as any() over the rows"),
    ("C18", "break", ["C18-R4"], N2P, _GUARD, "    if any(comp > 7 for _, comp in edof):\n", "expanddof: generator guard with the wrong bound"),
    ("C18", "neutral", [], N2P, _IDS2, '''        rg = np.arange(1 if grids_only else 0, 7)
        pairs = np.empty((dof.size, rg.size, 2), dtype=np.int64)
        pairs[..., 0] = dof.reshape(-1, 1)
        pairs[..., 1] = rg
        return pairs.reshape(-1, 2)
''', "expanddof: id x component product by broadcasting into a (ids, components, 2) buffer"),
    ("C18", "break", ["C18-R4"], N2P, _IDS2, '''        rg = np.arange(1 if grids_only else 0, 7)
        pairs = np.empty((rg.size, dof.size, 2), dtype=np.int64)
        pairs[..., 0] = dof.ravel()
        pairs[..., 1] = rg[:, None]
        return pairs.reshape(-1, 2)
''', "expanddof: broadcast buffer with the component axis first (component-major rows)"),
    ("C18", "neutral", [], N2P, _IDS2, '''        rg = np.arange(1 if grids_only else 0, 7)
        ids, comps = np.meshgrid(dof.ravel(), rg, indexing="ij")
        return np.column_stack((ids.ravel(), comps.ravel()))
''', "expanddof: np.meshgrid(indexing='ij') raveled into two columns"),
    ("C18", "break", ["C18-R4"], N2P, _IDS2, '''        rg = np.arange(1 if grids_only else 0, 7)
        ids, comps = np.meshgrid(dof.ravel(), rg)
        return np.column_stack((ids.ravel(), comps.ravel()))
''', "expanddof: np.meshgrid with the default 'xy' indexing (component-major rows)"),
    # index2slice
    ("C18", "neutral", [], LOC, _EVEN, "    if d0 and np.all(d == d0) and pv[0] >= 0 and pv[-1] >= 0:\n", "index2slice: step tested by its truth value"),
    ("C18", "neutral", [], LOC, "    d = np.diff(pv)\n", "    d = pv[1:] - pv[:-1]\n", "index2slice: differences written out"),
    ("C18", "break", ["C18-R5"], LOC, _EVEN, "    if d0 and np.any(d == d0) and pv[0] >= 0 and pv[-1] >= 0:\n", "index2slice: any() instead of all() differences equal"),
    # _rdop2uset
    ("C18", "neutral", [], OP2, _OP2_CLEAR, '''        try:
            if any(sset):
                uset[sset] = uset[sset] & ~np.array(2, uset.dtype)
        finally:
            self.rdop2eot()
        return uset
''', "_rdop2uset: the clearing inside try / finally"),
    ("C18", "neutral", [], OP2, "            uset[sset] = uset[sset] & ~np.array(2, uset.dtype)\n", "            np.bitwise_and(uset, ~np.array(2, uset.dtype), out=uset, where=sset)\n",
     "_rdop2uset: the clearing as a ufunc call with out= and where="),
    ("C18", "break", ["C18-R1b"], OP2, "            uset[sset] = uset[sset] & ~np.array(2, uset.dtype)\n", "            np.bitwise_and(uset, ~np.array(4, uset.dtype), out=uset, where=sset)\n",
     "_rdop2uset: ufunc form clearing the wrong bit"),
    # blocks
    ("C18", "neutral", [], N2P, _MKDOFPV_TAIL.split("    chk = ")[0], '''    with np.errstate(all="raise"):
        i: np.ndarray = np.argsort(uset_set)
        pvi: np.ndarray = np.searchsorted(uset_set, _dof, sorter=i)
        pvi[pvi == i.size] -= 1
        pv = i[pvi]

''', "mkdofpv: the search inside a `with` block, annotated assignments"),
    ("C18", "break", ["C18-R3"], N2P, _MKDOFPV_TAIL.split("    chk = ")[0], '''    with np.errstate(all="raise"):
        i: np.ndarray = np.argsort(uset_set)
        pvi: np.ndarray = np.searchsorted(uset_set, _dof, sorter=i)
        pv = i[pvi]

''', "mkdofpv: inside a `with` block, the clamp dropped"),
]

RECIPES += [
    ("C18", "neutral", [], N2P, _PART, '''        setpv = slice(None) if nasset == "p" else mksetpv(uset, "p", nasset)
        index = uset.index[setpv]
        uset_set = index.get_level_values("id") * 10 + index.get_level_values("dof")
''', "mkdofpv: the selection is slice(None) for the p-set, the partition vector otherwise"),
    ("C18", "break", ["C18-R3"], N2P, _PART, '''        setpv = slice(None) if nasset != "p" else mksetpv(uset, "p", nasset)
        index = uset.index[setpv]
        uset_set = index.get_level_values("id") * 10 + index.get_level_values("dof")
''', "mkdofpv: slice(None) for every set but the p-set (the table is never restricted)"),
]

# ---------------------------------------------------------------------------------------------- C18-R6: flippv / index2bool on a finite world
_FLIP = '''    tf = np.ones(n, dtype=bool)
    tf[pv] = False
    return tf.nonzero()[0]
'''
_I2B = '''    tf = np.zeros(n, dtype=bool)
    tf[pv] = True
    return tf
'''


def _r6(kind, old, new, desc):
    return ("C18", kind, ["C18-R6"] if kind == "break" else [], LOC, old, new, desc)


RECIPES += [
    # ---- correct variants of the complement
    _r6("neutral", _FLIP, "    return np.setdiff1d(np.arange(n), np.arange(n)[pv])\n", "flippv: set difference with the positions pv addresses (arange(n)[pv])"),
    _r6("neutral", _FLIP, "    return np.delete(np.arange(n), pv)\n", "flippv: np.delete of the addressed positions (a mask of the wrong length is a ValueError instead of an IndexError)"),
    _r6("neutral", _FLIP, "    return np.flatnonzero(~index2bool(pv, n))\n", "flippv: through index2bool"),
    _r6("neutral", _FLIP, "    idx = np.arange(n)\n    return idx[~np.isin(idx, idx[pv])]\n", "flippv: isin on the addressed positions"),
    _r6("neutral", _FLIP, "    idx = np.arange(n)\n    return idx[np.isin(idx, idx[pv], invert=True)]\n", "flippv: isin(invert=True) on the addressed positions"),
    _r6("neutral", _FLIP, "    mask = np.zeros((n,), dtype=np.bool_)\n    mask[pv] = 1\n    return np.where(mask == False)[0]\n", "flippv: selected mask, where(mask == False)"),
    _r6("neutral", _FLIP, "    hits = np.zeros(n, dtype=int)\n    hits[pv] += 1\n    (notpv,) = np.nonzero(hits == 0)\n    return notpv\n", "flippv: hit counter"),
    _r6("neutral", _FLIP, "    tf = np.empty(n, dtype=bool)\n    tf.fill(True)\n    tf[pv] = False\n    return np.array([i for i in range(n) if tf[i]], dtype=np.intp)\n",
        "flippv: np.empty + fill, positions by a comprehension with an integer dtype"),
    _r6("neutral", _FLIP, "    pv = np.asarray(pv)\n    if pv.dtype == bool and pv.size == n:\n        return np.flatnonzero(~pv)\n    tf = np.ones(n, dtype=bool)\n    tf[pv] = False\n    return tf.nonzero()[0]\n",
        "flippv: a mask of the right length is complemented directly"),
    _r6("neutral", _FLIP, "    pv = np.atleast_1d(pv)\n    if pv.dtype.kind == 'b':\n        if pv.size != n:\n            raise IndexError('mask length')\n        pv = pv.nonzero()[0]\n"
        "    if pv.size and (pv.min() < -n or pv.max() >= n):\n        raise IndexError('index out of range')\n    return np.setdiff1d(np.arange(n), np.where(pv < 0, pv + n, pv))\n",
        "flippv: negative indices wrapped by hand, mask converted to positions, then a set difference on values"),
    _r6("neutral", _FLIP, "    gone = {range(n)[k] for k in np.arange(n)[pv]}\n    return np.array(sorted(set(range(n)) - gone), dtype=int)\n", "flippv: Python sets of the addressed positions"),
    _r6("neutral", _FLIP, "    tf = np.ones(n, dtype=bool)\n    for k in np.arange(n)[pv]:\n        tf[k] = False\n    return tf.nonzero()[0]\n", "flippv: loop over the addressed positions"),
    # ---- the complement of the values of pv instead of the positions it addresses (siblings of seed K)
    _r6("break", _FLIP, "    return np.setdiff1d(np.arange(n), pv)\n", "flippv: set difference with the values of pv (seed K)"),
    _r6("break", _FLIP, "    idx = np.arange(n)\n    return idx[~np.isin(idx, pv)]\n", "flippv: isin on the values of pv"),
    _r6("break", _FLIP, "    idx = np.arange(n)\n    return idx[np.isin(idx, pv, invert=True)]\n", "flippv: isin(invert=True) on the values of pv"),
    _r6("break", _FLIP, "    gone = set(pv.tolist())\n    return np.array([i for i in range(n) if i not in gone], dtype=int)\n", "flippv: Python set of the values of pv"),
    _r6("break", _FLIP, "    return np.setdiff1d(np.arange(n), np.abs(pv))\n", "flippv: negative indices mirrored instead of counted from the end"),
    _r6("break", _FLIP, "    return np.setdiff1d(np.arange(n), np.asarray(pv) % n)\n", "flippv: indices wrapped, but a boolean mask is read as the integers 0 / 1"),
    _r6("break", _FLIP, "    tf = np.ones(n, dtype=bool)\n    np.put(tf, pv, False)\n    return tf.nonzero()[0]\n", "flippv: np.put reads a boolean mask as the integers 0 / 1"),
    _r6("break", _FLIP, "    pv = np.asarray(pv)\n    if pv.dtype != bool and pv.size and pv.min() < 0:\n        raise ValueError('negative index')\n    tf = np.ones(n, dtype=bool)\n    tf[pv] = False\n    return tf.nonzero()[0]\n",
        "flippv: from-the-end indices refused"),
    _r6("break", _FLIP, "    tf = np.ones(n, dtype=bool)\n    tf[pv] = False\n    return np.array([i for i, t in enumerate(tf) if t])\n", "flippv: an empty complement comes back as a float array (not an index vector)"),
    _r6("break", _FLIP, "    tf = np.ones(n, dtype=bool)\n    tf[pv] = False\n    return tf.nonzero()[0][::-1]\n", "flippv: complement in descending order"),
    _r6("break", _FLIP, "    tf = np.zeros(n, dtype=bool)\n    tf[pv] = False\n    return tf.nonzero()[0]\n", "flippv: scratch vector starts all False"),
    _r6("break", _FLIP, "    tf = np.ones(n, dtype=bool)\n    tf[pv] = False\n    return tf\n", "flippv: the mask returned instead of the positions"),
    # ---- index2bool
    _r6("neutral", _I2B, "    return np.isin(np.arange(n), np.arange(n)[pv])\n", "index2bool: membership in the addressed positions"),
    _r6("neutral", _I2B, "    tf = np.full(n, False)\n    tf[np.arange(n)[pv]] = True\n    return tf\n", "index2bool: store through the addressed positions"),
    _r6("neutral", _I2B, "    return np.bincount(np.arange(n)[pv], minlength=n) > 0\n", "index2bool: bincount of the addressed positions"),
    _r6("neutral", _I2B, "    tf = np.ones(n, dtype=bool)\n    tf[pv] = False\n    return ~tf\n", "index2bool: complement of the complement"),
    _r6("break", _I2B, "    return np.isin(np.arange(n), pv)\n", "index2bool: membership in the values of pv"),
    _r6("break", _I2B, "    tf = np.zeros(n, dtype=int)\n    tf[pv] = 1\n    return tf\n", "index2bool: an integer 0 / 1 vector (fancy index, not a mask)"),
    _r6("break", _I2B, "    tf = np.zeros(n + 1, dtype=bool)\n    tf[pv] = True\n    return tf[:n]\n", "index2bool: scratch vector one longer (from-the-end indices land one off)"),
    _r6("break", _I2B, "    tf = np.zeros(n, dtype=bool)\n    tf[np.abs(pv)] = True\n    return tf\n", "index2bool: negative indices mirrored"),
]

RECIPES += [
    # own refactorings of pass 5 (single-replacement parts)
    _r6("neutral", _FLIP, "    if len(pv) == 0:\n        return np.arange(n)\n    keep = ~np.zeros(n, dtype='bool')\n    try:\n        keep[pv] = False\n    except IndexError:\n        raise\n    return (hits := np.where(keep))[0]\n",
        "flippv: early exit for an empty vector, try / except re-raise, walrus"),
    _r6("neutral", _FLIP, "    def complement(sel):\n        return np.delete(np.arange(n), sel)\n\n    return complement(pv)\n", "flippv: nested function closing over n"),
    _r6("neutral", _FLIP, "    sel = index2bool(pv, n)\n    return np.extract(np.logical_xor(sel, True), np.arange(n))\n", "flippv: extract where the index2bool mask is False"),
    _r6("neutral", _FLIP, "    tf = np.zeros(n, dtype=bool)\n    tf[pv] = True\n    np.logical_not(tf, out=tf)\n    (notpv, *_) = tf.nonzero()\n    return notpv\n", "flippv: in-place logical_not(out=), starred unpacking"),
    _r6("neutral", _FLIP, "    tf = np.ones(n, dtype=bool)\n    rev = tf[::-1]\n    tf[pv] = False\n    return n - 1 - rev.nonzero()[0][::-1]\n", "flippv: positions read through a reversed view taken before the store"),
    _r6("neutral", _I2B, "    mark = lambda tf: (tf.__setitem__(pv, True), tf)[1]\n    return mark(np.zeros(n, dtype=bool))\n", "index2bool: store inside a lambda"),
    _r6("neutral", _I2B, "    hits = np.zeros(n, dtype=np.intp)\n    hits[pv] = 1\n    return hits.astype(bool)\n", "index2bool: integer scratch vector converted to a mask"),
    _r6("neutral", _I2B, "    tf = np.full((n,), False, dtype=np.bool_)\n    if np.size(pv):\n        tf[pv] = True\n    return tf\n", "index2bool: store skipped for an empty vector"),
    _r6("break", _FLIP, "    tf = np.ones(n, dtype=bool)\n    rev = tf[::-1].copy()\n    tf[pv] = False\n    return n - 1 - rev.nonzero()[0][::-1]\n", "flippv: positions read from a copy taken before the store"),
    _r6("break", _FLIP, "    if len(pv) == 0:\n        return np.arange(n)\n    if pv[0] < 0:\n        pv = pv + n - 1\n    keep = np.ones(n, dtype=bool)\n    keep[pv] = False\n    return keep.nonzero()[0]\n",
        "flippv: from-the-end indices wrapped one off"),
    _r6("break", _I2B, "    tf = np.full((n,), False, dtype=np.bool_)\n    if np.any(pv):\n        tf[pv] = True\n    return tf\n", "index2bool: store skipped when pv holds only zeros / False ([0] selects position 0)"),
]
