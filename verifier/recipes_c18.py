"""Self-test recipes of C18 (same tuple format as selftest.RECIPES): behaviour-preserving rewrites the value-level rules must accept and
behaviour-breaking edits each obligation must report."""

N2P = "pyyeti/nastran/n2p.py"
LOC = "pyyeti/locate.py"
OP2 = "pyyeti/nastran/op2.py"

_MKSETPV = '''    if isinstance(major, str):
        major = mkusetmask(major)
    if isinstance(minor, str):
        minor = mkusetmask(minor)
    uset_set = uset["nasset"].values
    pvmajor = (uset_set & major) != 0
    pvminor = (uset_set & minor) != 0
    if np.any(~pvmajor & pvminor):
        raise ValueError("`minorset` is not completely containedin `majorset`")
    pv = pvminor[pvmajor]
    return pv
'''

_MKDOFPV_TAIL = '''    i = np.argsort(uset_set)
    pvi = np.searchsorted(uset_set, _dof, sorter=i)
    # since searchsorted can return length as index:
    pvi[pvi == i.size] -= 1
    pv = i[pvi]

    chk = uset_set[pv] != _dof
    if chk.any():
        if strict:
            msg = (
                f"set '{nasset}' does not contain all of the dof in "
                f"`dof`. These are missing:\\n{dof[chk]}"
            )
            raise ValueError(msg)
        else:
            chk = ~chk
            pv = pv[chk]
            dof = dof[chk]

    return pv, dof
'''

_MAT_TAIL = '''    i = haystack.argsort()
    pvi = np.searchsorted(haystack, needles, sorter=i)

    # since searchsorted can return length as index:
    pvi[pvi == i.size] -= 1
    pv2 = i[pvi]

    # trim pv2 down to exact matches and create pv1:
    pv1 = np.where(haystack[pv2] == needles)[0]
    pv2 = pv2[pv1]

    if switch:
        pv1, pv2 = pv2, pv1

    return pv1, pv2
'''

_EXPAND = '''    if dof.ndim < 2 or dof.shape[1] == 1:
        rg = range(1, 7) if grids_only else range(7)
        return np.array([[n, i] for n in dof.ravel() for i in rg])
    elif dof[:, 1].max() <= 6:
        return dof
    edof = np.array([[node, int(i)] for node, arg in dof for i in str(arg)])
    if (edof[:, 1] > 6).any():
        raise ValueError("found DOF > 6?")
    return edof
'''

RECIPES = [
    # ------------------------------------------------------------------ behaviour-preserving rewrites
    ("C18", "neutral", [], N2P, _MKSETPV, '''    major = mkusetmask(major) if isinstance(major, str) else major
    bits = uset["nasset"].values
    if isinstance(minor, str):
        minor = mkusetmask(nasset=minor)
    in_minor = (minor & bits) != 0
    in_major = 0 != (bits & major)
    outside = in_minor & ~in_major
    if outside.any():
        raise ValueError("`minorset` is not completely containedin `majorset`")
    return in_minor[in_major]
''', "mksetpv: conditional expression, renamed locals, commuted &, .any() method, keyword argument"),
    ("C18", "neutral", [], N2P, "    if np.any(~pvmajor & pvminor):\n        raise ValueError(\"`minorset`",
     "    if (minor & ~major) and np.any(~pvmajor & pvminor):\n        raise ValueError(\"`minorset`",
     "mksetpv: table scan skipped when the minor mask has no bit outside the major mask (the correct shortcut)"),
    ("C18", "neutral", [], N2P, _MKDOFPV_TAIL, '''    order = np.argsort(uset_set)
    ins = np.minimum(np.searchsorted(uset_set, _dof, sorter=order), order.size - 1)
    where = order[ins]
    found = uset_set[where] == _dof
    if not found.all():
        if strict:
            raise ValueError(f"set '{nasset}' does not contain all of the dof in `dof`.")
        where = where[found]
        dof = dof[found]
    return where, dof
''', "mkdofpv: np.minimum clamp, == mask with .all(), early raise, renamed locals"),
    ("C18", "neutral", [], N2P, _MKDOFPV_TAIL, '''    i = np.argsort(uset_set)
    pvi = np.searchsorted(uset_set, _dof, side="left", sorter=i)
    pvi = np.where(pvi == len(i), len(i) - 1, pvi)
    pv = i[pvi]
    chk = uset_set[pv] != _dof
    if strict and chk.any():
        raise ValueError(f"set '{nasset}' does not contain all of the dof in `dof`. These are missing:\\n{dof[chk]}")
    keep = ~chk
    return pv[keep], dof[keep]
''', "mkdofpv: np.where clamp with len(), strict test first, exact-match filter applied in every non-raising regime"),
    ("C18", "neutral", [], N2P, '''    i = np.argsort(uset_set)
    pvi = np.searchsorted(uset_set, _dof, sorter=i)
    # since searchsorted can return length as index:
    pvi[pvi == i.size] -= 1
    pv = i[pvi]
''', '''    def _positions(keys, wanted):
        srt = np.argsort(keys)
        at = np.searchsorted(keys, wanted, sorter=srt)
        at[at == srt.shape[0]] = srt.shape[0] - 1
        return srt[at]

    pv = _positions(uset_set, _dof)
''', "mkdofpv: look-up extracted into a nested helper, clamp written as an assignment of size - 1"),
    ("C18", "neutral", [], LOC, _MAT_TAIL, '''    order = haystack.argsort(kind="stable")
    at = haystack.searchsorted(needles, sorter=order)
    at[at == len(order)] -= 1
    hpos = order[at]
    match = haystack[hpos] == needles
    npos = match.nonzero()[0]
    hpos = hpos[match]
    return (hpos, npos) if switch else (npos, hpos)
''', "mat_intersect: method forms, boolean-mask trimming, conditional return instead of the swap"),
    ("C18", "neutral", [], LOC, "    pv1 = np.where(haystack[pv2] == needles)[0]", "    pv1 = np.flatnonzero(needles == haystack[pv2])",
     "mat_intersect: flatnonzero, commuted =="),
    ("C18", "neutral", [], LOC, "    haystack = _bytes_view(haystack, out_dtype).ravel()\n", '''    haystack = np.ascontiguousarray(haystack, dtype=out_dtype)
    if np.issubdtype(haystack.dtype, np.floating):
        haystack += 0.0
    haystack = haystack.view(np.dtype((np.void, haystack.dtype.itemsize * haystack.shape[-1]))).ravel()
''', "mat_intersect: _bytes_view inlined for the haystack"),
    ("C18", "neutral", [], LOC, "    out_dtype = np.result_type(haystack.dtype, needles.dtype)", "    out_dtype = np.promote_types(needles.dtype, haystack.dtype)",
     "mat_intersect: promote_types of the two dtypes"),
    ("C18", "neutral", [], N2P, _EXPAND, '''    if dof.ndim < 2 or dof.shape[1] == 1:
        if grids_only:
            comps = range(1, 7)
        else:
            comps = range(0, 7)
        return np.array([[gid, c] for gid in dof.ravel() for c in comps])
    if (dof[:, 1] <= 6).all():
        return dof
    out = np.array([[row[0], int(ch)] for row in dof for ch in str(row[1])])
    if out[:, 1].max() > 6:
        raise ValueError("found DOF > 6?")
    return out
''', "expanddof: if/else for the range, all(<=) test, max() guard, comprehension over rows"),
    ("C18", "neutral", [], OP2, "        if any(sset):\n            uset[sset] = uset[sset] & ~np.array(2, uset.dtype)",
     "        uset[sset] &= ~np.array(2, dtype=uset.dtype)", "_rdop2uset: augmented &=, no-op gate dropped"),
    ("C18", "neutral", [], N2P, '''        sets = nasset.split("+")
        usetmask1 = 0
        for set_ in sets:
            usetmask1 = usetmask1 | usetmask[set_]
        return usetmask1
''', '''        import functools
        import operator
        return functools.reduce(operator.or_, (usetmask[s] for s in nasset.split("+")), 0)
''', "mkusetmask: reduce(or_) instead of the loop"),
    # ------------------------------------------------------------------ behaviour-breaking edits
    ("C18", "break", ["C18-R2"], N2P, "    if np.any(~pvmajor & pvminor):\n        raise ValueError(\"`minorset`",
     "    if (major & ~minor) and np.any(~pvmajor & pvminor):\n        raise ValueError(\"`minorset`", "mksetpv: shortcut with swapped operands skips the refusal"),
    ("C18", "break", ["C18-R2"], N2P, "    if isinstance(minor, str):\n        minor = mkusetmask(minor)", "    if isinstance(minor, str):\n        minor = mkusetmask(major)",
     "mksetpv: minor resolved from the major string"),
    ("C18", "break", ["C18-R2"], N2P, "    if np.any(~pvmajor & pvminor):\n        raise ValueError(\"`minorset`", "    if np.any(pvmajor & ~pvminor):\n        raise ValueError(\"`minorset`",
     "mksetpv: containment tested the wrong way round"),
    ("C18", "break", ["C18-R3"], N2P, "    i = np.argsort(uset_set)\n", "    i = np.argsort(_dof)\n", "mkdofpv: sorter of the wrong array"),
    ("C18", "break", ["C18-R3"], N2P, "    pvi = np.searchsorted(uset_set, _dof, sorter=i)", "    pvi = np.searchsorted(uset_set, _dof, side=\"right\", sorter=i)", "mkdofpv: right insertion point"),
    ("C18", "break", ["C18-R3"], N2P, "    pvi[pvi == i.size] -= 1\n    pv = i[pvi]\n\n    chk", "    pv = i[pvi]\n    pvi[pvi == i.size] -= 1\n\n    chk", "mkdofpv: clamp after the use"),
    ("C18", "break", ["C18-R3"], N2P, "    pv = i[pvi]\n\n    chk", "    pv = pvi\n\n    chk", "mkdofpv: sorted-order index used as table position"),
    ("C18", "break", ["C18-R3"], N2P, "            chk = ~chk\n            pv = pv[chk]", "            pv = pv[chk]", "mkdofpv: non-strict keeps the mismatches"),
    ("C18", "break", ["C18-R3"], N2P, "            pv = pv[chk]\n            dof = dof[chk]", "            pv = pv[chk]", "mkdofpv: DOF list not filtered with the positions"),
    ("C18", "break", ["C18-R3"], N2P, "            raise ValueError(msg)\n        else:\n            chk = ~chk", "            pass\n        else:\n            chk = ~chk", "mkdofpv: strict does not raise"),
    ("C18", "break", ["C18-R3"], N2P, "            setpv = mksetpv(uset, \"p\", nasset)", "            setpv = mksetpv(uset, nasset, \"p\")", "mkdofpv: partition arguments exchanged"),
    ("C18", "break", ["C18-R3"], N2P, "    _dof = dof[:, 0] * 10 + dof[:, 1]", "    _dof = dof[:, 0] * 100 + dof[:, 1]", "mkdofpv: request keys in another encoding"),
    ("C18", "break", ["C18-R3"], N2P, "    dof = expanddof(dof, grids_only)\n    _dof", "    dof = expanddof(dof)\n    _dof", "mkdofpv: grids_only not passed on"),
    ("C18", "break", ["C18-R3"], N2P, "    chk = uset_set[pv] != _dof\n    if chk.any():", "    chk = np.zeros(len(pv), bool)\n    if chk.any():", "mkdofpv: re-check removed"),
    ("C18", "break", ["C18-R3"], LOC, "    if switch:\n        pv1, pv2 = pv2, pv1", "    if not switch:\n        pv1, pv2 = pv2, pv1", "mat_intersect: outputs in the wrong order"),
    ("C18", "break", ["C18-R3"], LOC, "    pv2 = pv2[pv1]\n", "", "mat_intersect: haystack positions not trimmed"),
    ("C18", "break", ["C18-R3"], LOC, "    pv1 = np.where(haystack[pv2] == needles)[0]", "    pv1 = np.where(haystack[pv2] != needles)[0]", "mat_intersect: keeps the non-matches"),
    ("C18", "break", ["C18-R3"], LOC, "    needles = _bytes_view(needles, out_dtype).ravel()", "    needles = _bytes_view(needles, needles.dtype).ravel()", "mat_intersect: needles viewed in their own dtype"),
    ("C18", "break", ["C18-R3"], LOC, "    pvi[pvi == i.size] -= 1\n    pv2 = i[pvi]", "    pv2 = i[pvi]", "mat_intersect: clamp deleted"),
    ("C18", "break", ["C18-R4"], N2P, "        rg = range(1, 7) if grids_only else range(7)", "        rg = range(7) if grids_only else range(1, 7)", "expanddof: ranges exchanged"),
    ("C18", "break", ["C18-R4"], N2P, "    elif dof[:, 1].max() <= 6:\n        return dof", "    elif dof[:, 1].max() <= 7:\n        return dof", "expanddof: early return lets a 7 through"),
    ("C18", "break", ["C18-R4"], N2P, "    if (edof[:, 1] > 6).any():", "    if (edof[:, 0] > 6).any():", "expanddof: guard on the id column"),
    ("C18", "break", ["C18-R1b"], OP2, "sset = (uset & n2p.mkusetmask(\"s\")) != 0", "sset = (uset & n2p.mkusetmask(\"b\")) != 0", "_rdop2uset: wrong set selected"),
    ("C18", "break", ["C18-R1b"], LOC, "def mat_intersect(D1, D2, keep=0):", "_ASET = 0x70_008A\n\n\ndef mat_intersect(D1, D2, keep=0):", "a-set mask copied into another module (hex, grouped)"),
    ("C18", "break", ["C18-R1"], N2P, "            usetmask1 = usetmask1 | usetmask[set_]", "            usetmask1 = usetmask1 + usetmask[set_]", "mkusetmask: '+' arm adds"),
    # ---- index2slice
    ("C18", "neutral", [], LOC, """    d = np.diff(pv)
    d0 = d[0]
    if d0 != 0 and np.all(d == d0) and pv[0] >= 0 and pv[-1] >= 0:
        stop = pv[-1] + d0
        if stop < 0:
            stop = None
        return slice(pv[0], stop, d0)
""", """    steps = np.diff(pv)
    step = steps[0]
    if step != 0 and not (steps != step).any() and pv[0] >= 0 and pv[-1] >= 0:
        end = pv[-1] + step
        return slice(pv[0], end if end >= 0 else None, step)
""", "index2slice: renamed locals, any(!=) spacing test, conditional expression for the stop"),
    ("C18", "break", ["C18-R5"], LOC, "        if stop < 0:\n            stop = None\n        return slice(pv[0], stop, d0)",
     "        if stop <= 0:\n            stop = None\n        return slice(pv[0], stop, d0)", "index2slice: stop == 0 of a descending run turned into None"),
    ("C18", "break", ["C18-R5"], LOC, "        if stop == 0:\n            stop = None\n        return slice(pv[0], stop)",
     "        if stop <= 0:\n            stop = None\n        return slice(pv[0], stop)", "index2slice: single negative entry runs to the end"),
    ("C18", "break", ["C18-R5"], LOC, "    if d0 != 0 and np.all(d == d0) and pv[0] >= 0", "    if d0 != 0 and np.any(d == d0) and pv[0] >= 0", "index2slice: irregular vector accepted"),
    ("C18", "break", ["C18-R3"], LOC, "    if c1 != c2:\n        return np.array([], dtype=int), np.array([], dtype=int)\n\n    # loop over", "    if c1 == c2:\n        return np.array([], dtype=int), np.array([], dtype=int)\n\n    # loop over", "mat_intersect: empty result for equal column counts"),
    ("C18", "break", ["C18-R3"], N2P, "        if nasset == \"p\":\n            uset_set = (uset[:, 0]", "        if nasset != \"p\":\n            uset_set = (uset[:, 0]", "mkdofpv: array table searched for a set it cannot know"),
    # ---- helpers extracted at module level, sorted copy instead of a sorter
    ("C18", "neutral", [], N2P, _MKDOFPV_TAIL, """    pv = _sorted_positions(uset_set, _dof)
    chk = uset_set[pv] != _dof
    if chk.any():
        if strict:
            raise ValueError(f"set '{nasset}' does not contain all of the dof in `dof`.")
        chk = ~chk
        pv = pv[chk]
        dof = dof[chk]
    return pv, dof


def _sorted_positions(keys, wanted, clamp=True):
    order = np.argsort(keys)
    at = np.searchsorted(keys, wanted, sorter=order)
    if clamp:
        at[at == order.size] -= 1
    return order[at]
""", "mkdofpv: look-up extracted into a module-level private helper with a defaulted flag"),
    ("C18", "neutral", [], N2P, _MKSETPV, """    major, minor = _as_mask(major), _as_mask(minor)
    uset_set = uset["nasset"].values
    pvmajor = (uset_set & major) != 0
    pvminor = (uset_set & minor) != 0
    if np.any(pvminor[~pvmajor]):
        raise ValueError("`minorset` is not completely containedin `majorset`")
    return pvminor[pvmajor]


def _as_mask(nasset):
    if isinstance(nasset, str):
        return mkusetmask(nasset)
    return nasset
""", "mksetpv: string resolution extracted into a private helper, refusal test written as pvminor[~pvmajor].any()"),
    ("C18", "neutral", [], LOC, _MAT_TAIL, """    i = haystack.argsort()
    hs = haystack[i]
    pvi = np.searchsorted(hs, needles)
    pvi[pvi == hs.size] -= 1
    pv2 = i[pvi]
    pv1 = np.where(hs[pvi] == needles)[0]
    pv2 = pv2[pv1]
    if switch:
        pv1, pv2 = pv2, pv1
    return pv1, pv2
""", "mat_intersect: search in a sorted copy instead of passing a sorter"),
    ("C18", "neutral", [], N2P, "    if np.any(~pvmajor & pvminor):\n        raise ValueError(\"`minorset`", "    if not np.all(pvmajor | ~pvminor):\n        raise ValueError(\"`minorset`",
     "mksetpv: refusal test written as not all(major or not minor)"),
    ("C18", "break", ["C18-R2"], N2P, "    if np.any(~pvmajor & pvminor):\n        raise ValueError(\"`minorset`", "    if np.all(~pvmajor & pvminor):\n        raise ValueError(\"`minorset`",
     "mksetpv: refuses only when every DOF is outside"),
    ("C18", "break", ["C18-R2"], N2P, "    if np.any(~pvmajor & pvminor):\n        raise ValueError(\"`minorset`", "    if np.any(~pvmajor | pvminor):\n        raise ValueError(\"`minorset`",
     "mksetpv: refusal test with | instead of &"),
    ("C18", "break", ["C18-R5"], LOC, "        if stop < 0:\n            stop = None\n        return slice(pv[0], stop, d0)",
     "        if stop < 1:\n            stop = None\n        return slice(pv[0], stop, d0)", "index2slice: stop < 1 is stop <= 0"),
    ("C18", "neutral", [], LOC, "        if stop < 0:\n            stop = None\n        return slice(pv[0], stop, d0)",
     "        if stop <= -1:\n            stop = None\n        return slice(pv[0], stop, d0)", "index2slice: stop <= -1 is stop < 0 (integers)"),
    ("C18", "neutral", [], LOC, "        stop = pv[0] + 1\n        if stop == 0:\n            stop = None\n        return slice(pv[0], stop)",
     "        return slice(pv[0], (pv[0] + 1) or None)", "index2slice: `stop or None` for the single entry"),
]
