"""C01-R13  overflow safety of the closed-form coefficients (a sign / range rule over each regime's own facts).

In the damped world (beta = b/2m >= 0, h > 0, w > 0; over-damped: beta > w, i.e. beta = w + g with g > 0; complex path: Re(lambda) <= 0) every exact
coefficient F ... Bp / Fe, Ae, Be is bounded for all h > 0.  An intermediate `exp` / `cosh` / `sinh` / `expm1` whose argument is positive and grows
without bound in h (w h, beta h, ...) evaluates to inf for admissible inputs (w h > ~710).  When such a value enters a coefficient in numerator
position (a rational function of the overflowing value with the value in the numerator and not in the denominator), IEEE arithmetic can only produce
inf or nan (inf * 0, inf - inf) - never the bounded exact value: VIOLATION.  A value that only ever divides (1 / exp(beta h)) is the benign reciprocal
(-> 0, the correctly rounded result).  The sign of an argument is decided on its normal form (a polynomial in the positive symbols h, w, g, beta, m:
all coefficients of one sign), never sampled; a sign that is not decided is an ANALYSIS-ERROR."""
from __future__ import annotations

import ast

from . import e2_formula as F
from .core import Unsupported
from .e1_srcmodel import dotted
from .e2_eval import is_unknown

UTIL = "pyyeti/ode/_utilities.py"
SOLVEUNC = "pyyeti/ode/solveunc.py"
COEFS = ("F", "G", "A", "B", "Fp", "Gp", "Ap", "Bp")
KINDS = {"np.exp": "exp", "math.exp": "exp", "np.cosh": "cosh", "math.cosh": "cosh", "np.sinh": "sinh", "math.sinh": "sinh",
         "np.expm1": "expm1", "math.expm1": "expm1"}
POSITIVE = {"h", "w", "beta", "<g>", "m"}
FACTS = {
    "under": "h > 0, w > 0, beta >= 0",
    "crit": "h > 0, beta >= 0",
    "over": "h > 0, beta > w > 0",
    "rbd": "h > 0, beta >= 0",
    "rb": "h > 0",
    "el": "h > 0, Re(lambda) <= 0",
    "rbl": "h > 0, Re(lambda) <= 0",
}


def _psign(p):
    """+1 / -1: every term of the polynomial (in positive symbols only) has that sign; 0: the zero polynomial; None: not decided"""
    if not p.t:
        return 0
    sign = None
    for mono, c in p.t.items():
        for a, e in mono:
            d = F.atom_desc(a)
            if not (d[0] == "s" and d[1] in POSITIVE):
                return None
        s = 1 if c > 0 else -1
        if sign is None:
            sign = s
        elif sign != s:
            return None
    return sign


def _deg(p, aid):
    """degree of the polynomial in the tag symbol; None when the tag also sits inside another atom (exp(T), sqrt(T), ...)"""
    deg = 0
    for mono in p.t:
        for a, e in mono:
            if a == aid:
                deg = max(deg, e)
            elif F._atom_depends(a, aid):
                return None
    return deg


def arg_sign(a, regime):
    """sign of (the real part of) an argument under the facts of the regime: +1, 0, -1, or None (not decided)"""
    if not isinstance(a, F.Rat):
        return None
    try:
        if regime == "over":
            a = a.subs({"beta": F.sym("w") + F.sym("<g>")})
        elif regime in ("el", "rbl"):
            lam = F.sym("lam")
            if not a.depends_on("lam"):
                pass
            else:
                q = a / lam
                if q.depends_on("lam") or q.depends_on("I"):
                    return None
                a = -q * F.sym("<g>")
        sn, sd = _psign(a.n), _psign(a.d)
    except Unsupported:
        return None
    if sn is None or sd is None or sd == 0:
        return None
    return sn * sd


def make_hook(regime, log):
    """call hook: records every exp / cosh / sinh / expm1 with the value and sign of its argument; a call that overflows for admissible inputs is
    replaced by a tag symbol so that the way its value reaches the coefficients can be read from their normal forms"""
    def hook(node, ev):
        d = dotted(node.func)
        kind = KINDS.get(d)
        if kind is None or len(node.args) != 1 or node.keywords or isinstance(node.args[0], ast.Starred):
            return NotImplemented
        try:
            a = ev.plain(ev.evr(node.args[0]))
        except Unsupported:
            return NotImplemented
        if is_unknown(a) or not isinstance(a, F.Rat):
            return NotImplemented          # not a scalar formula (reported by the value rules)
        if a.is_const():
            return F.exp(a) - 1 if kind == "expm1" else NotImplemented
        s = arg_sign(a, regime)
        tag = None
        if s is not None and ((kind in ("exp", "expm1") and s > 0) or (kind in ("cosh", "sinh") and s != 0)):
            tag = "<ovf:%s(%r)>" % (kind, a)
        log.append((node, kind, a, s, tag))
        if tag is not None:
            return F.sym(tag)
        if kind == "expm1":
            return F.exp(a) - 1
        return NotImplemented
    return hook


def _judge(ctx, where_fn, fname, regime, tagd, log, coefs):
    seen = set()
    for node, kind, a, s, tag in log:
        key = (id(node), repr(a))
        if key in seen:
            continue
        seen.add(key)
        txt = ast.unparse(node)[:70]
        lab = f"{fname} ({tagd}): `{txt}`"
        if s is None:
            ctx.error(f"{lab}: the sign of the argument under the facts of the regime ({FACTS[regime]}) was not decided", node, repr(a)[:200])
            continue
        if tag is None:
            ctx.ok(f"{lab}: the argument is <= 0 for every mode of the regime and every h > 0 ({FACTS[regime]}): cannot overflow", node)
            continue
        num, den, nested = [], [], []
        aid = F._intern(("s", tag))
        for nm, v in coefs.items():
            if not isinstance(v, F.Rat) or is_unknown(v):
                continue
            dn, dd = _deg(v.n, aid), _deg(v.d, aid)
            if dn is None or dd is None:
                nested.append(nm)
            elif dn > dd:
                num.append(nm)        # as a rational function of the overflowing value the coefficient grows like its (dn - dd)-th power
            elif dd > 0:
                den.append(nm)
        if num:
            ctx.fail(f"{fname} ({tagd}): no intermediate of a bounded coefficient overflows ({kind} of an argument that is unbounded above)", node,
                     f"`{txt}`: the argument {a!r} is > 0 under {FACTS[regime]} and grows without bound in h, so the call returns inf for admissible inputs "
                     f"(argument > ~710: heavy damping with a coarse step); as a rational function of that value {', '.join(num)} "
                     f"{'grows' if len(num) == 1 else 'grow'} with it (numerator degree above denominator degree), where IEEE arithmetic "
                     "can only give inf or nan (inf * 0, inf - inf) while the exact coefficient is bounded: not overflow-safe",
                     key=f"C01-R13|{fname}|{regime}|{kind} of an argument unbounded above")
        elif nested:
            ctx.error(f"{lab}: the overflowing value reaches {', '.join(nested)} inside another function - not decided", node, repr(a)[:200])
        else:
            ctx.ok(f"{lab}: the argument is > 0, no coefficient grows with the value (it only divides: 1/inf = 0 is the correctly rounded value)"
                   if den else f"{lab}: the argument is > 0 but the value reaches no coefficient", node)


def r13_overflow_safe(ctx):
    """No intermediate of a bounded closed-form coefficient overflows.  In the damped world (beta >= 0; over-damped beta > w > 0; Re(lambda) <= 0) all
    exact coefficients are bounded for every h > 0, so an exp / cosh / sinh / expm1 whose argument is positive and unbounded in h (w h, beta h) and
    whose value enters a coefficient in numerator position yields inf / nan for heavily damped modes with a coarse step.  Signs are decided on the
    normal form of the argument under the regime's own facts (over-damped: beta = w + g, g > 0); undecided signs are analysis errors."""
    from .c01_coef import run_su_coef, run_complex_coefs, REGIMES, RegimeRaises
    ctx.assume("C01-R13 judges overflow in the damped world (b/2m >= 0, Re(lambda) <= 0), where every exact coefficient is bounded for all h > 0")
    fn = ctx.src.func(UTIL, "get_su_coef")
    n = 0
    for regime in REGIMES:
        if regime == "rb":
            continue
        for m_none in (False, True):
            tagd = regime + ("/m=None" if m_none else "")
            log = []
            try:
                c, par, ev = run_su_coef(ctx, fn, regime, m_none, call=make_hook(regime, log))
            except RegimeRaises:
                continue          # reported by C01-R1
            except Unsupported as e:
                ctx.error(f"get_su_coef ({tagd}): overflow rule, extraction", fn, str(e))
                continue
            n += len(log)
            _judge(ctx, fn, "get_su_coef", regime, tagd, log, c)
    fn2 = ctx.src.func(SOLVEUNC, "SolveUnc._get_complex_su_coefs")
    for regime in ("el", "rbl"):
        log = []
        try:
            out, ev = run_complex_coefs(ctx, fn2, regime, call=make_hook(regime, log))
        except Unsupported as e:
            ctx.error(f"_get_complex_su_coefs ({regime}): overflow rule, extraction", fn2, str(e))
            continue
        n += len(log)
        _judge(ctx, fn2, "_get_complex_su_coefs", regime, "elastic eigenvalue" if regime == "el" else "near-zero eigenvalue", log,
               {k: v for k, v in out.items() if v is not None})
    if n == 0:
        ctx.error("overflow rule: no exponential of the closed-form coefficients was reached", fn)
