"""C05 -- semantic rules for the rainflow counters on the transition systems of e7_sym (see there for the engine).

Every implementation (c_rain.rainflow1/2, py_rain._rainflow1/2) and the ASTM E1049 reference automaton is executed symbolically into a graph
of transitions between loop heads; the rules compare the *effects* of the transitions (stack contents, emitted rows, counters) up to a
change of variables that is derived from each program, never the spelling of the statements."""
from __future__ import annotations

import os
from fractions import Fraction

from . import e7_rainir as R
from . import e7_sym as Y
from .core import Unsupported
from .e8_karr import Aff, V

HALF, ONE = ("num", Fraction(1, 2)), ("num", Fraction(1))
CFILE = "pyyeti/rainflow/c_rain.c"
PYFILE = "pyyeti/rainflow/py_rain.py"
SHAPE = [Y.START, "H1", "H2", "H3", Y.EPI]


def bound(ctx, cond, text, where):
    """a rule that did not find the number of sites it is written for has proved nothing: an analysis error, never a violation"""
    if cond:
        ctx.ok(text, where, nontrivial=False)
    else:
        ctx.error(text + " -- the rule could not bind to this code", where)


def check_shape(ts, what):
    """the count loop with its inner loop, then the step-6 loop: anything else is not the three-point stack algorithm this checker can read"""
    heads = [n for n in ts.nodes if n.startswith("H")]
    ok = heads == ["H1", "H2", "H3"] and ts.phase.get("H1") == 1 and ts.phase.get("H2") == 1 and ts.phase.get("H3") == 2
    if not ok:
        raise Unsupported(f"{what}: not a three-point stack loop (expected a count loop with one inner loop followed by the step-6 loop; "
                          f"found loop heads {[(n, ts.phase.get(n)) for n in heads]})")
    if Y.EPI not in ts.nodes:
        raise Unsupported(f"{what}: the code after the step-6 loop was not reached")


def prepare(base, an=None):
    """the transition system the comparisons work on: carried array elements replaced by the elements (`A == pts[k]` at step 6), then every
    counter-only way out of a loop taken as soon as its condition is known (e7_sym.merge_exits) - the place where the source tests
    `j < 2`, `k >= L`, `k >= j` does not matter.  (The abstract interpretation of C05-R4 and the finite-world runs use `base` itself.)"""
    ts = base.copy()
    if an is not None:
        eliminate_dependent(ts, an)
    ts = Y.merge_exits(Y.drop_dead(Y.eliminate_caches(ts), with_ret=True))
    # the kernels are only ever entered with L >= 2 (C05-R7 proves it of both entry points): ways that need L < 2 do not exist
    ex = ts.ex
    Ln = ex.params[1]
    if Ln in ex.frozen:
        pre = [(V(Ln) - 2, "ge")]
        keep = []
        for t in ts.trans:
            cons, disj, _ = Y.guard_of(t, ex)
            if Y.feasible_with(cons + pre, disj):
                keep.append(t)
        ts.trans = keep
        Y.peel_entry(ts, pre)
    return ts


def implementations(ctx):
    """{(side, name): dict(ex, raw0, raw, norm, where, offsets)}: raw0 = the system as executed, raw = prepared (and `!=` tests read as order
    tests), norm = its normal form"""
    if hasattr(ctx, "_c05impl"):
        return ctx._c05impl
    out = {}
    cu = R.CUnit(os.path.join(ctx.repo, CFILE))
    ctx._c05cu = cu
    for nm in ("rainflow1", "rainflow2"):
        ex = Y.Exec(cu, nm, param_kinds=["array", "int"], label=f"C {nm}", array_len={0: 1}).run()
        base = Y.assign_roles(Y.build_ts(ex))
        check_shape(base, f"C {nm}")
        out[("C", nm)] = dict(ex=ex, raw0=base, where=f"{CFILE} ({nm})", offsets="os" in base.allocs, unit=cu)
    pu = R.PyUnit(ctx.src.mod(PYFILE).tree)
    ctx._c05pu = pu
    for nm in ("_rainflow1", "_rainflow2"):
        fn = ctx.src.func(PYFILE, nm)
        ex = Y.Exec(pu, nm, param_kinds=["array", "int"], label=f"py {nm}", array_len={0: 1}).run()
        base = Y.assign_roles(Y.build_ts(ex))
        check_shape(base, f"py {nm}")
        out[("py", nm)] = dict(ex=ex, raw0=base, where=fn, offsets="os" in base.allocs, unit=pu)
    for k, d in out.items():
        d["raw"] = prepare(d["raw0"], analysis(ctx, k, d))
        d["raw"] = strengthen(ctx, k, d)
        d["norm"] = Y.normalise(d["raw"])
        want = k[1].endswith("2")
        if d["offsets"] != want:
            raise Unsupported(f"{k[0]} {k[1]}: {'no ' if want else 'an unexpected '}offsets table is allocated")
    ctx._c05impl = out
    return out


def analysis(ctx, key, a):
    """the abstract interpretation (verifier/e8_karr.py: affine equalities, lower bounds, template inequalities; invariants inferred per program)
    of one implementation's counter program, shared by C05-R4, C05-R5 and `strengthen`; None when it gave up (reported by C05-R4)"""
    from .e8_karr import GraphAnalysis
    cache = ctx.__dict__.setdefault("_c05an", {})
    if key in cache:
        return cache[key][0]
    ts = a["raw0"]
    Ln = ts.ex.params[1]
    arrays = {b: ts.allocs[b]["n"] for b in ("pts", "cycle_index") if b in ts.allocs}
    arrays["peaks"] = V(Ln)          # C05-R7 checks that both entry points pass L = the length of the 1-D peaks array
    outs = {b: (ts.allocs[b]["rows"], ts.allocs[b]["cols"]) for b in ("rf", "os") if b in ts.allocs}
    edges = counter_edges(dict(a, raw=ts))
    parent = {"H1": None, "H2": "H1", "H3": None, Y.EPI: None}
    try:
        an = GraphAnalysis(ts.nodes, edges, Y.START, parent, arrays, outs, ts.int_vars(), {}, count_col={"rf": 2}, lower={Ln: 2}).run()
        cache[key] = (an, edges, outs, None)
    except Unsupported as e:
        cache[key] = (None, edges, outs, str(e))
    return cache[key][0]


def states_at(an, ts, t):
    """the inferred invariants at the source cut point of transition t (first entry and back-edge variants), intersected with t's own integer
    tests; unreachable combinations left out"""
    ex = ts.ex
    g = []
    for atom, taken in t["key"]:
        if atom[0] == "ige":
            d = ex.aff(atom[1])
            g.append(("ge", d if taken else -d - 1))
        elif atom[0] == "ieq":
            g.append(("eq" if taken else "ne", ex.aff(atom[1])))
    out = []
    for v in ("e", "b"):
        s0 = an.state.get((t["src"], v))
        if s0 is None or s0.bottom:
            continue
        st = an.guard(s0, g)
        if not st.bottom:
            out.append(st)
    return out


def strengthen(ctx, key, a):
    """the prepared system restricted to the reachable states the abstract interpretation of the same program (C05-R4's) knows of:
    * a transition whose integer tests contradict the invariant inferred at its source is never taken and is dropped (a loop steered by a flag
      has no `j >= 2` test of its own at the inner head - the invariant supplies it);
    * loop tests written as `p != end` / `p == end` are read as the order tests they are on every reachable state: when the invariant (plus the
      tests made before on the same path) proves d <= 0 (or d >= 0), the atom `d == 0` is replaced by the equivalent `-d - 1 >= 0`
      (`d - 1 >= 0`) with the outcome negated.
    Exact on reachable states; without a proving invariant everything stays as it is (and an implementation that really leaves its loop only
    on equality differs from one that leaves it on >=)."""
    raw = a["raw"]
    an = analysis(ctx, key, a)
    if an is None:
        return raw
    ex = raw.ex
    ts = raw.copy()
    keep = []
    for t in ts.trans:
        states = [s for s in (an.state.get((t["src"], v)) for v in ("e", "b")) if s is not None and not s.bottom]
        if not states:
            keep.append(t)
            continue
        if not states_at(an, ts, t):
            ts.notes.append(f"{t['src']} -> {t['dst']} when {' and '.join(('' if tk else 'not ') + Y.show(x) for x, tk in t['key'])}: excluded by the inferred invariant")
            continue
        keep.append(t)
        new, before = [], []
        for atom, taken in t["key"]:
            done = False
            if atom[0] == "ieq":
                d = ex.aff(atom[1])
                sts = [s for s in (an.guard(s0, before) for s0 in states) if not s.bottom]
                if sts and d.c:
                    if all(s.prove_nonneg(-d) for s in sts):
                        new.append((("ige", Y.aff_ir(-d - 1)), not taken))
                        if taken:
                            new.append((("ige", Y.aff_ir(-d)), True))          # the side the invariant supplies: together they still say d == 0
                        done = True
                    elif all(s.prove_nonneg(d) for s in sts):
                        new.append((("ige", Y.aff_ir(d - 1)), not taken))
                        if taken:
                            new.append((("ige", Y.aff_ir(d)), True))
                        done = True
                    if done:
                        ts.notes.append(f"{t['src']}: `{Y.show(atom)}` read as an order test (one side is excluded by the inferred invariant)")
            if not done:
                new.append((atom, taken))
            if atom[0] == "ige":
                d = ex.aff(atom[1])
                before.append(("ge", d if taken else -d - 1))
            elif atom[0] == "ieq":
                before.append(("eq" if taken else "ne", ex.aff(atom[1])))
        t["key"] = new
    ts.trans = keep
    return ts


def eliminate_dependent(ts, an):
    """a counter that only steers control (it occurs in integer tests and in counter updates, never in an array index, a stored value or a
    data-dependent test) and that the inferred invariants express through the other counters wherever it is live - `left == j - k` for a
    step-6 loop that counts the remaining ranges down, `remaining == L - k` - is replaced by that expression and dropped from the state:
    the generalisation of merging provably equal counters to provably affinely dependent ones.  Exact on reachable states."""
    ex = ts.ex

    def mentions(e, v):
        return v in Y.free_vars(e)
    for v in ts.int_vars():
        if v in ex.params:
            continue
        nodes_v = [n for n in ts.nodes if v in ts.state.get(n, {})]
        if not nodes_v:
            continue
        steering = True
        for t in ts.trans:
            if t["src"] not in nodes_v:
                continue
            obs = [a for a, _ in t["key"] if a[0] not in ("ige", "ieq")]
            for st in t["arrays"].values():
                for i, x in st:
                    obs += [Y.aff_ir(i), x]
            obs += [Y.aff_ir(i) for b, i, rw in t["acc"]]
            if t.get("ret") is not None:
                obs.append(t["ret"])
            obs += [x for w, x in t["scal"].items() if w != v and ts.state[t["dst"]].get(w) != "int"]
            if any(mentions(x, v) for x in obs):
                steering = False
                break
        if not steering:
            continue
        exprs = {}
        for n in nodes_v:
            sts = [s0 for s0 in (an.state.get((n, var)) for var in ("e", "b")) if s0 is not None and not s0.bottom]
            cand = None
            # the simplest expression  c + (+-w) + (+-u)  over the other counters of this cut point (and the parameters) that the invariant
            # proves equal to v: fewest variables first
            pool = sorted(w for w in list(ts.state[n]) + list(ex.params) if w != v and (ts.state[n].get(w, "int") == "int") and w in ex.ints)
            shapes = [()] + [((w, sg),) for w in pool for sg in (1, -1)] + \
                     [((w, sw), (u, su)) for i, w in enumerate(pool) for u in pool[i + 1:] for sw in (1, -1) for su in (1, -1)]
            for shape in (shapes if sts else ()):
                e0 = Aff({w: sg for w, sg in shape}, 0)
                d = sts[0].reduce(V(v) - e0)
                if d.c:
                    continue
                expr = e0 + d.k
                if all(s0.entails_eq(V(v) - expr) for s0 in sts):
                    cand = expr
                    break
            if cand is None:
                exprs = None
                break
            exprs[n] = cand
        if not exprs:
            continue
        out = []
        for t in ts.trans:
            if t["src"] in exprs:
                mp = {v: Y.aff_ir(exprs[t["src"]])}
                t = Y.map_trans(t, lambda x, mp=mp: Y.subst_vars(x, mp, ex), ts)
            if v in t["scal"]:
                t = dict(t, scal={w: x for w, x in t["scal"].items() if w != v})
            out.append(t)
        ts.trans = out
        for n in nodes_v:
            ts.state[n].pop(v, None)
            ts.notes.append(f"{n}: {v} == {exprs[n]} (inferred invariant); the counter only steers control and is replaced")
    return ts


class RefFunc:
    def __init__(self, body):
        self.name = "astm_e1049"
        self.params = [("peaks", "ptr", ""), ("L", "int", "")]
        self.body = body
        self.ctypes = {}
        self.defaults = {}


class RefUnit:
    def __init__(self, body):
        self.f = RefFunc(body)

    def func(self, name, required=True):
        return self.f

    def helper(self, name):
        return None


def reference(with_offsets, astm_reference):
    ex = Y.Exec(RefUnit(astm_reference(with_offsets)), "astm_e1049", param_kinds=["array", "int"], label="ASTM E1049-85 5.4.4").run()
    base = Y.assign_roles(Y.build_ts(ex))
    check_shape(base, "reference")
    raw = prepare(base)
    return dict(ex=ex, raw0=base, raw=raw, norm=Y.normalise(raw), where="ASTM E1049-85 5.4.4 (transcribed in verifier/c05.py)", offsets=with_offsets)


UNIT_NAMES = {Y.START: "initialisation (everything before the count loop)", "H1": "count loop: read the next point (push), or leave for step 6",
              "H2": "inner loop: compare the two ranges on top of the stack, count and discard (pop), or go back for the next point",
              "H3": "step 6: one remaining range per pass, or finish"}


def compare_units(a, b):
    """{cut point: first difference | None} under the renaming of b's state variables that leaves the fewest differing units"""
    d, mp = Y.compare(a, b)
    if d is None:
        return {n: None for n in SHAPE[:-1]}, mp
    if not mp:
        return {n: d for n in SHAPE[:-1]}, mp
    # per-unit result under that renaming
    tmp = {vb: f"~{i}" for i, vb in enumerate(sorted(mp))}
    b2 = Y.rename_ts(Y.rename_ts(b, tmp), {tmp[vb]: va for vb, va in mp.items()})
    b2.ex = a.ex
    out = {}
    for n in SHAPE[:-1]:
        out[n] = Y.compare_named(a, b2, only=n)
    if all(v is None for v in out.values()):
        out[SHAPE[0]] = d
    return out, mp


# ---------------------------------------------------------------------------
def _verdict(ctx, d, text, where, key, wit):
    """the comparison proves equality when it succeeds.  When it does not, the two sides may differ or the engine may just be unable to relate
    two spellings (other cut points, bookkeeping no derived change of variables relates, a test made at another place): a VIOLATION is
    reported only with a witness - an input of the finite world of c05_world on which the two lowered programs hand back different tables;
    without one the comparison is undecided (an analysis error)"""
    if d is None:
        ctx.ok(text, where)
        return
    w = wit()
    if w is not None:
        ctx.fail(text, where, {"difference": d, "witness": w}, key=key)
    else:
        ctx.error(text + " -- not decided: the engine could not relate the two transition systems, and no input of its finite world "
                         "(lengths 2..6, ties, NaN) makes them return different tables", where, d)


def _witness_fn(ctx, a, b, ka, kb, only=None):
    """lazily computed (once per pair) witness of a difference between two implementations, on their un-normalised systems"""
    from . import c05_world as W
    box = []
    cache = ctx.__dict__.setdefault("_c05world", {})

    def wit():
        if not box:
            try:
                box.append(W.witness(a["raw0"], b["raw0"], only=only, cache=cache, ka=ka, kb=kb))
            except Unsupported:
                box.append(None)
        return box[0]
    return wit


def r1_equivalence(ctx):
    impl = implementations(ctx)
    for cn, pn in (("rainflow1", "_rainflow1"), ("rainflow2", "_rainflow2")):
        a, b = impl[("C", cn)], impl[("py", pn)]
        res, mp = compare_units(a["norm"], b["norm"])
        wit = _witness_fn(ctx, a, b, ("C", cn), ("py", pn))
        for n in SHAPE[:-1]:
            d = res[n]
            _verdict(ctx, d, f"c_rain.{cn} == py_rain.{pn} [{UNIT_NAMES[n]}]: under jointly satisfiable conditions both make the same move with the same "
                             "effect on the reversal stack, the counters and the output rows (exact floating-point expression trees, counters up to "
                             "the change of variables derived from each program)", f"{a['where']} vs {ctx._where(b['where'])}", f"C05-R1|{cn}|{n}", wit)


def r2_erasure(ctx):
    impl = implementations(ctx)
    for side, n1, n2 in (("C", "rainflow1", "rainflow2"), ("py", "_rainflow1", "_rainflow2")):
        a, b = impl[(side, n1)], impl[(side, n2)]
        erased = Y.normalise(Y.drop_arrays(b["raw"], ("cycle_index", "os")))
        res, mp = compare_units(a["norm"], erased)
        wit = _witness_fn(ctx, a, b, (side, n1), (side, n2), only=("rf",))
        for n in SHAPE[:-1]:
            _verdict(ctx, res[n], f"{side} {n1} == {n2} with the offset bookkeeping erased [{UNIT_NAMES[n].split(':')[0]}]: same values, counts and stack moves",
                     b["where"], f"C05-R2|{side}|{n}", wit)


def r3_astm(ctx, astm_reference):
    impl = implementations(ctx)
    refs = {}
    for (side, nm), a in impl.items():
        if a["offsets"] not in refs:
            refs[a["offsets"]] = reference(a["offsets"], astm_reference)
        ref = refs[a["offsets"]]
        res, mp = compare_units(ref["norm"], a["norm"])
        wit = _witness_fn(ctx, ref, a, ("ref", a["offsets"]), (side, nm))
        for n in SHAPE[:-1]:
            _verdict(ctx, res[n], f"{side} {nm} [{UNIT_NAMES[n].split(':')[0]}]: equals the ASTM E1049-85 5.4.4 steps 1-6 automaton - same decisions (fewer than "
                                  "three points, X < Y, Y contains the starting point) and the same effect on every path", a["where"], f"C05-R3|{side} {nm}|{n}", wit)


# ---------------------------------------------------------------------------
def _sel(e, arr=None):
    return isinstance(e, tuple) and e and e[0] == "sel" and (arr is None or e[1] == arr)


def _half_of(e):
    """x if e == x * 1/2 (either operand order) else None"""
    if isinstance(e, tuple) and e and e[0] == "bin" and e[1] == "*":
        if e[2] == HALF:
            return e[3]
        if e[3] == HALF:
            return e[2]
    return None


def _ixaff(e):
    if e[0] == "num":
        return Aff({}, e[1])
    if e[0] == "var":
        return V(e[1])
    if e[0] == "aff":
        return Aff(dict(e[1]), e[2])
    raise Unsupported(f"index {e}")


def rows_of(stores, cols):
    """[(flat Aff, value)] -> {row Aff repr: (row Aff, {col: value})}; None when a flat index is not cols*row + col"""
    rows = {}
    for flat, val in stores:
        if any(Fraction(c) % cols for c in flat.c.values()):
            return None
        col = flat.k % cols
        row = Aff({v: c / cols for v, c in flat.c.items()}, (flat.k - col) / cols)
        rows.setdefault(repr(row), (row, {}))[1][int(col)] = val
    return rows


def under_guard(t, ts):
    """the transition with the equalities its own integer tests imply applied to everything it computes (after `end - 3 == 0` the cell
    `cycle_index[iend - 3]` of a cursor merged with `end` is `cycle_index[0]`, like the `pts[0]` read after the test)"""
    cons, disj, data = Y.guard_of(t, ts.ex)
    sub = Y.equalities(cons)
    if not sub:
        return t
    mp = {v: Y.aff_ir(a) for v, a in sub.items()}
    return Y.map_trans(t, lambda x: Y.subst_vars(x, mp, ts.ex), ts)


def r5_lockstep(ctx, entails=None):
    """values and their original positions move together: every store into the reversal stack is mirrored on the position stack, and each
    emitted offset pair names the two points whose range is emitted.  `entails(key, i, e)`: the inferred invariant at the i-th raw transition
    proves e == 0 (used when the position is kept in another counter than the one that indexes the input)"""
    impl = implementations(ctx)
    for (side, nm), a in impl.items():
        if not a["offsets"]:
            continue
        ts = a["norm"]
        raw = a["raw"]
        n = 0
        for ti, t in enumerate(ts.trans):
            if t["src"] == Y.EPI:
                continue
            t = under_guard(t, ts)
            unit = f"{t['src']}->{t['dst']}"
            pts = {repr(i): (i, v) for i, v in t["arrays"].get("pts", [])}
            ci = {repr(i): (i, v) for i, v in t["arrays"].get("cycle_index", [])}
            if pts or ci:
                n += 1
                ok = set(pts) == set(ci)
                detail = None
                if ok:
                    for k, (ix, v) in pts.items():
                        w = ci[k][1]
                        if _sel(v, "pts"):
                            good = w == ("sel", "cycle_index", v[2])
                        elif _sel(v, "peaks"):
                            good = w == v[2]
                            if not good and entails is not None:
                                # the same question on the un-normalised transition, answered by the inferred invariants
                                rt = raw.trans[ti]
                                rp = {repr(i2): v2 for i2, v2 in rt["arrays"].get("pts", [])}
                                rc = {repr(i2): v2 for i2, v2 in rt["arrays"].get("cycle_index", [])}
                                if len(rp) == 1 and len(rc) == 1 and set(rp) == set(rc):
                                    pv, cv = next(iter(rp.values())), next(iter(rc.values()))
                                    ca = raw.ex.aff(cv) if raw.ex.is_int(cv) else None
                                    if _sel(pv, "peaks") and ca is not None:
                                        good = entails((side, nm), ti, ca - _ixaff(pv[2]))
                        else:
                            good = False
                        if not good:
                            ok, detail = False, {"index": repr(ix), "value": Y.show(v), "position": Y.show(w)}
                            break
                else:
                    detail = {"pts stores": sorted(pts), "cycle_index stores": sorted(ci)}
                ctx.check(ok, f"{side} {nm} [{unit}]: every value moved on the reversal stack has its original position moved the same way", a["where"], detail)
            rf = rows_of(t["arrays"].get("rf", []), 3)
            os_ = rows_of(t["arrays"].get("os", []), 2)
            if rf is None or os_ is None:
                ctx.error(f"{side} {nm} [{unit}]: output stores are not whole rows", a["where"])
                continue
            for rk, (row, cells) in sorted(rf.items()):
                n += 1
                mean = _half_of(cells.get(1))
                pq = None
                if mean is not None and mean[0] == "bin" and mean[1] == "+":
                    pq = [mean[2], mean[3]]
                want = None
                if pq and all(_sel(x, "pts") for x in pq):
                    want = {("sel", "cycle_index", pq[0][2]), ("sel", "cycle_index", pq[1][2])}
                oc = os_.get(rk, (None, {}))[1]
                got = {oc.get(0), oc.get(1)}
                ok = want is not None and got == want
                if ok:
                    dd = _ixaff(oc[1][2]) - _ixaff(oc[0][2])
                    ok = not dd.c and dd.k > 0
                ctx.check(ok, f"{side} {nm} [{unit}]: the offsets written with a row are the original positions of the two points whose range and "
                              "mean the row holds, earlier point first", a["where"],
                          None if ok else {"row": {str(k): Y.show(v) for k, v in cells.items()}, "offsets": [Y.show(x) if x else None for x in (oc.get(0), oc.get(1))]})
            extra = sorted(set(os_) - set(rf))
            if extra:
                ctx.fail(f"{side} {nm} [{unit}]: an offsets row is written without its value row", a["where"], extra)
        bound(ctx, n >= 6, f"{side} {nm}: lock-step rule bound to {n} stores / rows", a["where"])


# ---------------------------------------------------------------------------
def _mentions_data(e, floats):
    if isinstance(e, tuple) and e:
        if e[0] == "sel" and e[1] in ("pts", "peaks"):
            return True
        if e[0] == "var" and e[1] in floats:
            return True
        return any(_mentions_data(x, floats) for x in e[1:])
    return False


def _is_point(e, floats):
    return (_sel(e) and e[1] in ("pts", "peaks")) or (e[0] == "var" and e[1] in floats)


def _is_absdiff(e, floats):
    return e[0] == "abs" and e[1][0] == "bin" and e[1][1] == "-" and _is_point(e[1][2], floats) and _is_point(e[1][3], floats)


def r6_value_flow(ctx):
    """input values reach the control flow only through |p - q| < |r - s| and the output only as |p - q| / 2 and (p + q) / 2: so negating,
    shifting or positively scaling the input acts on the result in the obvious way and leaves every decision unchanged"""
    impl = implementations(ctx)
    for (side, nm), a in impl.items():
        ts = a["norm"]
        floats = set(ts.float_vars())
        ntests = nrows = 0
        for t in ts.trans:
            if t["src"] == Y.EPI:
                continue
            t = under_guard(t, ts)
            unit = f"{t['src']}->{t['dst']}"
            for atom, taken in t["key"]:
                if _mentions_data(atom, floats):
                    ntests += 1
                    ok = atom[0] == "cmp" and atom[1] == "<" and _is_absdiff(atom[2], floats) and _is_absdiff(atom[3], floats)
                    ctx.check(ok, f"{side} {nm} [{unit}]: the data-dependent decision is a comparison of two ranges |p - q| < |r - s|", a["where"],
                              None if ok else Y.show(atom))
            for v, val in t["scal"].items():
                if ts.state[t["dst"]].get(v) == "int":
                    ok = not _mentions_data(val, floats)
                    ctx.check(ok, f"{side} {nm} [{unit}]: the counter `{v}` does not depend on data", a["where"], None if ok else Y.show(val), nontrivial=False)
                else:
                    ok = _is_point(val, floats)
                    ctx.check(ok, f"{side} {nm} [{unit}]: the carried value `{v}` is a point of the signal", a["where"], None if ok else Y.show(val))
            for arr, st in t["arrays"].items():
                if arr in ("rf", "os"):
                    continue
                for ix, val in st:
                    if arr == "pts":
                        ok = _is_point(val, floats)
                        ctx.check(ok, f"{side} {nm} [{unit}]: the reversal stack only ever holds points of the signal", a["where"], None if ok else Y.show(val),
                                  nontrivial=False)
                    else:
                        ok = not _mentions_data(val, floats)
                        ctx.check(ok, f"{side} {nm} [{unit}]: `{arr}` holds positions, never values", a["where"], None if ok else Y.show(val), nontrivial=False)
            rf = rows_of(t["arrays"].get("rf", []), 3)
            if rf is None:
                ctx.error(f"{side} {nm} [{unit}]: output stores are not whole rows", a["where"])
                continue
            for rk, (row, cells) in sorted(rf.items()):
                nrows += 1
                amp, mean, cnt = _half_of(cells.get(0)), _half_of(cells.get(1)), cells.get(2)
                ok = amp is not None and _is_absdiff(amp, floats)
                ok2 = mean is not None and mean[0] == "bin" and mean[1] == "+" and _is_point(mean[2], floats) and _is_point(mean[3], floats)
                same = ok and ok2 and {repr(amp[1][2]), repr(amp[1][3])} == {repr(mean[2]), repr(mean[3])}
                ok3 = cnt in (HALF, ONE)
                good = bool(ok and ok2 and same and ok3)
                ctx.check(good, f"{side} {nm} [{unit}]: an emitted row is (|p - q| / 2, (p + q) / 2, 0.5 or 1) of one pair of points", a["where"],
                          None if good else {str(k): Y.show(v) for k, v in cells.items()})
            for ix, val in t["arrays"].get("os", []):
                ok = _sel(val, "cycle_index")
                ctx.check(ok, f"{side} {nm} [{unit}]: offsets come from the position stack", a["where"], None if ok else Y.show(val), nontrivial=False)
        bound(ctx, ntests >= 1 and nrows >= 3, f"{side} {nm}: value-flow rule bound to {ntests} data-dependent decisions and {nrows} emission paths", a["where"])


def input_typed_arithmetic(a, input_typed):
    """arithmetic nodes (difference, sum, product, negation, |.|) of a kernel all of whose array operands still have the caller's element type
    (numpy / numba then compute in that type: uint8 - uint8 wraps, int16 + int16 overflows, float32 rounds; Python's literal scalars do not
    promote).  `input_typed(array role)`: the array holds the caller's element type.  A carried scalar has the type of what was assigned to it."""
    ts = a["norm"]
    fl = set(ts.float_vars())
    vt = {v: None for v in fl}          # carried values: 'in' | 'f64' | None (not yet known)

    def ty(e, bad):
        k = e[0] if isinstance(e, tuple) and e else None
        if k == "sel":
            return "in" if input_typed(e[1]) else "f64"
        if k == "var":
            return vt.get(e[1]) if e[1] in fl else None
        if k in ("bin", "cmp"):
            x, y = ty(e[2], bad), ty(e[3], bad)
            r = "f64" if "f64" in (x, y) else ("in" if "in" in (x, y) else None)
            if k == "bin" and r == "in" and bad is not None:
                bad.append(Y.show(e))
            return None if k == "cmp" else r
        if k in ("abs", "neg"):
            r = ty(e[1], bad)
            if r == "in" and bad is not None and not (e[1][0] in ("bin", "abs", "neg")):
                bad.append(Y.show(e))
            return r
        return None
    for _ in range(4):
        for t in ts.trans:
            for v, val in t["scal"].items():
                if v in fl:
                    r = ty(val, None)
                    if r == "in" or (r == "f64" and vt[v] is None):
                        vt[v] = r
    bad = []
    for t in ts.trans:
        if t["src"] == Y.EPI:
            continue
        for v in Y.values_of(t):
            ty(v, bad)
    out = []
    for b in bad:
        if b not in out:
            out.append(b)
    return out


# ---------------------------------------------------------------------------
def counter_edges(a):
    """the transitions of the raw (un-normalised) system as edges of e8_karr.GraphAnalysis: integer tests, affine updates of the program's own
    integer variables, array accesses, output stores"""
    ts = a["raw"]
    ex = ts.ex
    edges = []
    for t in ts.trans:
        guard = []
        for atom, taken in t["key"]:
            if atom[0] == "ige":
                d = ex.aff(atom[1])
                guard.append(("ge", d if taken else -d - 1))
            elif atom[0] == "ieq":
                d = ex.aff(atom[1])
                guard.append(("eq" if taken else "ne", d))
        pset = {}
        for v, val in t["scal"].items():
            if ts.state[t["dst"]].get(v) == "int":
                pset[v] = ex.aff(val) if ex.is_int(val) else None
        outs = {b: list(st) for b, st in t["arrays"].items() if b in ("rf", "os")}
        label = f"{t['src']}->{t['dst']}" + ("" if not t["key"] else " when " + " and ".join(("" if tk else "not ") + Y.show(x) for x, tk in t["key"] if x[0] in ("ige", "ieq")))
        edges.append(dict(src=t["src"], dst=t["dst"], guard=guard, pset=pset, acc=list(t["acc"]), outs=outs, label=label, trans=t))
    return edges
