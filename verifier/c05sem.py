"""C05 -- semantic (unit-wise symbolic) rules for the rainflow counters.  See e7_sym for the engine."""
from __future__ import annotations

import itertools
from fractions import Fraction

from . import e7_rainir as R
from . import e7_sym as Y
from .core import Unsupported
from .e8_karr import Aff, V

HALF, ONE = ("num", Fraction(1, 2)), ("num", Fraction(1))


def rowvar_of(region):
    """the variable Python uses as output row index (the `n` of `rf[n, 0] = ...`)"""
    names = set()
    for s in R.walk_ir(region):
        if s[0] == "cell":
            names |= R.expr_vars(s[2])
    if len(names) != 1:
        raise Unsupported(f"output rows are indexed by {sorted(names)} (expected one row counter)")
    return next(iter(names))


def implementations(ctx, S):
    """{(side, name): dict(res, state, inits, where, with_offsets)}"""
    if hasattr(ctx, "_c05impl"):
        return ctx._c05impl
    out = {}
    for nm in ("rainflow1", "rainflow2"):
        d = S.c[nm]
        res, st = Y.effects(d["region"])
        out[("C", nm)] = dict(res=res, state=st, inits=d["inits"], where=f"pyyeti/rainflow/c_rain.c ({nm})", offsets=nm.endswith("2"), rowvar=None)
    for nm in ("_rainflow1", "_rainflow2"):
        d = S.py[nm]
        ini, reg = d["raw"]
        rv = rowvar_of(reg)
        res, st = Y.effects(reg, rowvar=rv)
        out[("py", nm)] = dict(res=res, state=st, inits=ini, where=d["fn"], offsets=nm.endswith("2"), rowvar=rv)
    ctx._c05impl = out
    return out


def compare(a, b, amap=None, drop_a=(), drop_b=()):
    """first difference between two implementations' effects under the best renaming of b's state variables (None = equal)"""
    amap = amap or {}
    sa = {v for v in a["state"]}
    sb = {v for v in b["state"]}
    common = sa & sb
    ra, rb = sorted(sa - common), sorted(sb - common)
    best = None
    cands = [dict(zip(rb, perm)) for perm in itertools.permutations(ra, len(rb))] if len(rb) <= len(ra) and len(ra) <= 5 else [{}]
    if not cands:
        cands = [{}]
    na = Y.normal_form(a["res"], a["state"])
    for mp in cands:
        m = dict(mp)
        m.update(amap)
        nb = Y.normal_form(b["res"], b["state"], m)
        d = Y.first_difference(_drop(na, drop_a), _drop(nb, drop_b))
        if d is None:
            return None, m
        if best is None:
            best = d
    return best, {}


def _drop(nf, names):
    if not names:
        return nf
    out = dict(nf)
    for u in ("push", "pop", "mid", "tail"):
        eff = {}
        for k, d in nf[u].items():
            eff[k] = {"scalars": d["scalars"], "break": d["break"],
                      "arrays": {a: v for a, v in d["arrays"].items() if a not in names},
                      "out": {a: v for a, v in d["out"].items() if a not in names}}
        out[u] = eff
    return out


# ---------------------------------------------------------------------------
def r1_equivalence(ctx, S):
    impl = implementations(ctx, S)
    for cn, pn in (("rainflow1", "_rainflow1"), ("rainflow2", "_rainflow2")):
        a, b = impl[("C", cn)], impl[("py", pn)]
        d, mp = compare(a, b)
        ctx.check(d is None, f"c_rain.{cn} == py_rain.{pn}: unit by unit (push, pop, between the loops, step 6) the same paths with the same "
                             "effects on the reversal stack, the counters and the output rows (exact expression trees)", f"{a['where']} vs {ctx._where(b['where'])}", d)
        inv = {v: k for k, v in mp.items()}
        for var in sorted(a["state"]):
            if var in a["inits"] or inv.get(var, var) in b["inits"]:
                va, vb = a["inits"].get(var), b["inits"].get(inv.get(var, var))
                ok = va is not None and va == vb
                ctx.check(ok, f"{cn}/{pn}: initial value of the state variable {var} agrees ({va} vs {vb})", a["where"])
        rv = b["rowvar"]
        ok = b["inits"].get(rv) == -1
        ctx.check(ok, f"{pn}: the row counter `{rv}` starts at -1 (the first row written is row 0)", b["where"])


def r2_erasure(ctx, S):
    impl = implementations(ctx, S)
    for side, n1, n2 in (("C", "rainflow1", "rainflow2"), ("py", "_rainflow1", "_rainflow2")):
        a, b = impl[(side, n1)], impl[(side, n2)]
        d, _ = compare(a, b, drop_b=("cycle_index", "os"))
        ctx.check(d is None, f"{side} {n1} == {n2} with the offset bookkeeping erased (same values, counts and stack moves)", b["where"], d)


def reference_effects(with_offsets, astm_reference):
    reg = astm_reference(with_offsets)
    res, st = Y.effects(reg)
    return dict(res=res, state=st, inits={}, where="ASTM E1049-85 5.4.4 (transcribed in verifier/c05.py)", offsets=with_offsets)


def r3_astm(ctx, S, astm_reference):
    impl = implementations(ctx, S)
    for (side, nm), a in impl.items():
        ref = reference_effects(a["offsets"], astm_reference)
        d, _ = compare(a, ref, amap={"[]ci": "cycle_index"})
        ctx.check(d is None, f"{side} {nm}: equals the ASTM E1049-85 5.4.4 steps 1-6 automaton - same decisions (fewer than three points, X < Y, "
                             "Y contains the starting point) and the same effect on every path", a["where"], d)


# ---------------------------------------------------------------------------
def _sel(e):
    return isinstance(e, tuple) and e and e[0] == "sel"


def r5_lockstep(ctx, S):
    """values and their original positions move together: every store into the reversal stack is mirrored on the index stack, and each
    emitted offset pair names the two points whose range is emitted"""
    impl = implementations(ctx, S)
    for (side, nm), a in impl.items():
        if not a["offsets"]:
            continue
        n = 0
        for unit in ("push", "pop", "mid", "tail"):
            for key, d in a["res"][unit].items():
                pts, ci = d["arrays"].get("pts", {}), d["arrays"].get("cycle_index", {})
                ok = set(pts) == set(ci)
                detail = None
                if ok:
                    for ix, v in pts.items():
                        w = ci[ix]
                        if _sel(v) and v[1] == "pts":
                            good = w == ("sel", "cycle_index", v[2])
                        elif _sel(v) and v[1] == "peaks":
                            good = w == v[2] or (w[0] == "var" and v[2] == ("aff", ((w[1], Fraction(1)),), Fraction(0)))
                        else:
                            good = False
                        if not good:
                            ok, detail = False, {"index": repr(ix), "value": repr(v), "position": repr(w)}
                            break
                else:
                    detail = {"pts stores": sorted(map(repr, pts)), "cycle_index stores": sorted(map(repr, ci))}
                if pts or ci:
                    n += 1
                    ctx.check(ok, f"{side} {nm} [{unit}]: every value moved on the reversal stack has its original position moved the same way", a["where"], detail)
                # emitted offsets
                rf, os_ = d["out"].get("rf", {}), d["out"].get("os", {})
                rows = sorted({r for r, _ in rf})
                for r in rows:
                    n += 1
                    mean = rf.get((r, 1))
                    pq = None
                    if mean and mean[0] == "bin" and mean[1] == "/" and mean[2][0] == "bin" and mean[2][1] == "+":
                        pq = [mean[2][2], mean[2][3]]
                    want = None
                    if pq and all(_sel(x) and x[1] == "pts" for x in pq):
                        want = {("sel", "cycle_index", pq[0][2]), ("sel", "cycle_index", pq[1][2])}
                    elif pq and unit == "tail":
                        # step 6: A carries pts[k] (A = pts[0] before the loop, A <- pts[k+1] at the end of each pass, k from 0)
                        var = [x for x in pq if x[0] == "var"]
                        sel = [x for x in pq if _sel(x) and x[1] == "pts"]
                        mid = [dd["scalars"].get(var[0][1]) for dd in a["res"]["mid"].values()] if var else []
                        kv = a["res"]["tail_range"][0]
                        nxt = d["scalars"].get(var[0][1]) if var else None
                        kplus1 = ("aff", ((kv, Fraction(1)),), Fraction(1))
                        if len(var) == 1 and len(sel) == 1 and mid == [("sel", "pts", ("num", Fraction(0)))] and a["res"]["tail_range"][1] == ("num", Fraction(0)) \
                                and sel[0][2] == kplus1 and nxt == sel[0]:
                            want = {("sel", "cycle_index", ("var", kv)), ("sel", "cycle_index", kplus1)}
                    got = {os_.get((r, 0)), os_.get((r, 1))}
                    # order: start before end
                    ok = want is not None and got == want
                    if ok and want:
                        lo = os_.get((r, 0))
                        # the first offset is the earlier stack position
                        a0 = _ixaff(lo[2])
                        a1 = _ixaff(os_.get((r, 1))[2])
                        dd = a1 - a0
                        ok = not dd.c and dd.k > 0
                    ctx.check(ok, f"{side} {nm} [{unit}]: the offsets written with a row are the original positions of the two points whose range and "
                                  "mean the row holds, earlier point first", a["where"], None if ok else {"row": {str(k): repr(v) for k, v in rf.items() if k[0] == r},
                                                                                                       "offsets": [repr(x) for x in got]})
        ctx.check(n >= 6, f"{side} {nm}: lock-step rule bound to {n} stores / rows", a["where"], nontrivial=False)


def _ixaff(e):
    if e[0] == "num":
        return Aff({}, e[1])
    if e[0] == "var":
        return V(e[1])
    if e[0] == "aff":
        return Aff(dict(e[1]), e[2])
    raise Unsupported(f"index {e}")


# ---------------------------------------------------------------------------
def _mentions_data(e, floats):
    if isinstance(e, tuple):
        if e and e[0] == "sel" and e[1] in ("pts", "peaks"):
            return True
        if e and e[0] == "var" and e[1] in floats:
            return True
        return any(_mentions_data(x, floats) for x in e)
    return False


def _is_point(e, floats):
    return (_sel(e) and e[1] in ("pts", "peaks")) or (e[0] == "var" and e[1] in floats)


def _is_absdiff(e, floats):
    return e[0] == "abs" and e[1][0] == "bin" and e[1][1] == "-" and _is_point(e[1][2], floats) and _is_point(e[1][3], floats)


def r6_value_flow(ctx, S):
    """input values reach the control flow only through |p - q| < |r - s| and the output only as |p - q| / 2 and (p + q) / 2: so negating,
    shifting or positively scaling the input acts on the result in the obvious way and leaves every decision unchanged"""
    impl = implementations(ctx, S)
    for (side, nm), a in impl.items():
        ints = a["res"]["ints"]
        floats = {v for v in a["state"] if v not in ints}
        ntests = nrows = 0
        for unit in ("push", "pop", "mid", "tail"):
            for key, d in a["res"][unit].items():
                for t, taken in d["keyexpr"]:
                    if _mentions_data(t, floats):
                        ntests += 1
                        ok = t[0] == "cmp" and t[1] == "<" and _is_absdiff(t[2], floats) and _is_absdiff(t[3], floats)
                        ctx.check(ok, f"{side} {nm} [{unit}]: the data-dependent decision is a comparison of two ranges |p - q| < |r - s|", a["where"],
                                  None if ok else repr(t))
                for v, val in d["scalars"].items():
                    if v not in a["state"]:
                        continue            # a unit-local temporary
                    if v in ints:
                        ok = not _mentions_data(val, floats)
                        ctx.check(ok, f"{side} {nm} [{unit}]: the counter `{v}` does not depend on data", a["where"], None if ok else repr(val), nontrivial=False)
                    else:
                        ok = _is_point(val, floats)
                        ctx.check(ok, f"{side} {nm} [{unit}]: the carried value `{v}` is a point of the signal", a["where"], None if ok else repr(val))
                for arr, st in d["arrays"].items():
                    for ix, val in st.items():
                        if arr == "pts":
                            ok = _is_point(val, floats)
                            ctx.check(ok, f"{side} {nm} [{unit}]: the reversal stack only ever holds points of the signal", a["where"], None if ok else repr(val),
                                      nontrivial=False)
                        else:
                            ok = not _mentions_data(val, floats)
                            ctx.check(ok, f"{side} {nm} [{unit}]: `{arr}` holds positions, never values", a["where"], None if ok else repr(val), nontrivial=False)
                rf = d["out"].get("rf", {})
                for r in sorted({r for r, _ in rf}):
                    nrows += 1
                    amp, mean, cnt = rf.get((r, 0)), rf.get((r, 1)), rf.get((r, 2))
                    ok = amp is not None and amp[0] == "bin" and amp[1] == "/" and amp[3] == ("num", Fraction(2)) and _is_absdiff(amp[2], floats)
                    ok2 = mean is not None and mean[0] == "bin" and mean[1] == "/" and mean[3] == ("num", Fraction(2)) and mean[2][0] == "bin" \
                        and mean[2][1] == "+" and _is_point(mean[2][2], floats) and _is_point(mean[2][3], floats)
                    same = ok and ok2 and {repr(amp[2][1][2]), repr(amp[2][1][3])} == {repr(mean[2][2]), repr(mean[2][3])}
                    ok3 = cnt in (HALF, ONE)
                    ctx.check(ok and ok2 and same and ok3, f"{side} {nm} [{unit}]: an emitted row is (|p - q| / 2, (p + q) / 2, 0.5 or 1) of one pair of points", a["where"],
                              None if ok and ok2 and same and ok3 else {str(k): repr(v) for k, v in rf.items() if k[0] == r})
                for arr in ("os",):
                    for k2, val in d["out"].get(arr, {}).items():
                        ok = _sel(val) and val[1] == "cycle_index"
                        ctx.check(ok, f"{side} {nm} [{unit}]: offsets come from the position stack", a["where"], None if ok else repr(val), nontrivial=False)
        ctx.check(ntests >= 1 and nrows == 3, f"{side} {nm}: value-flow rule bound to {ntests} data-dependent decisions and {nrows} emission paths", a["where"],
                  nontrivial=False)


# ---------------------------------------------------------------------------
def counter_program(a):
    """abstract the effects to a program over the integer state for e8_karr.Analysis:
       ('acc', array, index Aff, 'r'|'w'), ('rows', n, nfull), ('pset', [(var, Aff)]), plus if / break / for / while of the IR"""
    res = a["res"]
    ints = res["ints"]

    def leaf(d):
        out = []
        for arr, ix, rw in d["acc"]:
            out.append(("acc", arr, ix, rw))
        rows = d["rows"].get("rf", 0)
        nfull = sum(1 for (r, c), v in d["out"].get("rf", {}).items() if c == 2 and v == ONE)
        nhalf = sum(1 for (r, c), v in d["out"].get("rf", {}).items() if c == 2 and v == HALF)
        if rows != nfull + nhalf:
            raise Unsupported("an emitted count is neither 0.5 nor 1")
        if d["rows"].get("os", rows) != rows:
            raise Unsupported("offset rows and value rows written on a path differ in number")
        if rows:
            out.append(("rows", rows, nfull))
        sets = []
        for v, val in d["scalars"].items():
            if v in ints:
                sets.append((v, Y.Path(ints).aff(val)))
        if any(x is None for _, x in sets):
            raise Unsupported("integer update that is not affine")
        if sets:
            out.append(("pset", sets))
        if d["break"]:
            out.append(("break",))
        return out

    def tree(paths, depth):
        # paths: list of effect dicts sharing the first `depth` decisions
        if len(paths) == 1 and len(paths[0]["keyexpr"]) == depth:
            return leaf(paths[0])
        t = paths[0]["keyexpr"][depth][0]
        yes = [p for p in paths if len(p["keyexpr"]) > depth and p["keyexpr"][depth][1]]
        no = [p for p in paths if len(p["keyexpr"]) > depth and not p["keyexpr"][depth][1]]
        if len(yes) + len(no) != len(paths) or any(p["keyexpr"][depth][0] != t for p in paths):
            raise Unsupported("paths of a unit do not form a decision tree")
        if t[0] == "bool":
            return tree(yes if t[1] else no, depth + 1)
        cond = ("nd",)
        if t[0] == "cmp" and t[2][0] in ("aff", "var", "num") and t[3][0] == "num":
            cond = ("cmpaff", t[1], _ixaff(t[2]) - Aff({}, t[3][1]))
        return [("if", cond, tree(yes, depth + 1) if yes else [("unreachable",)], tree(no, depth + 1) if no else [("unreachable",)])]

    def unit(name):
        return tree(list(res[name].values()), 0)

    ov, olo, ohi = res["outer_range"]
    tv, tlo, thi = res["tail_range"]
    wc = res["while_cond"]
    if wc[0] != "cmp":
        raise Unsupported("inner loop condition")
    p = Y.Path(ints)
    wca = ("cmpaff", wc[1], _ixaff(p.simp(wc[2])) - _ixaff(p.simp(wc[3])))
    prog = [("for", ov, _ixaff(p.simp(olo)), _ixaff(p.simp(ohi)), unit("push") + [("while", wca, unit("pop"))])]
    prog += unit("mid")
    prog += [("for", tv, _ixaff(p.simp(tlo)), _ixaff(p.simp(thi)), unit("tail"))]
    return prog
