"""Instantiation of E3 for the ODE solver classes.

The attribute table is read off `_BaseODE` itself (`_common_precalcs`, `_chk_diag_part`, `_make_rb_el`: "_rb, _el are
relative to non-rf part") and `SolveUnc.get_su_eig` (which re-partitions m, b, k to the elastic set), confirmed by
reading, and frozen here with one line of reason each.

  N   all equations                        K   the non-rf equations (rows of self.m/b/k in mode U)
  RB  rigid-body equations                 EL  elastic equations            RF  residual-flexibility equations
  S2  the [v; d] state vector of the K equations

mode U : coefficients from get_su_coef, and everything in SolveExp2 / FreqDirect / SolveNewmark
mode E : SolveUnc after get_su_eig (coupled or complex systems): m, b, k, invm hold the elastic equations only
"""
from __future__ import annotations

import ast

from .core import AnchorError
from .e1_srcmodel import dotted, walk_no_nested
from .e3_spaces import Arr, Idx, Typer

BASE = "pyyeti/ode/_base_ode_class.py"
UNC = "pyyeti/ode/solveunc.py"
SE2 = "pyyeti/ode/solveexp2.py"
FD = "pyyeti/ode/freqdirect.py"
NM = "pyyeti/ode/solvenewmark.py"


def common():
    return {
        "self.rb": Idx("N", "RB"),        # _make_rb_el: rb holds positions in the full equation set
        "self.el": Idx("N", "EL"),        # _make_rb_el: el[self.nonrf[_el]] = True  -> full-set positions
        "self.rf": Idx("N", "RF"),        # _common_precalcs
        "self.nonrf": Idx("N", "K"),      # _common_precalcs: nonrf = positions of non-rf equations in the full set
        "self.krf": Arr("RF", "RF"),      # _chk_diag_part: krf = k[self.rf]
        "self.ikrf": Arr("RF", "RF"),     # _inv_krf
        "self.imrb": Arr("RB", "RB"),     # _inv_mrb: inverse of the rigid-body mass
    }


def mode_U():
    t = common()
    t.update({
        "self.kdof": Idx("N", "K"),       # _common_precalcs: kdof = nonrf
        "self._rb": Idx("K", "RB"),       # _make_rb_el comment: "_rb, _el are relative to non-rf part"
        "self._el": Idx("K", "EL"),
        "self.m": Arr("K", "K"), "self.b": Arr("K", "K"), "self.k": Arr("K", "K"),   # _chk_diag_part: m = m[self.nonrf]
        "self.invm": Arr("K", "K"),       # _inv_m of self.m
        "self.bo": Arr("K", "K"),         # _chk_diag_part: bo[np.ix_(nonrf, nonrf)]
    })
    for c in ("F", "G", "A", "B", "Fp", "Gp", "Ap", "Bp", "alpha"):
        t[f"self.pc.{c}"] = Arr("K", "K")  # get_su_coef(self.m, self.b, self.k, ...) -> one entry per row of m
        t[f"pc.{c}"] = Arr("K", "K")
    return t


def mode_E():
    t = common()
    t.update({
        "self.kdof": Idx("N", "EL"),      # get_su_eig: self.kdof = self.nonrf[self._el]
        "self._rb": Idx("EL", "EMPTY"),   # get_su_eig: self._rb = np.arange(0)
        "self._el": Idx("EL", "EL"),      # get_su_eig: self._el = np.arange(self.ksize)
        "self.m": Arr("EL", "EL"), "self.b": Arr("EL", "EL"), "self.k": Arr("EL", "EL"),   # get_su_eig: self.k = self.k[pv]
        "self.invm": Arr("EL", "EL"),
    })
    return t


def exp2_attrs():
    t = mode_U()
    t.update({
        "self.P": Arr("S2", "K"), "self.Q": Arr("S2", "K"),     # getEPQ(A, h, order, half=True): rows = [v; d] state, cols = K inputs
        "self.E_vv": Arr("K", "K", "v", "v"), "self.E_vd": Arr("K", "K", "v", "d"),   # __init__: E[:ksize, :ksize] ... rows :n are the velocity equations (_build_A)
        "self.E_dv": Arr("K", "K", "d", "v"), "self.E_dd": Arr("K", "K", "d", "d"),
    })
    return t


PARAMS = {
    "d": Arr("N", None, "d"), "v": Arr("N", None, "v"), "a": Arr("N", None, "a"),
    "force": Arr("N", None), "F0": Arr("N", None), "F1": Arr("N", None), "Force": Arr("N", None), "f": Arr("N", None),
    "d0": Arr("N", None, "d"), "v0": Arr("N", None, "v"),
    "phi": Arr(None, "N"),
}

SIZE_NAMES = {"ksize", "self.ksize", "n", "self.nonrfsz"}


# path conditions that hold in each mode (SolveUnc.__init__: mode U <=> self.unc and self.systype is float)
COND_U = {"self.systypeisfloat": True, "self.unc": True}
COND_E = {}
# inside an `if unc:` arm of mode E the system is uncoupled, so it reached get_su_eig because it is complex
COND_E_UNC = {"self.systypeisfloat": False}


def type_function(ctx, rel, qual, attrs, label, extra_params=None, rule=None, cond=None):
    """Run the typer over one function; record one obligation per resolved operation."""
    fn = ctx.src.func(rel, qual)
    params = {a.arg: PARAMS[a.arg] for a in fn.args.args if a.arg in PARAMS}
    if extra_params:
        params.update(extra_params)
    bad = {}

    def report(kind, node, detail):
        bad.setdefault(id(node), []).append((kind, node, detail))

    T = Typer(attrs, params, SIZE_NAMES, report, label, cond=cond)
    # where there are no rf modes the full set and the non-rf set coincide; where there are only rf modes, full == rf
    T.branch_equiv = {"self.rfsize": (None, ("N", "K")), "rfsize": (None, ("N", "K")),
                      "notself.ksize": (("N", "RF"), None), "notksize": (("N", "RF"), None)}
    # `self._force` etc. published by generator()
    T.attrs.setdefault("self._force", Arr("N", None))
    T.run(fn.body)
    nbad = 0
    seen = set()
    for lst in bad.values():
        for kind, node, detail in lst:
            key = f"{rule or 'typing'}|{qual}|{label}|{kind}|{ast.unparse(node)[:90]}"
            if key in seen:
                continue
            seen.add(key)
            nbad += 1
            ctx.fail(f"{qual} [{label}]: {kind}", node, detail, key=key)
    okn = 0
    for node in T.checked:
        if id(node) in bad:
            continue
        okn += 1
        ctx.ok(f"{qual} [{label}]: `{ast.unparse(node)[:70]}` index/operand spaces agree", node)
    return T, okn, nbad


def check_su_coef_call(ctx, attrs, rule):
    """get_su_coef(m, b, k, h, rbmodes): rbmodes must hold positions relative to the rows of m, b, k"""
    fn = ctx.src.func(UNC, "SolveUnc.__init__")
    calls = [n for n in walk_no_nested(fn) if isinstance(n, ast.Call) and dotted(n.func) == "get_su_coef"]
    if len(calls) != 1:
        raise AnchorError("SolveUnc.__init__: get_su_coef call")
    c = calls[0]
    T = Typer(attrs, {}, SIZE_NAMES)
    tys = [T.ty(a) for a in c.args]
    spaces = {t.s[0] for t in tys[:3] if isinstance(t, Arr) and t.s[0]}
    ok = len(spaces) == 1
    ctx.check(ok, "SolveUnc.__init__: m, b, k passed to get_su_coef live in one space", c, None if ok else str(tys[:3]))
    if ok and len(tys) >= 5 and isinstance(tys[4], Idx):
        sp = spaces.pop()
        ok = tys[4].dom == sp
        ctx.check(ok, f"SolveUnc.__init__: the rigid-body index passed to get_su_coef is relative to the rows of m, b, k (space {sp})", c,
                  None if ok else f"`{ast.unparse(c.args[4])}` holds positions relative to space {tys[4].dom}; m, b, k have one row per {sp} equation "
                                  "(invisible when rf modes are absent or last; wrong for rf modes that precede a rigid-body mode)",
                  key=f"{rule}|SolveUnc.__init__|get_su_coef rbmodes space")
    else:
        ctx.error("SolveUnc.__init__: get_su_coef rbmodes argument not typed", c, str(tys))
