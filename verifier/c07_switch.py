"""C07-R2 (pass 5): getEPQ evaluated per option regime and per outcome of its norm test.

getEPQ is the only entry of the package that chooses between the two algorithms, and the reason for the choice is a *typestate* of expmint: the
second integral has a Pade table of its own only on the routes of order <= 9; on the order-13 route _geti2 has the A^-1 formula (A invertible and
well conditioned) or the raw power series (singular A: loses all accuracy, or stops with "maximum loops exceeded", once |lambda h| is large).  A
caller may therefore hand a matrix to getEPQ1 / expmint(geti2=True) for the first-order-hold integrals only on a path on which it has
established h ||A||_1 <= theta_9 (every norm estimate of scipy's helper is bounded by the 1-norm); getEPQ_pow / expmint_pow (a power series
for everything) only where it has established some bound on the norm.  The rule evaluates getEPQ with *concrete* options (B None / given, half
False / True, order 0 / 1) in two worlds -- every comparison of a quantity of A with a constant comes out as for a small / a large matrix --
and reads, from the value returned, which routine produced the result and, from the comparisons made on the way, what the path established.

Nothing here looks at how the function is written: the options are values, the norm is recognised as a value (np.linalg.norm(A, 1) or the
largest absolute column sum, times h in any place), the routines reached are call records (under whatever local name, positional or keyword,
defaults completed from the callee's own signature).
"""
from __future__ import annotations

import ast

from . import e2_formula as F
from .core import AnchorError, Unsupported
from .e2_eval import is_unknown
from . import c07_interp as I
from .c07_interp import Interp, Raised, fn_parts, to_rat, clone

ROUTINES = ("getEPQ1", "getEPQ2", "getEPQ_pow")
PARAMS = ("A", "h", "order", "B", "half")
NORM_NAMES = ("np.linalg.norm", "la.norm", "scipy.linalg.norm", "norm")
INFINITIES = ("@np.inf", "@np.Inf", "@np.infty", "@np.PINF", "@math.inf")


def symbols():
    return tuple(F.sym(n_) for n_ in PARAMS)


def triple(name):
    """what a getEPQ variant returns: E, P, Q"""
    return tuple(F.sym(f"{name}().{k_}") for k_ in ("E", "P", "Q"))


def _mentions(C, v, name):
    return name in C._symbols(v)


def evaluate(ctx, regime, args, seen, follow=("getEPQ1", "getEPQ2"), entry="getEPQ"):
    """getEPQ(*args) in the world `regime` ('below' / 'above': how every comparison of a quantity of A with a constant comes out); the
    routines named in `follow` are *not* followed: each returns the symbol <name>() (expmint / expmint_pow: the tuple it would return).  Every decided
    comparison is appended to `seen` as (op, value, constant, node, regime).  Returns (value returned, interpreter)."""
    from . import c07 as C
    A, h = F.sym("A"), F.sym("h")

    def other(it, v, node):
        c = C._cmp_const(v)
        if c is None:
            # a finite quantity compared with +infinity (the open end of a ladder of bounds): decided, and establishes nothing
            p = fn_parts(v) if isinstance(v, F.Rat) else None
            if p is not None and p[0].startswith("cmp:") and len(p[1]) == 2 and all(isinstance(x_, F.Rat) and not is_unknown(x_) for x_ in p[1]):
                inf = [C._symbols(x_) <= set(INFINITIES) and len(C._symbols(x_)) == 1 and x_.equals(F.sym(next(iter(C._symbols(x_))))) for x_ in p[1]]
                if inf[1] and not inf[0]:
                    return {"Lt": True, "LtE": True, "Gt": False, "GtE": False}.get(p[0][4:])
                if inf[0] and not inf[1]:
                    return {"Lt": False, "LtE": False, "Gt": True, "GtE": True}.get(p[0][4:])
            return None
        op, val, cst = c
        # k h ||A||_1 <op> c with a positive number k is the test h ||A||_1 <op> c / k  (norm1 / theta <= 1, 2 norm1 < 2 theta)
        try:
            k = val / (h * F.fn("norm1", A))
            if k.is_const() and k.const_value() > 0:
                val, cst = h * F.fn("norm1", A), cst / k.const_value()
        except (Unsupported, ZeroDivisionError):
            pass
        # (a test that reads neither the matrix nor a norm -- h > 0, a check of `order` -- says nothing about the size of A: not decided by the
        # regime; a norm of something else than A is decided, and reported as the wrong switch variable)
        if not (_mentions(C, val, "A") or I.atoms_named(val, "norm1") or I.atoms_named(val, "some-other-norm")):
            return None
        small = regime == "below"
        r = {"Lt": small, "LtE": small, "Gt": not small, "GtE": not small}.get(op)
        if r is not None:
            seen.append((op, val, cst, node, regime))
        return r

    def norm1(v):
        # a norm is homogeneous and the step is positive: ||A h|| = h ||A||
        if isinstance(v, F.Rat) and not is_unknown(v) and v.d.is_const() and len(v.n.t) == 1 and (v / A).equals(h ** C._degree(v, "h")):
            return (v / A) * F.fn("norm1", A)
        return F.fn("norm1", v)

    def extra(it, name, pos, kw, node):
        if name in follow and name != "expmint" and name != "expmint_pow":
            return triple(name)
        if name in follow and name == "expmint":
            g = pos[2] if len(pos) > 2 else kw.get("geti2", False)
            t = it.truth(g, node)
            if t is None:
                return I.Unknown("expmint called with an undecided geti2")
            tag = "expmint(geti2)()" if t else "expmint()"
            return tuple(F.sym(f"{tag}.{k_}") for k_ in (("E", "I", "I2") if t else ("E", "I")))
        if name in follow and name == "expmint_pow":
            return tuple(F.sym(f"expmint_pow().{k_}") for k_ in ("E", "I", "I2"))
        if name in NORM_NAMES and (pos or "x" in kw or "a" in kw):
            x_ = pos[0] if pos else kw.get("x", kw.get("a"))
            o = pos[1] if len(pos) > 1 else kw.get("ord")
            if len(pos) <= 2 and set(kw) <= {"ord", "x", "a"} and o is not None and I.is_const(o) and I.cval(o) == 1:
                return norm1(to_rat(x_))
            return F.fn("some-other-norm", *[to_rat(p_) for p_ in pos if not is_unknown(to_rat(p_))])
        # the 1-norm written out: the largest absolute column sum,  abs(X).sum(axis=0).max()  in any of numpy's spellings
        if name in (".max", "np.max", "np.amax", "max") and len(pos) == 1 and not kw and isinstance(pos[0], F.Rat):
            p1 = fn_parts(pos[0])
            if p1 is not None and p1[0] in ("call:.sum", "call:np.sum") and 1 <= len(p1[1]) <= 2 and isinstance(p1[1][0], F.Rat):
                ax = p1[1][1] if len(p1[1]) == 2 else None
                pa = fn_parts(ax) if isinstance(ax, F.Rat) else None
                if pa is not None and pa[0] == "kw:axis":
                    ax = pa[1][0]
                p2 = fn_parts(p1[1][0])
                if isinstance(ax, F.Rat) and ax.is_const() and ax.const_value() == 0 and p2 is not None and len(p2[1]) == 1 \
                        and p2[0] in ("abs", "call:np.abs", "call:np.absolute", "call:np.fabs", "call:.__abs__"):
                    return norm1(to_rat(p2[1][0]))
                if isinstance(ax, F.Rat) and ax.is_const() and p2 is not None and len(p2[1]) == 1 and isinstance(p2[1][0], F.Rat):
                    return F.fn("some-other-norm", p2[1][0], ax)          # row sums: the infinity norm
        return NotImplemented

    it = Interp(ctx, C.EXPM, hook=C.scalar_hook(extra), oracle=C.call_oracle({}, other))
    try:
        ret = it.call(entry, list(args))
    except Unsupported as e:
        ret = I.Unknown(f"unsupported construct: {e}")
    return ret, it


# ------------------------------------------------------------------------------------------------------------ per-regime obligations
SMALL_ONLY = ("getEPQ1", "expmint(geti2)", "getEPQ_pow", "expmint_pow")


def _completed(ctx, rec):
    """{parameter name: value} a routine receives, defaults completed from its own signature; None where the rule cannot tell"""
    got = rec.ordered()
    f = rec.callee
    if not isinstance(f, I.FuncV):
        return None
    a = f.node.args
    params = [p_.arg for p_ in a.posonlyargs + a.args]
    defaults = dict(zip(params[len(params) - len(a.defaults):], a.defaults))
    out = {}
    for k_, (nm, v) in enumerate(zip(params, got)):
        if v is None and not (nm in rec.kw or k_ < len(rec.pos)):
            d = defaults.get(nm)
            if isinstance(d, ast.Constant) and (d.value is None or isinstance(d.value, (bool, int))):
                v = d.value if d.value is None or isinstance(d.value, bool) else F.const(d.value)
            else:
                return None
        out[nm] = v
    return out if all(n_ in out for n_ in PARAMS) else None


def _same_option(nm, got, want):
    if nm == "B":
        return (got is None) == (want is None) and (want is None or I.same_value(got, want))
    if nm == "half":
        if isinstance(got, bool) or got is None:
            return bool(got) == bool(want)
        return I.is_const(got) and (I.cval(got) != 0) == bool(want)
    if isinstance(got, bool) or got is None:
        return False
    return I.same_value(got, want)


def _routes_in(C, ret):
    out = set()
    for n_ in C._symbols(ret):
        base = n_.split("()")[0]
        if "()" in n_ and base in ROUTINES + ("expmint", "expmint(geti2)", "expmint_pow"):
            out.add(base)
    return out


def regimes(ctx, fn):
    """obligations of the concrete option regimes (see the module docstring); returns (every comparison decided by a regime,
    {(order, label, regime): ('routes', names of the routines the result was computed by) | ('undecided' | 'raises', why)})"""
    from . import c07 as C
    A, h, _o, B, _hf = symbols()
    theta9 = C.THETA[9]
    follow = ROUTINES + ("expmint", "expmint_pow")
    all_seen, runs = [], {}
    for order in (0, 1):
        for label, Bv, half in (("B is None, half false", None, False), ("B is None, half true", None, True),
                                ("B given, half false", B, False), ("B given, half true", B, True)):
            tag = f"getEPQ(order={order}; {label})"
            t_state = f"{tag}: a result computed by getEPQ1 / expmint (second integral) is returned only on a path that has found h ||A||_1 <= theta_9 " \
                      "(above it expmint is on its order-13 route, where the second integral has no Pade table: A^-1 formula or raw power series); " \
                      "one computed by a power-series routine only on a path that has bounded the norm"
            t_args = f"{tag}: the routine that computes the result receives (A, h, order, B, half) as given (half is immaterial with an input matrix) " \
                     "and its E, P, Q are returned as they are"
            bad_state, bad_args, undecided, und_args, crashed = {}, {}, None, None, None
            where = fn
            for regime in ("below", "above"):
                seen = []
                ret, it = evaluate(ctx, regime, [A, h, F.const(order), Bv, half], seen, follow)
                all_seen.extend(seen)
                cr = C._find_crash(ret)
                if cr is not None:
                    crashed = crashed or (regime, f"evaluation raises: {cr.why}")
                    runs[(order, label, regime)] = ("raises", crashed[1])
                    continue
                if isinstance(ret, Raised):
                    crashed = crashed or (regime, f"evaluation ends in the `raise` at line {getattr(ret.node, 'lineno', None)}")
                    runs[(order, label, regime)] = ("raises", crashed[1])
                    continue
                routes = _routes_in(C, ret)
                if C._has_unknown(ret) or not routes:
                    undecided = undecided or f"with the norm {regime} the switch: not evaluated to a routine's result: {ret!r}"[:300]
                    runs[(order, label, regime)] = ("undecided", repr(ret)[:200])
                    continue
                runs[(order, label, regime)] = ("routes", routes)
                # ---- typestate
                if order == 1:
                    ok_norm = [s_ for s_ in seen if regime == "below" and s_[1].equals(h * F.fn("norm1", A))]
                    for r_ in sorted(routes & set(SMALL_ONLY)):
                        recs = [c_ for c_ in it.calls if c_.name == r_.split("(")[0]]
                        if r_ == "getEPQ1":
                            # (a getEPQ1 that is told order 0 computes no second integral: nothing to establish; the arguments are judged below)
                            vals = [_completed(ctx, c_) for c_ in recs]
                            if vals and all(v_ is not None and I.is_const(v_["order"]) and I.cval(v_["order"]) == 0 for v_ in vals):
                                continue
                        pow_route = r_ in ("getEPQ_pow", "expmint_pow")
                        est = [s_ for s_ in ok_norm if pow_route or s_[2] <= theta9]
                        if est:
                            continue
                        foreign = [s_ for s_ in seen if regime == "below" and not s_[1].equals(h * F.fn("norm1", A))
                                   and not (I.atoms_named(s_[1], "norm1") or I.atoms_named(s_[1], "some-other-norm")) and C._unmodelled([s_[1]])]
                        if foreign:
                            undecided = undecided or f"with the norm {regime} the switch {r_} is reached after a test on a quantity the rule does not " \
                                                     f"model: {foreign[0][1]!r}"[:300]
                            continue
                        if recs:
                            where = recs[-1].node
                        bad_state[f"norm {regime} the switch"] = \
                            f"{r_} computes the result; tests on the path: " + \
                            (", ".join(f"{s_[1]!r} {s_[0]} {float(s_[2])!r} -> {'holds' if (s_[0] in ('Lt', 'LtE')) == (regime == 'below') else 'fails'}"
                                       for s_ in seen)[:300] or "none")
                # ---- arguments, and the result handed on as it is
                if routes <= set(ROUTINES):
                    if len(routes) != 1 or not I.same_value(ret, triple(next(iter(routes)))):
                        bad_args[f"norm {regime} the switch: value returned"] = repr(ret)[:200]
                else:
                    # getEPQ assembles E, P, Q itself (getEPQ1 written out in place): the same value as getEPQ1 returns for these arguments,
                    # evaluated the same way?  (anything else is not compared: undecided, never a violation)
                    try:
                        ref, _it = evaluate(ctx, regime, [A, h, F.const(order), Bv, half], [], ("expmint", "expmint_pow"), entry="getEPQ1")
                    except (AnchorError, Unsupported) as e:
                        ref = I.Unknown(str(e))
                    if C._has_unknown(ref) or C._find_crash(ref) or isinstance(ref, Raised) or not I.same_value(ret, ref):
                        und_args = und_args or f"with the norm {regime} the switch getEPQ assembles E, P, Q itself (from {sorted(routes)}) and the " \
                                                 f"value is not the one getEPQ1 returns: {ret!r}"[:300]
                for r_ in sorted(routes):
                    name = r_.split("(")[0]
                    for c_ in [c_ for c_ in it.calls if c_.name == name]:
                        if name in ("expmint", "expmint_pow"):
                            got = c_.ordered()
                            if len(got) < 2 or got[0] is None or got[1] is None or not (I.same_value(got[0], A) and I.same_value(got[1], h)):
                                bad_args[f"{name}, norm {regime} the switch"] = repr(got[:2])[:160]
                            continue
                        vals = _completed(ctx, c_)
                        if vals is None:
                            und_args = und_args or f"arguments of {name} could not be completed from its signature: {c_!r}"[:300]
                            continue
                        for nm, g_, w_ in zip(PARAMS, [vals[n_] for n_ in PARAMS], (A, h, F.const(order), Bv, half)):
                            if nm == "half" and Bv is not None:
                                continue
                            if is_unknown(g_) if not (g_ is None or isinstance(g_, bool)) else False:
                                und_args = und_args or f"argument `{nm}` of {name} could not be evaluated: {g_!r}"[:300]
                            elif not _same_option(nm, g_, w_):
                                bad_args[f"{name}, norm {regime} the switch, `{nm}`"] = repr(g_)[:120]
            if crashed is not None:
                # (every test on the path was decided by the options or the regime: the call raises for these arguments)
                if order == 1:
                    ctx.fail(t_state, fn, {f"norm {crashed[0]} the switch": crashed[1]})
                ctx.fail(t_args, fn, {f"norm {crashed[0]} the switch": crashed[1]})
                continue
            if order == 1:
                if bad_state:
                    ctx.fail(t_state, where, bad_state)
                elif undecided is not None:
                    ctx.error(t_state, fn, undecided)
                else:
                    ctx.ok(t_state, fn)
            if bad_args:
                ctx.fail(t_args, fn, bad_args)
            elif undecided is not None or und_args is not None:
                ctx.error(t_args, fn, undecided or und_args)
            else:
                ctx.ok(t_args, fn)
    return all_seen, runs
