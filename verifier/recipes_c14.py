"""C14 self-test recipes (text edits of /repo applied to scratch copies by the thorough tier): `break` = behaviour-breaking, must be
reported by one of the listed rules; `neutral` = behaviour-preserving refactoring, must stay silent."""

N = "pyyeti/nastran/n2p.py"

CYL_GUARD = "            if abs(loc2[1]) + abs(loc2[0]) > 1e-8:\n                th = math.atan2(loc2[1], loc2[0])"
SPH_GUARD = "            if abs(loc2[1]) + abs(loc2[0]) > 1e-8:\n                phi = math.atan2(loc2[1], loc2[0])"
SPH_TAIL = ("            if abs(loc2[2]) + abs(loc2[0]) > 1e-8:\n                th = math.atan2(loc2[0], loc2[2])\n            else:\n                th = 0\n"
            "            c = math.cos(th)\n            s = math.sin(th)\n            t = np.array([[s, 0, c], [c, 0, -s], [0, 1, 0]])\n"
            "            rb2[i : i + 3] = t @ rb2[i : i + 3]\n            rb2[i + 3 : i + 6] = t @ rb2[i + 3 : i + 6]\n")
SPH_INV = ("                if abs(s) > abs(c):\n                    theta = math.atan2(g[1] / s, g[2])\n                else:\n"
           "                    theta = math.atan2(g[0] / c, g[2])\n")
RECT = ("        t = uset.iloc[i + 3 : i + 6, 1:].values.T\n        rb2[i : i + 3] = t @ rb[i : i + 3]\n"
        "        rb2[i + 3 : i + 6] = t @ rb[i + 3 : i + 6]\n")

RECIPES = [
    # ---------------------------------------------------------------- behaviour-breaking
    ("C14", "break", ["C14-R1"], N, SPH_INV,
     "                rho = g[1] / s if s > c else g[0] / c\n                theta = math.atan2(rho, g[2])\n",
     "getcoordinates: divisor of the in-plane radius selected without abs() (seeded E)"),
    ("C14", "break", ["C14-R1"], N, "            g = T.T @ (xyz_basic - xyz_coord)", "            g = T @ (xyz_basic - xyz_coord)", "getcoordinates: transform not transposed"),
    ("C14", "break", ["C14-R1"], N, "            g = T.T @ (xyz_basic - xyz_coord)", "            g = T.T @ xyz_basic - xyz_coord", "getcoordinates: origin subtracted after the transform"),
    ("C14", "break", ["C14-R1"], N, "result.append(np.array([R, theta * 180 / math.pi, phi * 180 / math.pi]))",
     "result.append(np.array([R, phi * 180 / math.pi, theta * 180 / math.pi]))", "getcoordinates: theta / phi swapped"),
    ("C14", "break", ["C14-R1"], N, "        a2r = math.pi / 180.0", "        a2r = 180.0 / math.pi", "_get_loc_a_basic: degree factor inverted"),
    ("C14", "break", ["C14-R2"], N, CYL_GUARD, CYL_GUARD.replace("abs(loc2[1]) + abs(loc2[0])", "abs(loc2[1] + loc2[0])"), "cylindrical guard abs(a + b) (seeded C, first site)"),
    ("C14", "break", ["C14-R2"], N, SPH_GUARD, SPH_GUARD.replace("abs(loc2[1]) + abs(loc2[0])", "abs(loc2[1] + loc2[0])"), "spherical azimuth guard abs(a + b) (seeded C)"),
    ("C14", "break", ["C14-R2"], N, "            if abs(loc2[2]) + abs(loc2[0]) > 1e-8:", "            if abs(loc2[2] + loc2[0]) > 1e-8:", "spherical polar guard abs(a + b) (seeded C)"),
    ("C14", "break", ["C14-R2"], N, "            if abs(loc2[2]) + abs(loc2[0]) > 1e-8:", "            if abs(loc2[2]) > 1e-8:", "spherical polar guard looks at z only"),
    ("C14", "break", ["C14-R2"], N, "                th = math.atan2(loc2[0], loc2[2])", "                th = math.atan2(loc2[2], loc2[0])", "polar angle: atan2 arguments swapped"),
    ("C14", "break", ["C14-R2"], N, "            t = np.array([[s, 0, c], [c, 0, -s], [0, 1, 0]])", "            t = np.array([[s, 0, c], [c, 0, -s], [0, -1, 0]])", "e_phi reversed"),
    ("C14", "break", ["C14-R2"], N, SPH_TAIL, SPH_TAIL.replace("            rb2[i + 3 : i + 6] = t @ rb2[i + 3 : i + 6]\n", ""), "spherical frame not applied to the rotational rows"),
    ("C14", "break", ["C14-R2"], N, RECT, RECT.replace(".values.T\n", ".values\n"), "output-system transform not transposed"),
    ("C14", "break", ["C14-R2"], N, "    sph = (uset.loc[(slice(None), 2), \"y\"] == 3).values", "    sph = (uset.loc[(slice(None), 2), \"y\"] != 2).values",
     "spherical fix-up applied to every non-cylindrical grid"),
    ("C14", "break", ["C14-R2"], N, "        i = 6 * j\n", "        i = 5 * j\n", "rectangular step: blocks of five rows"),
    ("C14", "break", ["C14-R2"], N, "    grid_loc = np.arange(0, uset.shape[0], 6)", "    grid_loc = np.arange(0, uset.shape[0], 5)", "fix-up positions with stride 5"),
    ("C14", "break", ["C14-R2"], N, "    rbmodes[grid_rows] = rb2\n", "    rbmodes[: rb2.shape[0]] = rb2\n", "result written to the leading rows instead of the grid rows"),
    ("C14", "break", ["C14-R2"], N, "                phi = math.atan2(loc2[1], loc2[0])\n                c = math.cos(phi)\n",
     "                phi = math.atan2(loc2[1], loc2[0])\n", "spherical azimuth rotation with the cosine left over from the cylindrical loop"),
    ("C14", "break", ["C14-R2"], N, "                rb2[i + 3 : i + 5] = t @ rb2[i + 3 : i + 5]\n                loc2[:2] = t @ loc2[:2]",
     "                rb2[i - 3 : i - 1] = t @ rb2[i - 3 : i - 1]\n                loc2[:2] = t @ loc2[:2]", "fix-up writes into the rows of the previous grid"),
    ("C14", "break", ["C14-R1"], N, "    if coordinfo[0, 1] == 1:\n        location", "    if coordinfo[1, 0] == 1:\n        location", "_get_loc_a_basic dispatches on another cell of the record"),
    ("C14", "break", ["C14-R3"], N, "    elif np.any(refpoint != [0, 0, 0]):", "    elif np.any(refpoint != [0, 1, 0]):", "zero short cut taken for the reference [0, 1, 0]"),
    ("C14", "break", ["C14-R3"], N, "        grids = grids - grids[refpoint]", "        grids = grids + grids[refpoint]", "scalar reference added instead of subtracted"),
    ("C14", "break", ["C14-R3"], N, "    for i in range(6):\n        rbmodes[i::6, i] = 1.0", "    for i in range(3):\n        rbmodes[i::6, i] = 1.0", "unit rotations missing"),
    ("C14", "break", ["C14-R3"], N, "    return rb @ rbgeom(oldref, newref)", "    return rb @ rbgeom(newref, oldref)", "rbmove: references swapped"),
    ("C14", "break", ["C14-R4"], N, "    usetdof = uset.iloc[:, :0].reset_index().values\n    idof = []",
     "    _ids = sorted(set(np.atleast_1d(GRID_dep).tolist() + [g for k in range(1, len(Ind_List), 2) for g in np.atleast_1d(Ind_List[k]).tolist()]))\n"
     "    usetdof = uset.iloc[mkdofpv(uset, \"p\", _ids)[0], :0].reset_index().values\n    idof = []",
     "formrbe3: order table taken from an id-sorted reduced table (seeded D)"),
    # ---------------------------------------------------------------- behaviour-preserving
    ("C14", "neutral", [], N, SPH_INV,
     "                use_sin = abs(s) > abs(c)\n                rho = g[1] / s if use_sin else g[0] / c\n                theta = math.atan2(rho, g[2])\n",
     "getcoordinates: named test, conditional expression"),
    ("C14", "neutral", [], N, SPH_INV,
     "                if not abs(c) >= abs(s):\n                    theta = math.atan2(g[1] / s, g[2])\n                else:\n                    theta = math.atan2(g[0] / c, g[2])\n",
     "getcoordinates: the same selection written with >= and not"),
    ("C14", "neutral", [], N, "            g = T.T @ (xyz_basic - xyz_coord)", "            delta = xyz_basic - xyz_coord\n            g = np.dot(delta, T)",
     "getcoordinates: row vector times T instead of T.T times column vector"),
    ("C14", "neutral", [], N, "                R = linalg.norm(g)\n", "                R = math.sqrt(g[0] * g[0] + g[1] * g[1] + g[2] * g[2])\n", "getcoordinates: norm written out"),
    ("C14", "neutral", [], N, "                R = math.hypot(g[0], g[1])\n                theta = math.atan2(g[1], g[0])\n                result.append(np.array([R, theta * 180 / math.pi, g[2]]))",
     "                gx, gy, gz = g\n                r2d = 180 / math.pi\n                result.append(np.array([math.sqrt(gx**2 + gy**2), r2d * np.arctan2(gy, gx), gz]))",
     "getcoordinates: cylindrical arm with unpacking, sqrt, np.arctan2, hoisted factor"),
    ("C14", "neutral", [], N, SPH_INV, "                theta = math.atan2(math.hypot(g[0], g[1]), g[2])\n", "getcoordinates: polar angle from the in-plane radius, no quotient"),
    ("C14", "neutral", [], N, SPH_INV + "                result.append(np.array([R, theta * 180 / math.pi, phi * 180 / math.pi]))",
     "                theta = math.acos(g[2] / R)\n                result.append(np.array([R, math.degrees(theta), np.rad2deg(phi)]))",
     "getcoordinates: polar angle by acos, degrees() / rad2deg()"),
    ("C14", "neutral", [], N, "                th = math.atan2(loc2[1], loc2[0])\n                c = math.cos(th)\n                s = math.sin(th)\n",
     "                rad = math.hypot(loc2[0], loc2[1])\n                c = loc2[0] / rad\n                s = loc2[1] / rad\n",
     "cylindrical frame from the direction cosines, no atan2"),
    ("C14", "neutral", [], N, "            if abs(loc2[2]) + abs(loc2[0]) > 1e-8:\n                th = math.atan2(loc2[0], loc2[2])\n            else:\n                th = 0\n"
     "            c = math.cos(th)\n            s = math.sin(th)\n",
     "            big = math.hypot(loc2[0], loc2[2])\n            if big > 1e-8:\n                c = loc2[2] / big\n                s = loc2[0] / big\n"
     "            else:\n                c = 1.0\n                s = 0.0\n", "spherical polar rotation from the direction cosines, no atan2"),
    ("C14", "neutral", [], N, CYL_GUARD, CYL_GUARD.replace("abs(loc2[1]) + abs(loc2[0]) > 1e-8", "math.hypot(loc2[1], loc2[0]) > 1e-8"), "cylindrical guard on the radius"),
    ("C14", "neutral", [], N, CYL_GUARD, CYL_GUARD.replace("abs(loc2[1]) + abs(loc2[0]) > 1e-8", "abs(loc2[0]) > 1e-8 or abs(loc2[1]) > 1e-8"), "cylindrical guard as a disjunction"),
    ("C14", "neutral", [], N, CYL_GUARD, CYL_GUARD.replace("abs(loc2[1]) + abs(loc2[0]) > 1e-8", "max(abs(loc2[1]), abs(loc2[0])) > 1e-8"), "cylindrical guard on the larger component"),
    ("C14", "neutral", [], N, SPH_TAIL,
     "            th = math.atan2(loc2[0], loc2[2])\n            c = math.cos(th)\n            s = math.sin(th)\n"
     "            def to_frame(rows, t=np.array([[s, 0, c], [c, 0, -s], [0, 1, 0]])):\n                return np.dot(t, rows)\n"
     "            for k in (i, i + 3):\n                rb2[k : k + 3] = to_frame(rb2[k : k + 3])\n",
     "spherical frame: guard dropped (atan2(0, 0) is 0), nested helper, loop over the two triplets, np.dot"),
    ("C14", "neutral", [], N, RECT,
     "        block = uset.iloc[i : i + 6, 1:].to_numpy()\n        t = np.transpose(block[3:6])\n        for k in (0, 3):\n            rb2[i + k : i + k + 3] = np.dot(t, rb[i + k : i + k + 3])\n",
     "rectangular step: sub-block of the grid's table block, np.transpose, np.dot, loop"),
    ("C14", "neutral", [], N, "    rbmodes[1::6, 3] = -grids[:, 2]\n    rbmodes[2::6, 3] = grids[:, 1]\n    rbmodes[::6, 4] = grids[:, 2]\n    rbmodes[2::6, 4] = -grids[:, 0]\n"
     "    rbmodes[::6, 5] = -grids[:, 1]\n    rbmodes[1::6, 5] = grids[:, 0]\n    for i in range(6):\n        rbmodes[i::6, i] = 1.0\n",
     "    x, y, z = grids[:, 0], grids[:, 1], grids[:, 2]\n    skew = {(1, 3): -z, (2, 3): y, (0, 4): z, (2, 4): -x, (0, 5): -y, (1, 5): x}\n"
     "    for (a, b), val in skew.items():\n        rbmodes[a::6, b] = val\n    k = 0\n    while k < 6:\n        rbmodes[k::6, k] = 1.0\n        k += 1\n",
     "rbgeom: table-driven skew part, while loop for the identity"),
    ("C14", "neutral", [], N, "    elif np.any(refpoint != [0, 0, 0]):\n        grids = grids - refpoint", "    elif np.count_nonzero(refpoint) > 0:\n        grids = grids - np.asarray(refpoint)",
     "rbgeom: zero-reference short cut spelled with count_nonzero"),
    ("C14", "neutral", [], N, "    elif np.any(refpoint != [0, 0, 0]):\n        grids = grids - refpoint", "    else:\n        grids = grids - refpoint",
     "rbgeom: no short cut for a zero reference"),
    ("C14", "neutral", [], N, "    return rb @ rbgeom(oldref, newref)", "    shift = rbgeom(refpoint=newref, grids=oldref)\n    return np.matmul(rb, shift)", "rbmove: keywords, temporary, np.matmul"),
    ("C14", "neutral", [], N, "    usetdof = uset.iloc[:, :0].reset_index().values\n    idof = []", "    usetdof = np.array(uset.index.tolist())\n    idof = []",
     "formrbe3: [id, dof] table built from the index"),
]

# ================================================================== second hardening pass
# Refactorings of a different kind than the stored patches C14-N1 .. N8 (each checked on 6176 calls of the anchored functions: byte-identical
# results, except the einsum form which differs by round-off, 3e-16 relative), and, for every construct the interpreter of verifier/c14_np.py was
# taught for them, a break placed *inside* the new form.  OLD_* are the regions of /repo they replace (one text replacement each).
OLD_LOCAL = (
    '    # treat as rectangular here; fix cylindrical & spherical below\n'
    '    rb2 = np.zeros((np.shape(rb)))\n'
    '    for j in range(ngrids):\n'
    '        i = 6 * j\n'
    '        t = uset.iloc[i + 3 : i + 6, 1:].values.T\n'
    '        rb2[i : i + 3] = t @ rb[i : i + 3]\n'
    '        rb2[i + 3 : i + 6] = t @ rb[i + 3 : i + 6]\n'
    '\n'
    '    # fix up cylindrical:\n'
    '    grid_loc = np.arange(0, uset.shape[0], 6)\n'
    '    cyl = (uset.loc[(slice(None), 2), "y"] == 2).values\n'
    '    if cyl.any():\n'
    '        grid_loc_cyl = grid_loc[cyl]\n'
    '        for i in grid_loc_cyl:\n'
    '            t = uset.iloc[i + 3 : i + 6, 1:].values.T\n'
    '            loc = uset.iloc[i, 1:]\n'
    '            loc2 = t @ (loc - uset.iloc[i + 2, 1:]).values\n'
    '            if abs(loc2[1]) + abs(loc2[0]) > 1e-8:\n'
    '                th = math.atan2(loc2[1], loc2[0])\n'
    '                c = math.cos(th)\n'
    '                s = math.sin(th)\n'
    '                t = np.array([[c, s], [-s, c]])\n'
    '                rb2[i : i + 2] = t @ rb2[i : i + 2]\n'
    '                rb2[i + 3 : i + 5] = t @ rb2[i + 3 : i + 5]\n'
    '\n'
    '    # fix up spherical:\n'
    '    sph = (uset.loc[(slice(None), 2), "y"] == 3).values\n'
    '    if sph.any():\n'
    '        grid_loc_sph = grid_loc[sph]\n'
    '        for i in grid_loc_sph:\n'
    '            t = uset.iloc[i + 3 : i + 6, 1:].values.T\n'
    '            loc = uset.iloc[i, 1:]\n'
    '            loc2 = t @ (loc - uset.iloc[i + 2, 1:]).values\n'
    '            if abs(loc2[1]) + abs(loc2[0]) > 1e-8:\n'
    '                phi = math.atan2(loc2[1], loc2[0])\n'
    '                c = math.cos(phi)\n'
    '                s = math.sin(phi)\n'
    '                t = np.array([[c, s], [-s, c]])\n'
    '                rb2[i : i + 2] = t @ rb2[i : i + 2]\n'
    '                rb2[i + 3 : i + 5] = t @ rb2[i + 3 : i + 5]\n'
    '                loc2[:2] = t @ loc2[:2]\n'
    '            if abs(loc2[2]) + abs(loc2[0]) > 1e-8:\n'
    '                th = math.atan2(loc2[0], loc2[2])\n'
    '            else:\n'
    '                th = 0\n'
    '            c = math.cos(th)\n'
    '            s = math.sin(th)\n'
    '            t = np.array([[s, 0, c], [c, 0, -s], [0, 1, 0]])\n'
    '            rb2[i : i + 3] = t @ rb2[i : i + 3]\n'
    '            rb2[i + 3 : i + 6] = t @ rb2[i + 3 : i + 6]\n'
    '\n'
    '    # prepare final output:\n'
    '    rbmodes[grid_rows] = rb2\n'
    '    return rbmodes\n'
    '\n'
    '\n'
    'def rbmove(rb, oldref, newref):'
)
OLD_GC = (
    '    result = []\n'
    '    T = None\n'
    '    for igid in gid:\n'
    '        if isgrid:\n'
    '            xyz_basic = uset.loc[(igid, 1), "x":"z"].values\n'
    '        else:  # is coord\n'
    '            xyz_basic = igid\n'
    '        if np.size(csys) == 1 and csys == 0:\n'
    '            result.append(xyz_basic)\n'
    '        else:\n'
    '            if T is None:\n'
    '                # get input "coordinfo" [ cid type 0; location(1x3); T(3x3) ]:\n'
    '                if coordref is None:\n'
    '                    coordref = {}\n'
    '                coordinfo = mkusetcoordinfo(csys, uset, coordref)\n'
    '                xyz_coord = coordinfo[1]\n'
    '                T = coordinfo[2:]  # transform to basic for coordinate system\n'
    '            g = T.T @ (xyz_basic - xyz_coord)\n'
    '            ctype = coordinfo[0, 1].astype(np.int64)\n'
    '            if ctype == 1:\n'
    '                result.append(g)\n'
    '            elif ctype == 2:\n'
    '                R = math.hypot(g[0], g[1])\n'
    '                theta = math.atan2(g[1], g[0])\n'
    '                result.append(np.array([R, theta * 180 / math.pi, g[2]]))\n'
    '            else:\n'
    '                R = linalg.norm(g)\n'
    '                phi = math.atan2(g[1], g[0])\n'
    '                s = math.sin(phi)\n'
    '                c = math.cos(phi)\n'
    '                if abs(s) > abs(c):\n'
    '                    theta = math.atan2(g[1] / s, g[2])\n'
    '                else:\n'
    '                    theta = math.atan2(g[0] / c, g[2])\n'
    '                result.append(np.array([R, theta * 180 / math.pi, phi * 180 / math.pi]))\n'
    '\n'
    '    if gid.shape[0] == 1:\n'
    '        return result[0]\n'
    '    return np.array(result)\n'
)
OLD_RB = (
    '    rbmodes = np.zeros((r * 6, 6))\n'
    '    rbmodes[1::6, 3] = -grids[:, 2]\n'
    '    rbmodes[2::6, 3] = grids[:, 1]\n'
    '    rbmodes[::6, 4] = grids[:, 2]\n'
    '    rbmodes[2::6, 4] = -grids[:, 0]\n'
    '    rbmodes[::6, 5] = -grids[:, 1]\n'
    '    rbmodes[1::6, 5] = grids[:, 0]\n'
    '    for i in range(6):\n'
    '        rbmodes[i::6, i] = 1.0\n'
    '    return rbmodes\n'
)
OLD_FW = (
    '    # tranformation from global to basic:\n'
    '    Tg = coordinfo[2:]\n'
    '    coordloc = coordinfo[1]\n'
    '    if coordinfo[0, 1] == 1:\n'
    '        location = coordloc + Tg @ a\n'
    '    else:\n'
    '        a2r = math.pi / 180.0\n'
    '        if coordinfo[0, 1] == 2:  # cylindrical\n'
    '            vec = np.array(\n'
    '                [a[0] * math.cos(a[1] * a2r), a[0] * math.sin(a[1] * a2r), a[2]]\n'
    '            )\n'
    '        else:  # spherical\n'
    '            s = math.sin(a[1] * a2r)\n'
    '            vec = a[0] * np.array(\n'
    '                [\n'
    '                    s * math.cos(a[2] * a2r),\n'
    '                    s * math.sin(a[2] * a2r),\n'
    '                    math.cos(a[1] * a2r),\n'
    '                ]\n'
    '            )\n'
    '        location = coordloc + Tg @ vec\n'
    '    return location\n'
)
LOCAL_TABLE = (
    '    # one pass: every grid is taken to its rectangular output system and\n'
    '    # then handed to the fix-up registered for its type (if any)\n'
    '    rb2 = np.zeros((np.shape(rb)))\n'
    '    table = uset.iloc[:, 1:].values\n'
    '    cstypes = uset["y"].values[1::6]\n'
    '    for j, cstype in enumerate(cstypes):\n'
    '        i = 6 * j\n'
    '        t = table[i + 3 : i + 6].T\n'
    '        rb2[i : i + 3] = t @ rb[i : i + 3]\n'
    '        rb2[i + 3 : i + 6] = t @ rb[i + 3 : i + 6]\n'
    '        fixup = _LOCAL_FRAME_FIXUPS.get(int(cstype))\n'
    '        if fixup is not None:\n'
    '            fixup(rb2, i, t @ (table[i] - table[i + 2]))\n'
    '\n'
    '    # prepare final output:\n'
    '    rbmodes[grid_rows] = rb2\n'
    '    return rbmodes\n'
    '\n'
    '\n'
    'def _spin_about_z(rb2, i, loc2):\n'
    '    """\n'
    '    Rotate rows of grid starting at row `i` about local z by the azimuth\n'
    '    of `loc2`; returns the 2x2 transform or None if on the axis.\n'
    '    """\n'
    '    if abs(loc2[1]) + abs(loc2[0]) > 1e-8:\n'
    '        az = math.atan2(loc2[1], loc2[0])\n'
    '        c = math.cos(az)\n'
    '        s = math.sin(az)\n'
    '        t = np.array([[c, s], [-s, c]])\n'
    '        rb2[i : i + 2] = t @ rb2[i : i + 2]\n'
    '        rb2[i + 3 : i + 5] = t @ rb2[i + 3 : i + 5]\n'
    '        return t\n'
    '    return None\n'
    '\n'
    '\n'
    'def _fix_cylindrical(rb2, i, loc2):\n'
    '    _spin_about_z(rb2, i, loc2)\n'
    '\n'
    '\n'
    'def _fix_spherical(rb2, i, loc2):\n'
    '    t = _spin_about_z(rb2, i, loc2)\n'
    '    if t is not None:\n'
    '        loc2[:2] = t @ loc2[:2]\n'
    '    if abs(loc2[2]) + abs(loc2[0]) > 1e-8:\n'
    '        th = math.atan2(loc2[0], loc2[2])\n'
    '    else:\n'
    '        th = 0\n'
    '    c = math.cos(th)\n'
    '    s = math.sin(th)\n'
    '    t = np.array([[s, 0, c], [c, 0, -s], [0, 1, 0]])\n'
    '    rb2[i : i + 3] = t @ rb2[i : i + 3]\n'
    '    rb2[i + 3 : i + 6] = t @ rb2[i + 3 : i + 6]\n'
    '\n'
    '\n'
    '_LOCAL_FRAME_FIXUPS = {2: _fix_cylindrical, 3: _fix_spherical}\n'
    '\n'
    '\n'
    'def rbmove(rb, oldref, newref):'
)
LOCAL_ARRAYS = (
    '    # per-grid data, all grids at once: blocks[g] is the 6 x 3 table block\n'
    '    # of grid g: [location; id type 0; origin; 3 x 3 transform to basic]\n'
    '    blocks = uset.iloc[:, 1:].values.reshape(ngrids, 6, 3)\n'
    '    to_local = np.transpose(blocks[:, 3:, :], (0, 2, 1))\n'
    '    offsets = blocks[:, 0, :] - blocks[:, 2, :]\n'
    '    info = [\n'
    '        SimpleNamespace(row=6 * g, kind=int(blocks[g, 1, 1]), t=to_local[g], loc2=to_local[g] @ offsets[g])\n'
    '        for g in range(ngrids)\n'
    '    ]\n'
    '\n'
    '    def rotate(first, nrows, t):\n'
    '        # rotate `nrows` translation rows and `nrows` rotation rows of\n'
    '        # the grid starting at row `first`\n'
    '        parts = (slice(first, first + nrows), slice(first + 3, first + 3 + nrows))\n'
    '        new = tuple(map(functools.partial(np.matmul, t), (rb2[p] for p in parts)))\n'
    '        for p, rows in zip(parts, new):\n'
    '            rb2[p] = rows\n'
    '\n'
    '    # treat as rectangular here; fix cylindrical & spherical below\n'
    '    rb2 = rb.copy()\n'
    '    for g in info:\n'
    '        rotate(g.row, 3, g.t)\n'
    '\n'
    '    for g in info:\n'
    '        if g.kind not in (2, 3):\n'
    '            continue\n'
    '        i, loc2 = g.row, g.loc2\n'
    '        if abs(loc2[1]) + abs(loc2[0]) > 1e-8:\n'
    '            az = math.atan2(loc2[1], loc2[0])\n'
    '            c = math.cos(az)\n'
    '            s = math.sin(az)\n'
    '            t = np.array([[c, s], [-s, c]])\n'
    '            rotate(i, 2, t)\n'
    '            if g.kind == 3:\n'
    '                loc2[:2] = t @ loc2[:2]\n'
    '        if g.kind == 3:\n'
    '            if abs(loc2[2]) + abs(loc2[0]) > 1e-8:\n'
    '                th = math.atan2(loc2[0], loc2[2])\n'
    '            else:\n'
    '                th = 0\n'
    '            c = math.cos(th)\n'
    '            s = math.sin(th)\n'
    '            rotate(i, 3, np.array([[s, 0, c], [c, 0, -s], [0, 1, 0]]))\n'
    '\n'
    '    # prepare final output:\n'
    '    rbmodes[grid_rows] = rb2\n'
    '    return rbmodes\n'
    '\n'
    '\n'
    'def rbmove(rb, oldref, newref):'
)
LOCAL_RECURSION = (
    '    # treat as rectangular here; fix cylindrical & spherical below\n'
    '    rb2 = np.zeros((np.shape(rb)))\n'
    '    first_rows = list(range(0, 6 * ngrids, 6))\n'
    '    pending = first_rows[:]\n'
    '    while pending:\n'
    '        i = pending.pop(0)\n'
    '        t = uset.iloc[i + 3 : i + 6, 1:].values.T\n'
    '        rb2[i : i + 3], rb2[i + 3 : i + 6] = t @ rb[i : i + 3], t @ rb[i + 3 : i + 6]\n'
    '    del pending\n'
    '\n'
    '    local_offset = lambda i: uset.iloc[i + 3 : i + 6, 1:].values.T @ (\n'
    '        uset.iloc[i, 1:] - uset.iloc[i + 2, 1:]\n'
    '    ).values\n'
    '    off_axis = lambda a, b: abs(a) + abs(b) > 1e-8\n'
    '    cstype = uset.loc[(slice(None), 2), "y"].values\n'
    '    grid_loc = np.array(first_rows)\n'
    '\n'
    '    def spin(i, loc2):\n'
    '        th = math.atan2(loc2[1], loc2[0])\n'
    '        c, s = math.cos(th), math.sin(th)\n'
    '        t = np.array([[c, s], [-s, c]])\n'
    '        for lo in (i, i + 3):\n'
    '            rb2[lo : lo + 2] = t @ rb2[lo : lo + 2]\n'
    '        return t\n'
    '\n'
    '    # fix up cylindrical (recursively, one grid per call):\n'
    '    def fix_cyl(rows):\n'
    '        if len(rows) == 0:\n'
    '            return\n'
    '        head, *tail = rows\n'
    '        if off_axis(*(loc2 := local_offset(head))[1::-1]):\n'
    '            spin(head, loc2)\n'
    '        fix_cyl(tail)\n'
    '\n'
    '    fix_cyl(grid_loc[cstype == 2])\n'
    '\n'
    '    # fix up spherical:\n'
    '    todo = [int(i) for i in grid_loc[cstype == 3]]\n'
    '    k = 0\n'
    '    try:\n'
    '        while k < len(todo):\n'
    '            i = todo[k]\n'
    '            loc2 = local_offset(i)\n'
    '            if off_axis(loc2[1], loc2[0]):\n'
    '                t = spin(i, loc2)\n'
    '                loc2[:2] = t @ loc2[:2]\n'
    '            th = 0\n'
    '            th = math.atan2(loc2[0], loc2[2]) if off_axis(loc2[2], loc2[0]) else th\n'
    '            c, s = math.cos(th), math.sin(th)\n'
    '            t = np.array([[s, 0, c], [c, 0, -s], [0, 1, 0]])\n'
    '            rb2[i : i + 3] = t @ rb2[i : i + 3]\n'
    '            rb2[i + 3 : i + 6] = t @ rb2[i + 3 : i + 6]\n'
    '            k += 1\n'
    '        else:\n'
    '            k = None\n'
    '    finally:\n'
    '        rbmodes[grid_rows] = rb2\n'
    '    return rbmodes\n'
    '\n'
    '\n'
    'def rbmove(rb, oldref, newref):'
)
LOCAL_CLASS = (
    '    # treat as rectangular here; fix cylindrical & spherical below\n'
    '    rb2 = np.zeros((np.shape(rb)))\n'
    '    for j in range(ngrids):\n'
    '        i = 6 * j\n'
    '        t = uset.iloc[i + 3 : i + 6, 1:].values.T\n'
    '        rb2[i : i + 3] = t @ rb[i : i + 3]\n'
    '        rb2[i + 3 : i + 6] = t @ rb[i + 3 : i + 6]\n'
    '\n'
    '    grid_loc = np.arange(0, uset.shape[0], 6)\n'
    '    cstype = uset.loc[(slice(None), 2), "y"].values\n'
    '\n'
    '    # fix up cylindrical:\n'
    '    for i in grid_loc[cstype == 2]:\n'
    '        _GridFrame(rb2, uset, i).azimuth(False)\n'
    '\n'
    '    # fix up spherical:\n'
    '    for i in grid_loc[cstype == 3]:\n'
    '        frame = _GridFrame(rb2, uset, i)\n'
    '        frame.azimuth(True)\n'
    '        frame.polar()\n'
    '\n'
    '    # prepare final output:\n'
    '    rbmodes[grid_rows] = rb2\n'
    '    return rbmodes\n'
    '\n'
    '\n'
    'class _GridFrame:\n'
    '    """\n'
    '    Rows of one grid in the work array of :func:`rbgeom_uset`, with the\n'
    '    rotations that take them to the local frame of the grid.\n'
    '    """\n'
    '\n'
    '    tol = 1e-8\n'
    '\n'
    '    def __init__(self, rb2, uset, i):\n'
    '        self.rb2 = rb2\n'
    '        self.i = i\n'
    '        t = uset.iloc[i + 3 : i + 6, 1:].values.T\n'
    '        self.loc2 = t @ (uset.iloc[i, 1:] - uset.iloc[i + 2, 1:]).values\n'
    '\n'
    '    @property\n'
    '    def off_axis(self):\n'
    '        return abs(self.loc2[1]) + abs(self.loc2[0]) > self.tol\n'
    '\n'
    '    def _apply(self, n, t):\n'
    '        i = self.i\n'
    '        self.rb2[i : i + n] = t @ self.rb2[i : i + n]\n'
    '        self.rb2[i + 3 : i + 3 + n] = t @ self.rb2[i + 3 : i + 3 + n]\n'
    '\n'
    '    def azimuth(self, update_loc):\n'
    '        if not self.off_axis:\n'
    '            return\n'
    '        ang = math.atan2(self.loc2[1], self.loc2[0])\n'
    '        c = math.cos(ang)\n'
    '        s = math.sin(ang)\n'
    '        t = np.array([[c, s], [-s, c]])\n'
    '        self._apply(2, t)\n'
    '        if update_loc:\n'
    '            self.loc2[:2] = t @ self.loc2[:2]\n'
    '\n'
    '    def polar(self):\n'
    '        loc2 = self.loc2\n'
    '        if abs(loc2[2]) + abs(loc2[0]) > self.tol:\n'
    '            th = math.atan2(loc2[0], loc2[2])\n'
    '        else:\n'
    '            th = 0\n'
    '        c = math.cos(th)\n'
    '        s = math.sin(th)\n'
    '        self._apply(3, np.array([[s, 0, c], [c, 0, -s], [0, 1, 0]]))\n'
    '\n'
    '\n'
    'def rbmove(rb, oldref, newref):'
)
LOCAL_EINSUM = (
    '    # treat as rectangular here; fix cylindrical & spherical below\n'
    '    # all grids at once: T[g] is the 3 x 3 transform to basic of grid g and\n'
    '    # rb4[g, k] the 3 x 6 translation (k = 0) / rotation (k = 1) rows\n'
    '    T = uset.iloc[:, 1:].values.reshape(ngrids, 6, 3)[:, 3:, :]\n'
    '    rb4 = rb.reshape(ngrids, 2, 3, 6)\n'
    '    rb2 = np.einsum("gji,gkjc->gkic", T, rb4).reshape(rb.shape)\n'
    '\n'
    '    # fix up cylindrical:\n'
    '    grid_loc = np.arange(0, uset.shape[0], 6)\n'
    '    cyl = (uset.loc[(slice(None), 2), "y"] == 2).values\n'
    '    if cyl.any():\n'
    '        grid_loc_cyl = grid_loc[cyl]\n'
    '        for i in grid_loc_cyl:\n'
    '            t = uset.iloc[i + 3 : i + 6, 1:].values.T\n'
    '            loc = uset.iloc[i, 1:]\n'
    '            loc2 = t @ (loc - uset.iloc[i + 2, 1:]).values\n'
    '            if abs(loc2[1]) + abs(loc2[0]) > 1e-8:\n'
    '                th = math.atan2(loc2[1], loc2[0])\n'
    '                c = math.cos(th)\n'
    '                s = math.sin(th)\n'
    '                t = np.array([[c, s], [-s, c]])\n'
    '                rb2[i : i + 2] = t @ rb2[i : i + 2]\n'
    '                rb2[i + 3 : i + 5] = t @ rb2[i + 3 : i + 5]\n'
    '\n'
    '    # fix up spherical:\n'
    '    sph = (uset.loc[(slice(None), 2), "y"] == 3).values\n'
    '    if sph.any():\n'
    '        grid_loc_sph = grid_loc[sph]\n'
    '        for i in grid_loc_sph:\n'
    '            t = uset.iloc[i + 3 : i + 6, 1:].values.T\n'
    '            loc = uset.iloc[i, 1:]\n'
    '            loc2 = t @ (loc - uset.iloc[i + 2, 1:]).values\n'
    '            if abs(loc2[1]) + abs(loc2[0]) > 1e-8:\n'
    '                phi = math.atan2(loc2[1], loc2[0])\n'
    '                c = math.cos(phi)\n'
    '                s = math.sin(phi)\n'
    '                t = np.array([[c, s], [-s, c]])\n'
    '                rb2[i : i + 2] = t @ rb2[i : i + 2]\n'
    '                rb2[i + 3 : i + 5] = t @ rb2[i + 3 : i + 5]\n'
    '                loc2[:2] = t @ loc2[:2]\n'
    '            if abs(loc2[2]) + abs(loc2[0]) > 1e-8:\n'
    '                th = math.atan2(loc2[0], loc2[2])\n'
    '            else:\n'
    '                th = 0\n'
    '            c = math.cos(th)\n'
    '            s = math.sin(th)\n'
    '            t = np.array([[s, 0, c], [c, 0, -s], [0, 1, 0]])\n'
    '            rb2[i : i + 3] = t @ rb2[i : i + 3]\n'
    '            rb2[i + 3 : i + 6] = t @ rb2[i + 3 : i + 6]\n'
    '\n'
    '    # prepare final output:\n'
    '    rbmodes[grid_rows] = rb2\n'
    '    return rbmodes\n'
    '\n'
    '\n'
    'def rbmove(rb, oldref, newref):'
)
GC_MATCH = (
    '    memo = None\n'
    '\n'
    '    def csys_data():\n'
    '        # resolved on first use only: (origin, transform to basic, type)\n'
    '        nonlocal memo, coordref\n'
    '        if memo is None:\n'
    '            if coordref is None:\n'
    '                coordref = {}\n'
    '            coordinfo = mkusetcoordinfo(csys, uset, coordref)\n'
    '            memo = coordinfo[1], coordinfo[2:], coordinfo[0, 1].astype(np.int64)\n'
    '        return memo\n'
    '\n'
    '    def locations():\n'
    '        for igid in gid:\n'
    '            yield uset.loc[(igid, 1), "x":"z"].values if isgrid else igid\n'
    '\n'
    '    result = []\n'
    '    for xyz_basic in locations():\n'
    '        if np.size(csys) == 1 and csys == 0:\n'
    '            result.append(xyz_basic)\n'
    '            continue\n'
    '        xyz_coord, T, ctype = csys_data()\n'
    '        g = T.T @ (xyz_basic - xyz_coord)\n'
    '        match int(ctype):\n'
    '            case 1:\n'
    '                result.append(g)\n'
    '            case 2:\n'
    '                R = math.hypot(g[0], g[1])\n'
    '                theta = math.atan2(g[1], g[0])\n'
    '                result.append(np.array([R, theta * 180 / math.pi, g[2]]))\n'
    '            case _:\n'
    '                R = linalg.norm(g)\n'
    '                phi = math.atan2(g[1], g[0])\n'
    '                s = math.sin(phi)\n'
    '                c = math.cos(phi)\n'
    '                if abs(s) > abs(c):\n'
    '                    theta = math.atan2(g[1] / s, g[2])\n'
    '                else:\n'
    '                    theta = math.atan2(g[0] / c, g[2])\n'
    '                result.append(np.array([R, theta * 180 / math.pi, phi * 180 / math.pi]))\n'
    '\n'
    '    if gid.shape[0] == 1:\n'
    '        return result[0]\n'
    '    return np.array(result)\n'
)
FW_MATCH = (
    '    # tranformation from global to basic:\n'
    '    Tg = coordinfo[2:]\n'
    '    coordloc = coordinfo[1]\n'
    '    a2r = math.pi / 180.0\n'
    '    match coordinfo[0, 1]:\n'
    '        case 1:\n'
    '            vec = a\n'
    '        case 2:  # cylindrical\n'
    '            vec = np.array(\n'
    '                [a[0] * math.cos(a[1] * a2r), a[0] * math.sin(a[1] * a2r), a[2]]\n'
    '            )\n'
    '        case _:  # spherical\n'
    '            s = math.sin(a[1] * a2r)\n'
    '            vec = a[0] * np.array(\n'
    '                [\n'
    '                    s * math.cos(a[2] * a2r),\n'
    '                    s * math.sin(a[2] * a2r),\n'
    '                    math.cos(a[1] * a2r),\n'
    '                ]\n'
    '            )\n'
    '    return coordloc + Tg @ vec\n'
)
RB_ARRAYS = (
    '    # unit translations / rotations for every grid ...\n'
    '    rbmodes = np.tile(np.eye(6), (r, 1))\n'
    '    # ... and the translations due to unit rotations, all grids at once:\n'
    '    x, y, z = grids.T\n'
    '    zero = np.zeros(r)\n'
    '    skew = np.array([[zero, z, -y], [-z, zero, x], [y, -x, zero]])  # 3 x 3 x r\n'
    '    rbmodes.reshape(r, 6, 6)[:, :3, 3:] = skew.transpose(2, 0, 1)\n'
    '    return rbmodes\n'
)


LOCAL_ARRAYS2 = "    import functools\n\n" + LOCAL_ARRAYS
def must(t, a, b):
    assert t.count(a) == 1, (a, t.count(a))
    return t.replace(a, b)
RECIPES += [
    ("C14", "neutral", [], N, OLD_LOCAL, LOCAL_TABLE, "rbgeom_uset: one pass over the grids, per-type fix-up from a module-level table of helpers defined below"),
    ("C14", "break", ["C14-R2"], N, OLD_LOCAL, must(LOCAL_TABLE, "{2: _fix_cylindrical, 3: _fix_spherical}", "{2: _fix_cylindrical, 3: _fix_cylindrical}"),
     "dispatch table sends spherical grids to the cylindrical fix-up"),
    ("C14", "break", ["C14-R2"], N, OLD_LOCAL, must(LOCAL_TABLE, "fixup(rb2, i, t @ (table[i] - table[i + 2]))", "fixup(rb2, i, t @ (table[i] - table[i + 1]))"),
     "dispatch-table form: local position measured from the id/type row instead of the origin row"),
    ("C14", "neutral", [], N, OLD_LOCAL, LOCAL_ARRAYS2, "rbgeom_uset: per-grid data from whole-array steps (reshape, stacked transpose, batched @), SimpleNamespace records, partial + map"),
    ("C14", "break", ["C14-R2"], N, OLD_LOCAL, must(LOCAL_ARRAYS2, "to_local = np.transpose(blocks[:, 3:, :], (0, 2, 1))", "to_local = np.transpose(blocks[:, 3:, :], (0, 1, 2))"),
     "whole-array form: stacked transforms not transposed"),
    ("C14", "break", ["C14-R2"], N, OLD_LOCAL, must(LOCAL_ARRAYS2, "parts = (slice(first, first + nrows), slice(first + 3, first + 3 + nrows))", "parts = (slice(first, first + nrows), slice(first + 3, first + 2 + nrows))"),
     "whole-array form: rotation rows one short (shape error inside the closure)"),
    ("C14", "neutral", [], N, OLD_LOCAL, LOCAL_RECURSION, "rbgeom_uset: recursion over the cylindrical grids, while/else with a cursor, walrus, lambdas, try/finally, del"),
    ("C14", "break", ["C14-R2"], N, OLD_LOCAL, must(LOCAL_RECURSION, "        fix_cyl(tail)\n", "        fix_cyl(tail[1:])\n"), "recursive form skips every second cylindrical grid"),
    ("C14", "break", ["C14-R2"], N, OLD_LOCAL, must(LOCAL_RECURSION, "off_axis = lambda a, b: abs(a) + abs(b) > 1e-8", "off_axis = lambda a, b: abs(a + b) > 1e-8"),
     "lambda guard abs(a + b) (seeded C inside a lambda)"),
    ("C14", "neutral", [], N, OLD_LOCAL, LOCAL_CLASS, "rbgeom_uset: a class per grid (methods, property, class attribute) defined below the function"),
    ("C14", "break", ["C14-R2"], N, OLD_LOCAL, must(LOCAL_CLASS, "return abs(self.loc2[1]) + abs(self.loc2[0]) > self.tol", "return abs(self.loc2[1]) > self.tol"),
     "class form: property off_axis looks at y only (seeded A inside a property)"),
    ("C14", "break", ["C14-R2"], N, OLD_LOCAL, must(LOCAL_CLASS, "self.rb2[i + 3 : i + 3 + n] = t @ self.rb2[i + 3 : i + 3 + n]", "self.rb2[i + 3 : i + 3 + n] = t.T @ self.rb2[i + 3 : i + 3 + n]"),
     "class form: rotational rows rotated the other way"),
    ("C14", "neutral", [], N, OLD_LOCAL, LOCAL_EINSUM, "rbgeom_uset: rectangular step of all grids by one einsum over reshaped views"),
    ("C14", "break", ["C14-R2"], N, OLD_LOCAL, must(LOCAL_EINSUM, '"gji,gkjc->gkic"', '"gij,gkjc->gkic"'), "einsum form: transform not transposed"),
    ("C14", "neutral", [], N, OLD_GC, GC_MATCH, "getcoordinates: match on the type, generator of locations, coordinate system memoised in a nonlocal closure"),
    ("C14", "break", ["C14-R1"], N, OLD_GC, must(GC_MATCH, "memo = coordinfo[1], coordinfo[2:], coordinfo[0, 1].astype(np.int64)", "memo = coordinfo[1], coordinfo[2:].T, coordinfo[0, 1].astype(np.int64)"),
     "memoised form keeps the transposed transform and transposes again"),
    ("C14", "break", ["C14-R1"], N, OLD_GC, must(GC_MATCH, "            case 2:\n                R = math.hypot", "            case 3:\n                R = math.hypot"),
     "match form: cylindrical arm under case 3"),
    ("C14", "neutral", [], N, OLD_FW, FW_MATCH, "_get_loc_a_basic: match on the type code"),
    ("C14", "break", ["C14-R1"], N, OLD_FW, must(FW_MATCH, "        case 2:  # cylindrical", "        case 3:  # cylindrical"), "_get_loc_a_basic match form: cylindrical map for type 3"),
    ("C14", "neutral", [], N, OLD_RB, RB_ARRAYS, "rbgeom: tile / eye and a (3, 3, n) skew stack written through a reshaped view"),
    ("C14", "break", ["C14-R3"], N, OLD_RB, must(RB_ARRAYS, "skew = np.array([[zero, z, -y], [-z, zero, x], [y, -x, zero]])", "skew = np.array([[zero, -z, y], [z, zero, -x], [-y, x, zero]])"),
     "array form: skew part with the opposite sign"),
    ("C14", "break", ["C14-R3"], N, OLD_RB, must(RB_ARRAYS, "skew.transpose(2, 0, 1)", "skew.transpose(2, 1, 0)"), "array form: skew stack transposed"),
    ("C14", "break", ["C14-R2"], N, "    ngrids = uset.shape[0] // 6\n", "    ngrids = uset.shape[0] / 6\n", "true division: range() of a float (TypeError on every table)"),
    ("C14", "break", ["C14-R1"], N, "    result = []\n    T = None\n", "    result = []\n", "getcoordinates: T read before it is bound (UnboundLocalError)"),
    ("C14", "break", ["C14-R2"], N, "        rb2[i + 3 : i + 6] = t @ rb[i + 3 : i + 6]\n\n", "        rb2[i + 3 : i + 6] = t @ rb[i + 2 : i + 6]\n\n", "rectangular step: four rows into three (shape error)"),
    ("C14", "break", ["C14-R1"], N, "    elif gid.ndim == 2:  # user passed", "    elif gid.ndim == 3:  # user passed", "getcoordinates raises on a valid (n, 3) input"),
    ("C14", "break", ["C14-R1"], N, "        if np.size(csys) == 1 and csys == 0:", "        if np.size(csys) == 1 and csys == 1:", "getcoordinates: basic system taken to be id 1"),
    ("C14", "break", ["C14-R1"], N, 'xyz_basic = uset.loc[(igid, 1), "x":"z"].values', 'xyz_basic = uset.loc[(igid, 3), "x":"z"].values', "getcoordinates: grid location read from the origin row"),
    ("C14", "break", ["C14-R2"], N, "def rbgeom_uset(uset, refpoint=np.array([[0, 0, 0]])):", "def rbgeom_uset(uset, refpoint=np.array([[0, 0, 1]])):", "rbgeom_uset: default reference off the origin"),
    ("C14", "break", ["C14-R3"], N, "    grids = np.reshape(grids, (-1, 3))\n    r = np.shape(grids)[0]\n    if np.size(refpoint) == 1:", "    r = np.shape(grids)[0]\n    if np.size(refpoint) == 1:",
     "rbgeom: a 3-vector is no longer reshaped to one grid"),
]

SORT_IDOF = "    pv = locate.mat_intersect(idof, usetdof, 2)[0]\n    idof = idof[pv]\n    wtdof = wtdof[pv]"
NDIM_TEST = (
    "    if gid.ndim == 1:  # user passed in a 1-d array\n        isgrid = True\n    elif gid.ndim == 2:  # user passed in a 2-d array w/ 3 col\n"
    "        if gid.shape[1] != 3:\n            raise ValueError(\n"
    "                f\"`gid` is 2d but does not have 3 columns (it has {gid.shape[1]})\"\n            )\n        isgrid = False\n"
    "    else:  # user passed in a higher dimension array\n        raise ValueError(f\"`gid` is more than 2d (it has {gid.ndim} dimensions)\")\n")
NDIM_MATCH = (
    "    match gid.ndim:\n        case 1:  # user passed in a 1-d array\n            isgrid = True\n        case 2:  # user passed in a 2-d array w/ 3 col\n"
    "            if gid.shape[1] != 3:\n                raise ValueError(\n"
    "                    f\"`gid` is 2d but does not have 3 columns (it has {gid.shape[1]})\"\n                )\n            isgrid = False\n"
    "        case _:  # user passed in a higher dimension array\n            raise ValueError(f\"`gid` is more than 2d (it has {gid.ndim} dimensions)\")\n")
RECIPES += [
    ("C14", "neutral", [], N, SORT_IDOF,
     "    def uset_order(dof, ref=usetdof):\n        return locate.mat_intersect(dof, ref, 2)[0]\n\n    pv = uset_order(idof)\n    idof = idof[pv]\n    wtdof = wtdof[pv]",
     "formrbe3: the ordering step wrapped in a closure with the reference table as default argument"),
    ("C14", "break", ["C14-R4"], N, SORT_IDOF,
     "    def uset_order(dof, ref=None):\n        if ref is None:\n            rows = mkdofpv(uset, \"p\", sorted(set(dof[:, 0].tolist())))[0]\n"
     "            ref = uset.iloc[rows, :0].reset_index().values\n        return locate.mat_intersect(dof, ref, 2)[0]\n\n"
     "    pv = uset_order(idof)\n    idof = idof[pv]\n    wtdof = wtdof[pv]",
     "formrbe3: closure orders against an id-sorted reduced table (seeded D inside a closure)"),
    ("C14", "neutral", [], N, NDIM_TEST, NDIM_MATCH, "getcoordinates: shape test of gid as a match statement"),
    ("C14", "break", ["C14-R1"], N, NDIM_TEST, NDIM_MATCH.replace("        case 2:  # user passed in a 2-d array w/ 3 col\n", "        case 3:  # user passed in a 2-d array w/ 3 col\n"),
     "getcoordinates: match form rejects the valid (n, 3) input"),
]

# ---------------------------------------------------------------------------------------------------- pass 3: rbcoords (R5)
LSTSQ = "        R = linalg.lstsq(T, rb[row : row + 3, 3:])[0]\n"
RHS = "rb[row : row + 3, 3:]"


def _bypass(test, fit="linalg.lstsq(T, %s)[0]" % RHS):
    return f"        if {test}:\n            R = {RHS}\n        else:\n            R = {fit}\n"


RECIPES += [
    # bypasses of the fit under a test that does not bound the off-diagonal terms
    ("C14", "break", ["C14-R5"], N, LSTSQ, _bypass("np.allclose(np.diag(T), 1.0)"), "rbcoords: fit skipped on a unit diagonal within allclose's tolerance (round-3 seed F)"),
    ("C14", "break", ["C14-R5"], N, LSTSQ, _bypass("abs(np.trace(T) - 3.0) < 1e-6"), "rbcoords: fit skipped when the trace is 3 within 1e-6"),
    ("C14", "break", ["C14-R5"], N, LSTSQ, _bypass("np.allclose(np.abs(np.diag(T)), 1.0, rtol=0, atol=1e-12)"), "rbcoords: fit skipped on |diagonal| = 1 within 1e-12 (half turns)"),
    ("C14", "break", ["C14-R5"], N, LSTSQ, _bypass("T[0, 0] > 0.999999 and T[1, 1] > 0.999999 and T[2, 2] > 0.999999"), "rbcoords: fit skipped when every diagonal term exceeds 0.999999"),
    ("C14", "break", ["C14-R5"], N, LSTSQ, _bypass("np.isclose(T.diagonal().sum(), 3.0)"), "rbcoords: fit skipped on isclose(sum of the diagonal, 3)"),
    ("C14", "break", ["C14-R5"], N, LSTSQ, _bypass("np.allclose(T, np.eye(3), atol=1e-3)"), "rbcoords: fit skipped when the block is the identity within 1e-3 (bounded, but by 0.1 % of the distance)"),
    ("C14", "break", ["C14-R5"], N, LSTSQ, _bypass("np.linalg.det(T) > 0.99"), "rbcoords: fit skipped for every proper rotation (determinant test)"),
    ("C14", "break", ["C14-R5"], N, LSTSQ, _bypass("math.isclose(T[2, 2], 1.0, abs_tol=1e-9)"), "rbcoords: fit skipped when the local z axis is the reference z axis (rotation about z ignored)"),
    # the fit itself
    ("C14", "break", ["C14-R5"], N, LSTSQ, f"        R = {RHS}\n", "rbcoords: no fit at all (rotational columns read as they are)"),
    ("C14", "break", ["C14-R5"], N, "        T = rb[row : row + 3, :3]\n", "        T = rb[:3, :3]\n", "rbcoords: every grid solved with the block of the first grid"),
    ("C14", "break", ["C14-R5"], N, LSTSQ, f"        R = linalg.lstsq(T.T, {RHS})[0]\n", "rbcoords: fit with the transposed block"),
    ("C14", "break", ["C14-R5"], N, LSTSQ, f"        R = T @ {RHS}\n", "rbcoords: block applied instead of inverted"),
    ("C14", "break", ["C14-R5"], N, LSTSQ, f"        R = linalg.solve(T, {RHS})\n", "rbcoords: plain solve fails on the zero rows of a q-set grid"),
    ("C14", "break", ["C14-R5"], N, "        coords[j] = [deltax, deltay, deltaz]", "        coords[j] = [deltax, deltaz, deltay]", "rbcoords: y and z swapped"),
    ("C14", "break", ["C14-R5"], N, "        deltax = R[1, 2]\n", "        deltax = R[2, 1]\n", "rbcoords: x read from the entry with the opposite sign"),
    ("C14", "break", ["C14-R5"], N, "        row = j * 6\n        T = rb", "        row = j * 3\n        T = rb", "rbcoords: blocks of three rows"),
    ("C14", "break", ["C14-R5"], N, "        coords[j] = [deltax, deltay, deltaz]", "        coords[0] = [deltax, deltay, deltaz]", "rbcoords: every location written to row 0"),
    ("C14", "break", ["C14-R5"], N, "    n = r // 6\n    coords = np.zeros((n, 3))", "    n = r // 6 - 1\n    coords = np.zeros((n, 3))", "rbcoords: last grid dropped"),
    # correct variants of the same constructs
    ("C14", "neutral", [], N, LSTSQ, _bypass("np.array_equal(T, np.eye(3))"), "rbcoords: fit skipped when the block is exactly the identity"),
    ("C14", "neutral", [], N, LSTSQ, _bypass("(T == np.eye(3)).all()"), "rbcoords: fit skipped on an exact element-wise identity test"),
    ("C14", "neutral", [], N, LSTSQ, _bypass("np.allclose(T, np.eye(3), rtol=0.0, atol=1e-14)"), "rbcoords: fit skipped when every term of the block is within 1e-14 of the identity"),
    ("C14", "neutral", [], N, LSTSQ, _bypass("np.allclose(T, np.eye(3), rtol=0.0, atol=1e-7)"), "rbcoords: fit skipped when every term of the block is within 1e-7 of the identity (off-diagonal terms bounded)"),
    ("C14", "break", ["C14-R5"], N, LSTSQ, _bypass("np.allclose(np.diag(T), 1.0, rtol=0.0, atol=1e-10)"), "rbcoords: fit skipped on a unit diagonal within 1e-10 (tilts up to 1.4e-5)"),
    ("C14", "neutral", [], N, LSTSQ, _bypass("not (T - np.diag(np.diag(T))).any() and (np.diag(T) == 1).all()"), "rbcoords: off-diagonal terms tested to be zero, diagonal to be one"),
    ("C14", "neutral", [], N, LSTSQ, f"        R = np.linalg.lstsq(T, {RHS}, rcond=None)[0]\n", "rbcoords: numpy's lstsq"),
    ("C14", "neutral", [], N, LSTSQ, f"        R, *_ = linalg.lstsq(T, {RHS}, check_finite=False)\n", "rbcoords: star unpacking of the lstsq result"),
    ("C14", "neutral", [], N, LSTSQ, f"        R = linalg.pinv(T) @ {RHS}\n", "rbcoords: pseudo-inverse times right-hand side"),
    ("C14", "neutral", [], N, "        coords[j] = [deltax, deltay, deltaz]", "        coords[j] = [(deltax + deltax2) / 2, (deltay + deltay2) / 2, (deltaz + deltaz2) / 2]",
     "rbcoords: location from the mean of the two skew entries (equal for rigid modes)"),
    ("C14", "neutral", [], N, "        T = rb[row : row + 3, :3]\n" + LSTSQ,
     "        blk = rb[row : row + 6].reshape(2, 3, 6)[0]\n        T, rhs = np.hsplit(blk, 2) if False else (blk[:, :3], blk[:, 3:])\n        R = linalg.lstsq(T, rhs)[0]\n",
     "rbcoords: translational rows taken through a reshaped view"),
]

# ---------------------------------------------------------------------------------------------------- pass 3: own refactorings (each verified
# in a scratch copy of /repo: same failing set of pyyeti/tests/test_n2p.py, test_nastran.py and the n2p doctests as the clean tree; results of
# rbgeom / rbgeom_uset / rbmove / rbcoords / getcoordinates / _get_loc_a_basic on random models equal to 5e-14 relative, P8 except azimuths
# of points on a polar axis)
RECIPES += [
    ("C14", "neutral", [], N,
     '    n = r // 6\n    coords = np.zeros((n, 3))\n    maxerr = 0\n    maxdev = 0\n    haderr = 0\n    for j in range(n):\n        row = j * 6\n        T = rb[row : row + 3, :3]\n        R = linalg.lstsq(T, rb[row : row + 3, 3:])[0]\n        deltax = R[1, 2]\n        deltay = R[2, 0]\n        deltaz = R[0, 1]\n\n        deltax2 = -R[2, 1]\n        deltay2 = -R[0, 2]\n        deltaz2 = -R[1, 0]\n        dev = np.max(\n            np.vstack(\n                (\n                    np.max(np.abs(np.diag(R))),\n                    np.abs(deltax - deltax2),\n                    np.abs(deltay - deltay2),\n                    np.abs(deltaz - deltaz2),\n                )\n            )\n        )\n        coords[j] = [deltax, deltay, deltaz]\n        mc = np.max(np.abs(coords[j]))\n        if mc > np.finfo(float).eps:\n            err = dev / mc * 100.0\n        else:\n            err = dev / np.finfo(float).eps * 100.0\n        maxdev = max([maxdev, dev])\n        maxerr = max([maxerr, err])\n        if verbose > 0 and (dev > mc * 1.0e-6 or math.isnan(dev)):\n            if verbose > 1:\n                print(\n                    "Warning:  deviation from standard pattern, "\n                    f"node #{j + 1} starting at index {row}:"\n                )\n                print(f"  Max deviation = {dev:.3g} units.")\n                print(f"  Max % error   = {err:.3g}%.")\n                print("  Rigid-Body Rotations:")\n                for k in range(3):\n                    print("         {:10.4f} {:10.4f} {:10.4f}".format(*R[k, :3]))\n                print("")\n            haderr = 1\n',
     '    import functools\n\n    n = r // 6\n    coords = np.zeros((n, 3))\n    eps = np.finfo(float).eps\n\n    def fit_nodes():\n        """yield (first row, 3x3 skew matrix) of every node"""\n        for first in range(0, r, 6):\n            top = rb[first : first + 3]\n            yield first, linalg.lstsq(top[:, :3], top[:, 3:])[0]\n\n    devs, errs = [], []\n    haderr = 0\n    for j, (row, R) in enumerate(fit_nodes()):\n        upper = np.array([R[1, 2], R[2, 0], R[0, 1]])\n        lower = -np.array([R[2, 1], R[0, 2], R[1, 0]])\n        dev = np.max(np.concatenate((np.abs(np.diag(R)), np.abs(upper - lower))))\n        coords[j] = upper\n        mc = np.max(np.abs(coords[j]))\n        err = dev / (mc if mc > eps else eps) * 100.0\n        devs.append(dev)\n        errs.append(err)\n        if verbose > 0 and (dev > mc * 1.0e-6 or math.isnan(dev)):\n            if verbose > 1:\n                print(\n                    "Warning:  deviation from standard pattern, "\n                    f"node #{j + 1} starting at index {row}:"\n                )\n                print(f"  Max deviation = {dev:.3g} units.")\n                print(f"  Max % error   = {err:.3g}%.")\n                print("  Rigid-Body Rotations:")\n                for k in range(3):\n                    print("         {:10.4f} {:10.4f} {:10.4f}".format(*R[k, :3]))\n                print("")\n            haderr = 1\n    maxdev = functools.reduce(lambda a, b: max(a, b), devs, 0)\n    maxerr = functools.reduce(lambda a, b: max(a, b), errs, 0)\n',
     'rbcoords: nodes fitted by a generator, deviations collected in lists and reduced at the end (own refactoring)'),
    ("C14", "neutral", [], N,
     '    rbmodes = np.zeros((r * 6, 6))\n    rbmodes[1::6, 3] = -grids[:, 2]\n    rbmodes[2::6, 3] = grids[:, 1]\n    rbmodes[::6, 4] = grids[:, 2]\n    rbmodes[2::6, 4] = -grids[:, 0]\n    rbmodes[::6, 5] = -grids[:, 1]\n    rbmodes[1::6, 5] = grids[:, 0]\n    for i in range(6):\n        rbmodes[i::6, i] = 1.0\n    return rbmodes\n',
     '    rbmodes = np.zeros((r * 6, 6))\n    blocks = rbmodes.reshape(r, 6, 6)  # a view: one 6x6 block per grid\n    x, y, z = grids[:, 0], grids[:, 1], grids[:, 2]\n    zero = np.zeros(r)\n    # the upper right 3x3 of every block is -[p x], stacked along the first axis\n    blocks[:, :3, 3:] = np.stack(\n        [\n            np.stack([zero, z, -y], -1),\n            np.stack([-z, zero, x], -1),\n            np.stack([y, -x, zero], -1),\n        ],\n        1,\n    )\n    k = np.arange(6)\n    blocks[:, k, k] = 1.0\n    return rbmodes\n',
     'rbgeom: the skew part stored through a 3-d view of the result, stacked with np.stack (own refactoring)'),
    ("C14", "neutral", [], N,
     '    return rb @ rbgeom(oldref, newref)\n',
     '    return np.einsum("ij,jk->ik", rb, rbgeom(oldref, newref))\n',
     'rbmove: product written as einsum (own refactoring)'),
    ("C14", "neutral", [], N,
     '    # treat as rectangular here; fix cylindrical & spherical below\n    rb2 = np.zeros((np.shape(rb)))\n    for j in range(ngrids):\n        i = 6 * j\n        t = uset.iloc[i + 3 : i + 6, 1:].values.T\n        rb2[i : i + 3] = t @ rb[i : i + 3]\n        rb2[i + 3 : i + 6] = t @ rb[i + 3 : i + 6]\n\n    # fix up cylindrical:\n    grid_loc = np.arange(0, uset.shape[0], 6)\n    cyl = (uset.loc[(slice(None), 2), "y"] == 2).values\n    if cyl.any():\n        grid_loc_cyl = grid_loc[cyl]\n        for i in grid_loc_cyl:\n            t = uset.iloc[i + 3 : i + 6, 1:].values.T\n            loc = uset.iloc[i, 1:]\n            loc2 = t @ (loc - uset.iloc[i + 2, 1:]).values\n            if abs(loc2[1]) + abs(loc2[0]) > 1e-8:\n                th = math.atan2(loc2[1], loc2[0])\n                c = math.cos(th)\n                s = math.sin(th)\n                t = np.array([[c, s], [-s, c]])\n                rb2[i : i + 2] = t @ rb2[i : i + 2]\n                rb2[i + 3 : i + 5] = t @ rb2[i + 3 : i + 5]\n\n    # fix up spherical:\n    sph = (uset.loc[(slice(None), 2), "y"] == 3).values\n    if sph.any():\n        grid_loc_sph = grid_loc[sph]\n        for i in grid_loc_sph:\n            t = uset.iloc[i + 3 : i + 6, 1:].values.T\n            loc = uset.iloc[i, 1:]\n            loc2 = t @ (loc - uset.iloc[i + 2, 1:]).values\n            if abs(loc2[1]) + abs(loc2[0]) > 1e-8:\n                phi = math.atan2(loc2[1], loc2[0])\n                c = math.cos(phi)\n                s = math.sin(phi)\n                t = np.array([[c, s], [-s, c]])\n                rb2[i : i + 2] = t @ rb2[i : i + 2]\n                rb2[i + 3 : i + 5] = t @ rb2[i + 3 : i + 5]\n                loc2[:2] = t @ loc2[:2]\n            if abs(loc2[2]) + abs(loc2[0]) > 1e-8:\n                th = math.atan2(loc2[0], loc2[2])\n            else:\n                th = 0\n            c = math.cos(th)\n            s = math.sin(th)\n            t = np.array([[s, 0, c], [c, 0, -s], [0, 1, 0]])\n            rb2[i : i + 3] = t @ rb2[i : i + 3]\n            rb2[i + 3 : i + 6] = t @ rb2[i + 3 : i + 6]\n\n',
     '    # local <- basic for every grid at once: T3[g] is the 3x3 of grid g\n    T3 = uset.iloc[:, 1:].values.reshape(ngrids, 6, 3)[:, 3:, :]\n    rb2 = np.einsum("gji,ghjk->ghik", T3, rb.reshape(ngrids, 2, 3, 6)).reshape(\n        rb.shape\n    )\n\n    def local_position(i):\n        t = uset.iloc[i + 3 : i + 6, 1:].values.T\n        return t @ (uset.iloc[i, 1:] - uset.iloc[i + 2, 1:]).values\n\n    def about_z(p):\n        """rotation about local z that points x at the grid"""\n        if abs(p[1]) + abs(p[0]) > 1e-8:\n            ang = math.atan2(p[1], p[0])\n            c, s = math.cos(ang), math.sin(ang)\n            return np.array([[c, s, 0.0], [-s, c, 0.0], [0.0, 0.0, 1.0]])\n        return np.eye(3)\n\n    def sph_frame(p):\n        fz = about_z(p)\n        q = fz @ p\n        th = math.atan2(q[0], q[2]) if abs(q[2]) + abs(q[0]) > 1e-8 else 0\n        c, s = math.cos(th), math.sin(th)\n        return np.array([[s, 0, c], [c, 0, -s], [0, 1, 0]]) @ fz\n\n    frame_of = {2: about_z, 3: sph_frame}\n    cstype = uset.loc[(slice(None), 2), "y"].values\n    for i, ct in zip(range(0, uset.shape[0], 6), cstype):\n        make = frame_of.get(int(ct))\n        if make is not None:\n            frame = make(local_position(i))\n            rb2[i : i + 3] = frame @ rb2[i : i + 3]\n            rb2[i + 3 : i + 6] = frame @ rb2[i + 3 : i + 6]\n\n',
     'rbgeom_uset: rectangular step as one batched einsum, local frames from a dispatch table of closures (own refactoring)'),
    ("C14", "neutral", [], N,
     '    Tg = coordinfo[2:]\n    coordloc = coordinfo[1]\n    if coordinfo[0, 1] == 1:\n        location = coordloc + Tg @ a\n    else:\n        a2r = math.pi / 180.0\n        if coordinfo[0, 1] == 2:  # cylindrical\n            vec = np.array(\n                [a[0] * math.cos(a[1] * a2r), a[0] * math.sin(a[1] * a2r), a[2]]\n            )\n        else:  # spherical\n            s = math.sin(a[1] * a2r)\n            vec = a[0] * np.array(\n                [\n                    s * math.cos(a[2] * a2r),\n                    s * math.sin(a[2] * a2r),\n                    math.cos(a[1] * a2r),\n                ]\n            )\n        location = coordloc + Tg @ vec\n    return location\n',
     '    (_, ctype, _), coordloc, *axes = coordinfo\n    if ctype == 1:\n        vec = a\n    elif ctype == 2:  # cylindrical\n        th = math.radians(a[1])\n        vec = (a[0] * math.cos(th), a[0] * math.sin(th), a[2])\n    else:  # spherical\n        th, ph = math.radians(a[1]), math.radians(a[2])\n        vec = a[0] * np.array(\n            [math.sin(th) * math.cos(ph), math.sin(th) * math.sin(ph), math.cos(th)]\n        )\n    # sum of the columns of the transform weighted by the local components\n    return coordloc + np.einsum("ij,j->i", np.array(axes), np.asarray(vec))\n',
     '_get_loc_a_basic: record unpacked by rows, math.radians, transform applied with einsum (own refactoring)'),
    ("C14", "neutral", [], N,
     '    # fix up cylindrical:\n    grid_loc = np.arange(0, uset.shape[0], 6)\n    cyl = (uset.loc[(slice(None), 2), "y"] == 2).values\n    if cyl.any():\n        grid_loc_cyl = grid_loc[cyl]\n        for i in grid_loc_cyl:\n            t = uset.iloc[i + 3 : i + 6, 1:].values.T\n            loc = uset.iloc[i, 1:]\n            loc2 = t @ (loc - uset.iloc[i + 2, 1:]).values\n            if abs(loc2[1]) + abs(loc2[0]) > 1e-8:\n                th = math.atan2(loc2[1], loc2[0])\n                c = math.cos(th)\n                s = math.sin(th)\n                t = np.array([[c, s], [-s, c]])\n                rb2[i : i + 2] = t @ rb2[i : i + 2]\n                rb2[i + 3 : i + 5] = t @ rb2[i + 3 : i + 5]\n\n    # fix up spherical:\n    sph = (uset.loc[(slice(None), 2), "y"] == 3).values\n    if sph.any():\n        grid_loc_sph = grid_loc[sph]\n        for i in grid_loc_sph:\n            t = uset.iloc[i + 3 : i + 6, 1:].values.T\n            loc = uset.iloc[i, 1:]\n            loc2 = t @ (loc - uset.iloc[i + 2, 1:]).values\n            if abs(loc2[1]) + abs(loc2[0]) > 1e-8:\n                phi = math.atan2(loc2[1], loc2[0])\n                c = math.cos(phi)\n                s = math.sin(phi)\n                t = np.array([[c, s], [-s, c]])\n                rb2[i : i + 2] = t @ rb2[i : i + 2]\n                rb2[i + 3 : i + 5] = t @ rb2[i + 3 : i + 5]\n                loc2[:2] = t @ loc2[:2]\n            if abs(loc2[2]) + abs(loc2[0]) > 1e-8:\n                th = math.atan2(loc2[0], loc2[2])\n            else:\n                th = 0\n            c = math.cos(th)\n            s = math.sin(th)\n            t = np.array([[s, 0, c], [c, 0, -s], [0, 1, 0]])\n            rb2[i : i + 3] = t @ rb2[i : i + 3]\n            rb2[i + 3 : i + 6] = t @ rb2[i + 3 : i + 6]\n\n',
     '    class _Grid:\n        # one grid of the selected table: `first` is its first row\n\n        def __init__(self, first):\n            self.first = first\n\n        @property\n        def to_local(self):\n            return uset.iloc[self.first + 3 : self.first + 6, 1:].values.T\n\n        def position(self):\n            origin = uset.iloc[self.first + 2, 1:]\n            return self.to_local @ (uset.iloc[self.first, 1:] - origin).values\n\n        def rotate(self, t):\n            n = t.shape[0]\n            for base in (self.first, self.first + 3):\n                rb2[base : base + n] = t @ rb2[base : base + n]\n\n        @staticmethod\n        def planar(a, b):\n            # 2x2 rotation by atan2(b, a), or None on the axis\n            if abs(b) + abs(a) > 1e-8:\n                ang = math.atan2(b, a)\n                c, s = math.cos(ang), math.sin(ang)\n                return np.array([[c, s], [-s, c]])\n            return None\n\n    cstype = uset.loc[(slice(None), 2), "y"].values\n    todo = [(_Grid(6 * k), int(ct)) for k, ct in enumerate(cstype) if ct in (2, 3)]\n    while todo:\n        grid, ct = todo.pop()\n        loc2 = grid.position()\n        t = _Grid.planar(loc2[0], loc2[1])\n        if t is not None:\n            grid.rotate(t)\n            loc2[:2] = t @ loc2[:2]\n        if ct == 3:\n            t = grid.planar(loc2[2], loc2[0])\n            c, s = (1.0, 0.0) if t is None else (t[0, 0], t[0, 1])\n            grid.rotate(np.array([[s, 0, c], [c, 0, -s], [0, 1, 0]]))\n\n',
     'rbgeom_uset: one small class per grid (property, static method), work list consumed with pop() (own refactoring)'),
    ("C14", "neutral", [], N,
     '        R = linalg.lstsq(T, rb[row : row + 3, 3:])[0]\n',
     '        rhs = rb[row : row + 3, 3:]\n        try:\n            R = np.linalg.solve(T, rhs)\n        except np.linalg.LinAlgError:\n            R = linalg.lstsq(T, rhs)[0]\n',
     'rbcoords: direct solve, least squares as the fall-back when the block is singular (own refactoring)'),
    ("C14", "neutral", [], N,
     '    result = []\n    T = None\n    for igid in gid:\n        if isgrid:\n            xyz_basic = uset.loc[(igid, 1), "x":"z"].values\n        else:  # is coord\n            xyz_basic = igid\n        if np.size(csys) == 1 and csys == 0:\n            result.append(xyz_basic)\n        else:\n            if T is None:\n                # get input "coordinfo" [ cid type 0; location(1x3); T(3x3) ]:\n                if coordref is None:\n                    coordref = {}\n                coordinfo = mkusetcoordinfo(csys, uset, coordref)\n                xyz_coord = coordinfo[1]\n                T = coordinfo[2:]  # transform to basic for coordinate system\n            g = T.T @ (xyz_basic - xyz_coord)\n            ctype = coordinfo[0, 1].astype(np.int64)\n            if ctype == 1:\n                result.append(g)\n            elif ctype == 2:\n                R = math.hypot(g[0], g[1])\n                theta = math.atan2(g[1], g[0])\n                result.append(np.array([R, theta * 180 / math.pi, g[2]]))\n            else:\n                R = linalg.norm(g)\n                phi = math.atan2(g[1], g[0])\n                s = math.sin(phi)\n                c = math.cos(phi)\n                if abs(s) > abs(c):\n                    theta = math.atan2(g[1] / s, g[2])\n                else:\n                    theta = math.atan2(g[0] / c, g[2])\n                result.append(np.array([R, theta * 180 / math.pi, phi * 180 / math.pi]))\n\n    if gid.shape[0] == 1:\n        return result[0]\n    return np.array(result)\n\n\n',
     '    pts = np.array(\n        [uset.loc[(igid, 1), "x":"z"].values if isgrid else igid for igid in gid]\n    )\n    if pts.shape[0] == 0:\n        return np.array([])\n    if np.size(csys) == 1 and csys == 0:\n        out = pts\n    else:\n        # get input "coordinfo" [ cid type 0; location(1x3); T(3x3) ]:\n        if coordref is None:\n            coordref = {}\n        coordinfo = mkusetcoordinfo(csys, uset, coordref)\n        G = (pts - coordinfo[1]) @ coordinfo[2:]  # rows are T.T @ (xyz - origin)\n        ctype = int(coordinfo[0, 1])\n        if ctype == 1:\n            out = G\n        else:\n            phi = np.arctan2(G[:, 1], G[:, 0])\n            if ctype == 2:\n                out = np.column_stack((np.hypot(G[:, 0], G[:, 1]), phi * 180 / math.pi, G[:, 2]))\n            else:\n                s, c = np.sin(phi), np.cos(phi)\n                by_sin = np.abs(s) > np.abs(c)\n                rho = np.where(by_sin, G[:, 1], G[:, 0]) / np.where(by_sin, s, c)\n                out = np.column_stack(\n                    (\n                        np.sqrt(np.sum(G * G, axis=1)),\n                        np.arctan2(rho, G[:, 2]) * 180 / math.pi,\n                        phi * 180 / math.pi,\n                    )\n                )\n    if gid.shape[0] == 1:\n        return out[0]\n    return out\n\n\n',
     'getcoordinates: all locations converted at once, divisor selected with np.where (own refactoring)'),
    ("C14", "neutral", [], N,
     '    rbmodes = np.zeros((r * 6, 6))\n    rbmodes[1::6, 3] = -grids[:, 2]\n    rbmodes[2::6, 3] = grids[:, 1]\n    rbmodes[::6, 4] = grids[:, 2]\n    rbmodes[2::6, 4] = -grids[:, 0]\n    rbmodes[::6, 5] = -grids[:, 1]\n    rbmodes[1::6, 5] = grids[:, 0]\n    for i in range(6):\n        rbmodes[i::6, i] = 1.0\n    return rbmodes\n',
     '    rbmodes = np.tile(np.eye(6), (r, 1))\n    skew = np.zeros((r, 3, 3))\n    for (i, j), (col, sign) in {\n        (0, 1): (2, 1), (0, 2): (1, -1), (1, 0): (2, -1),\n        (1, 2): (0, 1), (2, 0): (1, 1), (2, 1): (0, -1),\n    }.items():\n        skew[:, i, j] = grids[:, col] if sign > 0 else -grids[:, col]\n    rbmodes.reshape(r, 6, 6)[:, :3, 3:] = skew\n    return rbmodes\n',
     'rbgeom: tiled identity, skew part filled from a table of (row, column) -> (coordinate, sign) (own refactoring)'),
]

# ---------------------------------------------------------------------------------------------------- pass 3: siblings
CYL_INV = "                theta = math.atan2(g[1], g[0])\n                result.append(np.array([R, theta * 180 / math.pi, g[2]]))"
RECIPES += [
    ("C14", "neutral", [], N, CYL_INV, CYL_INV.replace("math.atan2(g[1], g[0])", "math.atan2(g[1] / R, g[0] / R)"),
     "getcoordinates: cylindrical azimuth from the point normalised by its radius"),
    ("C14", "break", ["C14-R1"], N, CYL_INV, CYL_INV.replace("math.atan2(g[1], g[0])", "math.atan2(-g[1] / R, -g[0] / R)"),
     "getcoordinates: cylindrical azimuth of the opposite point"),
    ("C14", "neutral", [], N, SPH_INV,
     "                rho = np.where(abs(s) > abs(c), g[1], g[0]) / np.where(abs(s) > abs(c), s, c)\n                theta = math.atan2(rho, g[2])\n",
     "getcoordinates: numerator and divisor of the in-plane radius selected with np.where"),
    # (the same with `<`, i.e. the smaller divisor selected, is exit 2: the thrown-away values are not quotients, see c14_geo._divisor_guard)
    ("C14", "neutral", [], N, SPH_INV, "                theta = math.atan2(np.where(abs(s) > abs(c), g[1] / s, g[0] / c), g[2])\n",
     "getcoordinates: both quotients computed, the one with the larger divisor kept by np.where"),
    ("C14", "break", ["C14-R1"], N, SPH_INV, "                theta = math.atan2(np.where(abs(s) < abs(c), g[1] / s, g[0] / c), g[2])\n",
     "getcoordinates: both quotients computed, the one with the smaller divisor kept by np.where"),
    ("C14", "neutral", [], N, SPH_INV,
     "                by_s, by_c = g[1] / s, g[0] / c\n                theta = math.atan2(np.where(abs(s) > abs(c), by_s, by_c), g[2])\n",
     "getcoordinates: both quotients computed into locals, one kept by np.where"),
    # (both polar angles computed and one kept - np.where(test, atan2(g[1] / s, g[2]), atan2(g[0] / c, g[2])) - is exit 2: a thrown-away value
    # that is not itself a quotient may hide one)
    ("C14", "break", ["C14-R3"], N, "    elif np.any(refpoint != [0, 0, 0]):", "    elif np.all(np.asarray(refpoint) != 0):",
     "rbgeom: shift applied only when no coordinate of the reference point is zero (round-3 seed G)"),
    ("C14", "break", ["C14-R3"], N, "    elif np.any(refpoint != [0, 0, 0]):", "    elif np.sum(refpoint) != 0:",
     "rbgeom: shift skipped when the coordinates of the reference point sum to zero"),
    ("C14", "neutral", [], N, "    elif np.any(refpoint != [0, 0, 0]):", "    elif np.count_nonzero(refpoint):", "rbgeom: zero test with count_nonzero"),
    ("C14", "break", ["C14-R1"], N, SPH_INV, "                theta = math.atan2(g[0] / c, g[2])\n",
     "getcoordinates: in-plane radius always from x / cos(phi) (round-3 seed H)"),
]

RECIPES += [
    ("C14", "neutral", [], N,
     '    result = []\n    T = None\n    for igid in gid:\n        if isgrid:\n            xyz_basic = uset.loc[(igid, 1), "x":"z"].values\n        else:  # is coord\n            xyz_basic = igid\n        if np.size(csys) == 1 and csys == 0:\n            result.append(xyz_basic)\n        else:\n            if T is None:\n                # get input "coordinfo" [ cid type 0; location(1x3); T(3x3) ]:\n                if coordref is None:\n                    coordref = {}\n                coordinfo = mkusetcoordinfo(csys, uset, coordref)\n                xyz_coord = coordinfo[1]\n                T = coordinfo[2:]  # transform to basic for coordinate system\n            g = T.T @ (xyz_basic - xyz_coord)\n            ctype = coordinfo[0, 1].astype(np.int64)\n            if ctype == 1:\n                result.append(g)\n            elif ctype == 2:\n                R = math.hypot(g[0], g[1])\n                theta = math.atan2(g[1], g[0])\n                result.append(np.array([R, theta * 180 / math.pi, g[2]]))\n            else:\n                R = linalg.norm(g)\n                phi = math.atan2(g[1], g[0])\n                s = math.sin(phi)\n                c = math.cos(phi)\n                if abs(s) > abs(c):\n                    theta = math.atan2(g[1] / s, g[2])\n                else:\n                    theta = math.atan2(g[0] / c, g[2])\n                result.append(np.array([R, theta * 180 / math.pi, phi * 180 / math.pi]))\n\n',
     '    def to_cyl(g):\n        return np.array(\n            [np.hypot(g[0], g[1]), np.arctan2(g[1], g[0]) * 180 / math.pi, g[2]]\n        )\n\n    def to_sph(g):\n        phi = np.arctan2(g[1], g[0])\n        s, c = np.sin(phi), np.cos(phi)\n        rho = g[1] / s if abs(s) > abs(c) else g[0] / c\n        return np.array(\n            [linalg.norm(g), np.arctan2(rho, g[2]) * 180 / math.pi, phi * 180 / math.pi]\n        )\n\n    convert = {1: lambda g: g, 2: to_cyl}\n    result = []\n    T = None\n    for igid in gid:\n        if isgrid:\n            xyz_basic = uset.loc[(igid, 1), "x":"z"].values\n        else:  # is coord\n            xyz_basic = igid\n        if np.size(csys) == 1 and csys == 0:\n            result.append(xyz_basic)\n        else:\n            if T is None:\n                # get input "coordinfo" [ cid type 0; location(1x3); T(3x3) ]:\n                if coordref is None:\n                    coordref = {}\n                coordinfo = mkusetcoordinfo(csys, uset, coordref)\n                xyz_coord = coordinfo[1]\n                T = coordinfo[2:]  # transform to basic for coordinate system\n            g = T.T @ (xyz_basic - xyz_coord)\n            result.append(convert.get(int(coordinfo[0, 1]), to_sph)(g))\n\n',
     'getcoordinates: converters per system type in a table of closures, numpy functions (own refactoring)'),
    ("C14", "neutral", [], N,
     '    haderr = 0\n    for j in range(n):\n        row = j * 6\n        T = rb[row : row + 3, :3]\n        R = linalg.lstsq(T, rb[row : row + 3, 3:])[0]\n',
     '    haderr = 0\n    top = np.reshape(rb, (n, 6, 6))[:, :3, :]\n    R_all = np.linalg.pinv(top[..., :3]) @ top[..., 3:]\n    for j in range(n):\n        row = j * 6\n        R = R_all[j]\n',
     'rbcoords: all nodes fitted at once with a stacked pseudo-inverse (own refactoring)'),
]

GETLOC = "        refpoint = uset_dof1.index.get_loc((refpoint, 1))\n"
SORTSTEP = "    # Sort idof according to uset:\n    pv = locate.mat_intersect(idof, usetdof, 2)[0]\n"
RECIPES += [
    # ---- pass 5: look-ups / sorts that presuppose an order of the ids of the USET table (round-5 seeds L, P) and correct variants
    ("C14", "break", ["C14-R2"], N, GETLOC,
     '        gids = uset_dof1.index.get_level_values("id").values\n        refpoint = int(np.searchsorted(gids, np.asarray(refpoint).item()))\n',
     "rbgeom_uset: reference grid located by bisection on the id level (round-5 seed P)"),
    ("C14", "break", ["C14-R2"], N, GETLOC, "        refpoint = int(np.sum(uset_dof1.index.get_level_values(0) < refpoint))\n",
     "rbgeom_uset: reference grid located by its rank among the ids"),
    ("C14", "break", ["C14-R2"], N, GETLOC, "        refpoint = np.unique(uset_dof1.index.get_level_values(0)).tolist().index(int(refpoint))\n",
     "rbgeom_uset: reference grid located by its position among the unique (sorted) ids"),
    ("C14", "break", ["C14-R2"], N, GETLOC, "        refpoint = sorted(uset_dof1.index.get_level_values(0)).index(refpoint)\n",
     "rbgeom_uset: reference grid located in the sorted id list"),
    ("C14", "break", ["C14-R2"], N, GETLOC,
     "        gids = uset_dof1.index.get_level_values(0).values\n        refpoint = np.argsort(gids)[np.flatnonzero(gids == refpoint)[0]]\n",
     "rbgeom_uset: position of the reference grid sent through the argsort of the ids"),
    ("C14", "neutral", [], N, GETLOC, "        refpoint = np.flatnonzero(uset_dof1.index.get_level_values(0) == refpoint)[0]\n",
     "rbgeom_uset: reference grid located with flatnonzero on the id level"),
    ("C14", "neutral", [], N, GETLOC, '        refpoint = list(uset_dof1.index.get_level_values("id")).index(refpoint)\n',
     "rbgeom_uset: reference grid located with list.index"),
    ("C14", "neutral", [], N, GETLOC, '        refpoint = int(np.argmax(uset_dof1.index.get_level_values("id").values == refpoint))\n',
     "rbgeom_uset: reference grid located with argmax of the equality mask"),
    ("C14", "neutral", [], N, GETLOC,
     "        gids = uset_dof1.index.get_level_values(0).values\n        order = np.argsort(gids)\n        refpoint = order[np.searchsorted(gids[order], refpoint)]\n",
     "rbgeom_uset: bisection on the ids *after sorting them* (sorter idiom): the order is established by the code itself"),
    ("C14", "break", ["C14-R4"], N, SORTSTEP,
     "    # Sort idof according to uset (by id, then dof):\n    pv = np.lexsort((idof[:, 1], idof[:, 0]))\n",
     "formrbe3: independent DOF sorted by (id, dof) instead of by occurrence in the table (round-5 seed L)"),
    ("C14", "break", ["C14-R4"], N, SORTSTEP, '    pv = np.argsort(idof[:, 0], kind="stable")\n', "formrbe3: independent DOF sorted by id (stable argsort)"),
    ("C14", "break", ["C14-R4"], N, SORTSTEP, "    pv = np.unique(idof[:, 0] * 10 + idof[:, 1], return_index=True)[1]\n",
     "formrbe3: independent DOF ordered through np.unique of a combined key"),
    ("C14", "break", ["C14-R4"], N, SORTSTEP, "    pv = np.array(sorted(range(len(idof)), key=lambda k: (idof[k, 0], idof[k, 1])))\n",
     "formrbe3: independent DOF ordered with sorted(...) on (id, dof)"),
    ("C14", "break", ["C14-R4"], N, SORTSTEP, "    pv = locate.mat_intersect(idof, usetdof, 1)[0]\n",
     "formrbe3: ordering step loops over the DOF list instead of the table (the list keeps the caller's order)"),
    ("C14", "neutral", [], N, SORTSTEP, "    pv = locate.mat_intersect(usetdof, idof, 1)[1]\n",
     "formrbe3: ordering step with the arguments of mat_intersect swapped (loop over the table, second index vector)"),
    ("C14", "neutral", [], N, SORTSTEP, "    pv = locate.mat_intersect(D1=idof, D2=usetdof, keep=2)[0]\n", "formrbe3: ordering step with keywords"),
    ("C14", "neutral", [], N, SORTSTEP,
     '    where = locate.mat_intersect(idof, usetdof, 1)[1]\n    pv = np.argsort(where, kind="stable")\n',
     "formrbe3: DOF sorted by their *position of occurrence* in the table (a key sort, but on the table's own order)"),
    ("C14", "neutral", [], N, SORTSTEP,
     "    pv = np.array([k for r in usetdof for k in range(len(idof)) if (idof[k] == r).all()])\n",
     "formrbe3: ordering step spelled as an explicit double loop over table rows and list rows"),
    ("C14", "neutral", [], N, "    usetdof = uset.iloc[:, :0].reset_index().values\n    idof = []",
     "    usetdof = np.column_stack((uset.index.get_level_values(0), uset.index.get_level_values(1)))\n    idof = []",
     "formrbe3: [id, dof] table stacked from the two index levels"),
]
