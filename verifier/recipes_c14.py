"""C14 self-test recipes (text edits of /repo applied to scratch copies by the thorough tier): `break` = behaviour-breaking, must be
reported by one of the listed rules; `neutral` = behaviour-preserving refactoring, must stay silent."""

N = "pyyeti/nastran/n2p.py"

CYL_GUARD = "            if abs(loc2[1]) + abs(loc2[0]) > 1e-8:\n                th = math.atan2(loc2[1], loc2[0])"
SPH_GUARD = "            if abs(loc2[1]) + abs(loc2[0]) > 1e-8:\n                phi = math.atan2(loc2[1], loc2[0])"
SPH_TAIL = ("            if abs(loc2[2]) + abs(loc2[0]) > 1e-8:\n                th = math.atan2(loc2[0], loc2[2])\n            else:\n                th = 0\n"
            "            c = math.cos(th)\n            s = math.sin(th)\n            t = np.array([[s, 0, c], [c, 0, -s], [0, 1, 0]])\n"
            "            rb2[i : i + 3] = t @ rb2[i : i + 3]\n            rb2[i + 3 : i + 6] = t @ rb2[i + 3 : i + 6]\n")
SPH_INV = ("                if abs(s) > abs(c):\n                    theta = math.atan2(g[1] / s, g[2])\n                else:\n"
           "                    theta = math.atan2(g[0] / c, g[2])\n")
RECT = ("        t = uset.iloc[i + 3 : i + 6, 1:].values.T\n        rb2[i : i + 3] = t @ rb[i : i + 3]\n"
        "        rb2[i + 3 : i + 6] = t @ rb[i + 3 : i + 6]\n")

RECIPES = [
    # ---------------------------------------------------------------- behaviour-breaking
    ("C14", "break", ["C14-R1"], N, SPH_INV,
     "                rho = g[1] / s if s > c else g[0] / c\n                theta = math.atan2(rho, g[2])\n",
     "getcoordinates: divisor of the in-plane radius selected without abs() (seeded E)"),
    ("C14", "break", ["C14-R1"], N, "            g = T.T @ (xyz_basic - xyz_coord)", "            g = T @ (xyz_basic - xyz_coord)", "getcoordinates: transform not transposed"),
    ("C14", "break", ["C14-R1"], N, "            g = T.T @ (xyz_basic - xyz_coord)", "            g = T.T @ xyz_basic - xyz_coord", "getcoordinates: origin subtracted after the transform"),
    ("C14", "break", ["C14-R1"], N, "result.append(np.array([R, theta * 180 / math.pi, phi * 180 / math.pi]))",
     "result.append(np.array([R, phi * 180 / math.pi, theta * 180 / math.pi]))", "getcoordinates: theta / phi swapped"),
    ("C14", "break", ["C14-R1"], N, "        a2r = math.pi / 180.0", "        a2r = 180.0 / math.pi", "_get_loc_a_basic: degree factor inverted"),
    ("C14", "break", ["C14-R2"], N, CYL_GUARD, CYL_GUARD.replace("abs(loc2[1]) + abs(loc2[0])", "abs(loc2[1] + loc2[0])"), "cylindrical guard abs(a + b) (seeded C, first site)"),
    ("C14", "break", ["C14-R2"], N, SPH_GUARD, SPH_GUARD.replace("abs(loc2[1]) + abs(loc2[0])", "abs(loc2[1] + loc2[0])"), "spherical azimuth guard abs(a + b) (seeded C)"),
    ("C14", "break", ["C14-R2"], N, "            if abs(loc2[2]) + abs(loc2[0]) > 1e-8:", "            if abs(loc2[2] + loc2[0]) > 1e-8:", "spherical polar guard abs(a + b) (seeded C)"),
    ("C14", "break", ["C14-R2"], N, "            if abs(loc2[2]) + abs(loc2[0]) > 1e-8:", "            if abs(loc2[2]) > 1e-8:", "spherical polar guard looks at z only"),
    ("C14", "break", ["C14-R2"], N, "                th = math.atan2(loc2[0], loc2[2])", "                th = math.atan2(loc2[2], loc2[0])", "polar angle: atan2 arguments swapped"),
    ("C14", "break", ["C14-R2"], N, "            t = np.array([[s, 0, c], [c, 0, -s], [0, 1, 0]])", "            t = np.array([[s, 0, c], [c, 0, -s], [0, -1, 0]])", "e_phi reversed"),
    ("C14", "break", ["C14-R2"], N, SPH_TAIL, SPH_TAIL.replace("            rb2[i + 3 : i + 6] = t @ rb2[i + 3 : i + 6]\n", ""), "spherical frame not applied to the rotational rows"),
    ("C14", "break", ["C14-R2"], N, RECT, RECT.replace(".values.T\n", ".values\n"), "output-system transform not transposed"),
    ("C14", "break", ["C14-R2"], N, "    sph = (uset.loc[(slice(None), 2), \"y\"] == 3).values", "    sph = (uset.loc[(slice(None), 2), \"y\"] != 2).values",
     "spherical fix-up applied to every non-cylindrical grid"),
    ("C14", "break", ["C14-R2"], N, "        i = 6 * j\n", "        i = 5 * j\n", "rectangular step: blocks of five rows"),
    ("C14", "break", ["C14-R2"], N, "    grid_loc = np.arange(0, uset.shape[0], 6)", "    grid_loc = np.arange(0, uset.shape[0], 5)", "fix-up positions with stride 5"),
    ("C14", "break", ["C14-R2"], N, "    rbmodes[grid_rows] = rb2\n", "    rbmodes[: rb2.shape[0]] = rb2\n", "result written to the leading rows instead of the grid rows"),
    ("C14", "break", ["C14-R2"], N, "                phi = math.atan2(loc2[1], loc2[0])\n                c = math.cos(phi)\n",
     "                phi = math.atan2(loc2[1], loc2[0])\n", "spherical azimuth rotation with the cosine left over from the cylindrical loop"),
    ("C14", "break", ["C14-R2"], N, "                rb2[i + 3 : i + 5] = t @ rb2[i + 3 : i + 5]\n                loc2[:2] = t @ loc2[:2]",
     "                rb2[i - 3 : i - 1] = t @ rb2[i - 3 : i - 1]\n                loc2[:2] = t @ loc2[:2]", "fix-up writes into the rows of the previous grid"),
    ("C14", "break", ["C14-R1"], N, "    if coordinfo[0, 1] == 1:\n        location", "    if coordinfo[1, 0] == 1:\n        location", "_get_loc_a_basic dispatches on another cell of the record"),
    ("C14", "break", ["C14-R3"], N, "    elif np.any(refpoint != [0, 0, 0]):", "    elif np.any(refpoint != [0, 1, 0]):", "zero short cut taken for the reference [0, 1, 0]"),
    ("C14", "break", ["C14-R3"], N, "        grids = grids - grids[refpoint]", "        grids = grids + grids[refpoint]", "scalar reference added instead of subtracted"),
    ("C14", "break", ["C14-R3"], N, "    for i in range(6):\n        rbmodes[i::6, i] = 1.0", "    for i in range(3):\n        rbmodes[i::6, i] = 1.0", "unit rotations missing"),
    ("C14", "break", ["C14-R3"], N, "    return rb @ rbgeom(oldref, newref)", "    return rb @ rbgeom(newref, oldref)", "rbmove: references swapped"),
    ("C14", "break", ["C14-R4"], N, "    usetdof = uset.iloc[:, :0].reset_index().values\n    idof = []",
     "    _ids = sorted(set(np.atleast_1d(GRID_dep).tolist() + [g for k in range(1, len(Ind_List), 2) for g in np.atleast_1d(Ind_List[k]).tolist()]))\n"
     "    usetdof = uset.iloc[mkdofpv(uset, \"p\", _ids)[0], :0].reset_index().values\n    idof = []",
     "formrbe3: order table taken from an id-sorted reduced table (seeded D)"),
    # ---------------------------------------------------------------- behaviour-preserving
    ("C14", "neutral", [], N, SPH_INV,
     "                use_sin = abs(s) > abs(c)\n                rho = g[1] / s if use_sin else g[0] / c\n                theta = math.atan2(rho, g[2])\n",
     "getcoordinates: named test, conditional expression"),
    ("C14", "neutral", [], N, SPH_INV,
     "                if not abs(c) >= abs(s):\n                    theta = math.atan2(g[1] / s, g[2])\n                else:\n                    theta = math.atan2(g[0] / c, g[2])\n",
     "getcoordinates: the same selection written with >= and not"),
    ("C14", "neutral", [], N, "            g = T.T @ (xyz_basic - xyz_coord)", "            delta = xyz_basic - xyz_coord\n            g = np.dot(delta, T)",
     "getcoordinates: row vector times T instead of T.T times column vector"),
    ("C14", "neutral", [], N, "                R = linalg.norm(g)\n", "                R = math.sqrt(g[0] * g[0] + g[1] * g[1] + g[2] * g[2])\n", "getcoordinates: norm written out"),
    ("C14", "neutral", [], N, "                R = math.hypot(g[0], g[1])\n                theta = math.atan2(g[1], g[0])\n                result.append(np.array([R, theta * 180 / math.pi, g[2]]))",
     "                gx, gy, gz = g\n                r2d = 180 / math.pi\n                result.append(np.array([math.sqrt(gx**2 + gy**2), r2d * np.arctan2(gy, gx), gz]))",
     "getcoordinates: cylindrical arm with unpacking, sqrt, np.arctan2, hoisted factor"),
    ("C14", "neutral", [], N, SPH_INV, "                theta = math.atan2(math.hypot(g[0], g[1]), g[2])\n", "getcoordinates: polar angle from the in-plane radius, no quotient"),
    ("C14", "neutral", [], N, SPH_INV + "                result.append(np.array([R, theta * 180 / math.pi, phi * 180 / math.pi]))",
     "                theta = math.acos(g[2] / R)\n                result.append(np.array([R, math.degrees(theta), np.rad2deg(phi)]))",
     "getcoordinates: polar angle by acos, degrees() / rad2deg()"),
    ("C14", "neutral", [], N, "                th = math.atan2(loc2[1], loc2[0])\n                c = math.cos(th)\n                s = math.sin(th)\n",
     "                rad = math.hypot(loc2[0], loc2[1])\n                c = loc2[0] / rad\n                s = loc2[1] / rad\n",
     "cylindrical frame from the direction cosines, no atan2"),
    ("C14", "neutral", [], N, "            if abs(loc2[2]) + abs(loc2[0]) > 1e-8:\n                th = math.atan2(loc2[0], loc2[2])\n            else:\n                th = 0\n"
     "            c = math.cos(th)\n            s = math.sin(th)\n",
     "            big = math.hypot(loc2[0], loc2[2])\n            if big > 1e-8:\n                c = loc2[2] / big\n                s = loc2[0] / big\n"
     "            else:\n                c = 1.0\n                s = 0.0\n", "spherical polar rotation from the direction cosines, no atan2"),
    ("C14", "neutral", [], N, CYL_GUARD, CYL_GUARD.replace("abs(loc2[1]) + abs(loc2[0]) > 1e-8", "math.hypot(loc2[1], loc2[0]) > 1e-8"), "cylindrical guard on the radius"),
    ("C14", "neutral", [], N, CYL_GUARD, CYL_GUARD.replace("abs(loc2[1]) + abs(loc2[0]) > 1e-8", "abs(loc2[0]) > 1e-8 or abs(loc2[1]) > 1e-8"), "cylindrical guard as a disjunction"),
    ("C14", "neutral", [], N, CYL_GUARD, CYL_GUARD.replace("abs(loc2[1]) + abs(loc2[0]) > 1e-8", "max(abs(loc2[1]), abs(loc2[0])) > 1e-8"), "cylindrical guard on the larger component"),
    ("C14", "neutral", [], N, SPH_TAIL,
     "            th = math.atan2(loc2[0], loc2[2])\n            c = math.cos(th)\n            s = math.sin(th)\n"
     "            def to_frame(rows, t=np.array([[s, 0, c], [c, 0, -s], [0, 1, 0]])):\n                return np.dot(t, rows)\n"
     "            for k in (i, i + 3):\n                rb2[k : k + 3] = to_frame(rb2[k : k + 3])\n",
     "spherical frame: guard dropped (atan2(0, 0) is 0), nested helper, loop over the two triplets, np.dot"),
    ("C14", "neutral", [], N, RECT,
     "        block = uset.iloc[i : i + 6, 1:].to_numpy()\n        t = np.transpose(block[3:6])\n        for k in (0, 3):\n            rb2[i + k : i + k + 3] = np.dot(t, rb[i + k : i + k + 3])\n",
     "rectangular step: sub-block of the grid's table block, np.transpose, np.dot, loop"),
    ("C14", "neutral", [], N, "    rbmodes[1::6, 3] = -grids[:, 2]\n    rbmodes[2::6, 3] = grids[:, 1]\n    rbmodes[::6, 4] = grids[:, 2]\n    rbmodes[2::6, 4] = -grids[:, 0]\n"
     "    rbmodes[::6, 5] = -grids[:, 1]\n    rbmodes[1::6, 5] = grids[:, 0]\n    for i in range(6):\n        rbmodes[i::6, i] = 1.0\n",
     "    x, y, z = grids[:, 0], grids[:, 1], grids[:, 2]\n    skew = {(1, 3): -z, (2, 3): y, (0, 4): z, (2, 4): -x, (0, 5): -y, (1, 5): x}\n"
     "    for (a, b), val in skew.items():\n        rbmodes[a::6, b] = val\n    k = 0\n    while k < 6:\n        rbmodes[k::6, k] = 1.0\n        k += 1\n",
     "rbgeom: table-driven skew part, while loop for the identity"),
    ("C14", "neutral", [], N, "    elif np.any(refpoint != [0, 0, 0]):\n        grids = grids - refpoint", "    elif np.count_nonzero(refpoint) > 0:\n        grids = grids - np.asarray(refpoint)",
     "rbgeom: zero-reference short cut spelled with count_nonzero"),
    ("C14", "neutral", [], N, "    elif np.any(refpoint != [0, 0, 0]):\n        grids = grids - refpoint", "    else:\n        grids = grids - refpoint",
     "rbgeom: no short cut for a zero reference"),
    ("C14", "neutral", [], N, "    return rb @ rbgeom(oldref, newref)", "    shift = rbgeom(refpoint=newref, grids=oldref)\n    return np.matmul(rb, shift)", "rbmove: keywords, temporary, np.matmul"),
    ("C14", "neutral", [], N, "    usetdof = uset.iloc[:, :0].reset_index().values\n    idof = []", "    usetdof = np.array(uset.index.tolist())\n    idof = []",
     "formrbe3: [id, dof] table built from the index"),
]
