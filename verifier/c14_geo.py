"""C14 rules R1 - R3, decided by *running* the anchored functions (verifier/c14_np.py) on inputs with concrete shapes and symbolic entries
and comparing what they return with the geometric meaning.  No rule looks at how the source is written: loops, helpers, closures, views,
temporaries, the order of statements and the spelling of tests are whatever the interpreter executes."""
from __future__ import annotations

import ast
from fractions import Fraction

from . import e2_formula as F
from . import c14_sem as G
from . import c14_np as N
from .core import AnchorError, Unsupported
from .e2_eval import is_unknown

N2P = "pyyeti/nastran/n2p.py"
PI = F.sym("pi")
O_, I_ = F.const(0), F.const(1)


def _weight(v, limit):
    """size of a value as a printed tree (monomials; the arguments of an atom count at every occurrence), counted up to `limit`"""
    tot = 0
    stack = [v]
    while stack and tot <= limit:
        x = stack.pop()
        if isinstance(x, tuple):
            stack.extend(x)
        elif G.is_rat(x):
            for p_ in (x.n, x.d):
                tot += len(p_.t)
                for m in p_.t:
                    for a, _ in m:
                        d = F.atom_desc(a)
                        if d[0] in ("exp", "sin", "cos", "sqrt"):
                            stack.append(F.Rat(F._poly_from_key(d[1])))
                        elif d[0] == "fn":
                            stack.extend(G._arg(k) for k in d[2] if not isinstance(k, str))
                    if len(stack) > limit:
                        return limit + 1
    return tot


def _show(v, n=300):
    """short text of a value for a report (a formula that is too large to be read is summarised, not printed)"""
    v = N.to_nested(v)
    if isinstance(v, tuple) and v and _weight(v, 400) > 400:
        parts, used = [], 0
        for x in v:
            t = _show(x, max(40, n // max(1, len(v))))
            parts.append(t)
            used += len(t)
            if used > n:
                parts.append("...")
                break
        return "(" + ", ".join(parts) + ")"
    if _weight(v, 400) > 400:
        return "<formula with more than 400 terms>"
    s = repr(v)
    return s if len(s) <= n else s[:n] + "..."


_UNDERSTOOD = {"atan2", "abs", "sin", "cos", "sqrt", "exp"}       # the last four: the function of an argument outside the normal form (a quotient)


def _opaque_in(v):
    """name of an application inside a value whose meaning the evaluation does not know (an unmodelled call, an attribute or element of an
    opaque object ...), else None.  Such a value can be neither confirmed nor refuted: the obligation is an ANALYSIS-ERROR, never a violation."""
    for _, d in G.atoms_of(N.to_nested(v)):
        if d[0] == "fn" and d[1] not in _UNDERSTOOD:
            return d[1]
    return None


def _euler(tag=""):
    """a general proper rotation Rz(al) Rx(be) Rz(ga): orthonormality is carried by sin^2 + cos^2 = 1 of the normal form, so T.T @ T is
    the identity *by evaluation* and a transposed or misplaced factor is not"""
    al, be, ga = F.sym("al" + tag), F.sym("be" + tag), F.sym("ga" + tag)

    def rz(t):
        c, s = F.cos(t), F.sin(t)
        return ((c, -s, O_), (s, c, O_), (O_, O_, I_))

    def rx(t):
        c, s = F.cos(t), F.sin(t)
        return ((I_, O_, O_), (O_, c, -s), (O_, s, c))
    return G.matmul(G.matmul(rz(al), rx(be)), rz(ga))


def _free_of(v, names):
    return not any(G.mentions_sym(v, n) for n in names)


def _returns(ctx, runs, what, where):
    """the finished, non-raising regimes; an error obligation when there is none.  A regime that ends in an exception Python / numpy raises by
    itself (index out of range, mask of the wrong length, shapes that do not match ...) is a violation when every test on the way was decided:
    the function fails on a valid input of the evaluated shape"""
    for r in runs:
        if r.pyerror:
            if r.sure:
                ctx.fail(f"{what}: the function returns (no run-time error) on a valid input", where, {"exception": r.pyerror})
            else:
                ctx.error(f"{what}: a regime ends in a run-time error", where, {"exception": r.pyerror})
            return []
    out = [r for r in runs if not r.raised]
    if not out:
        if runs and all(r.sure for r in runs):
            ctx.fail(f"{what}: the function returns (no `raise`) on a valid input", where, {"regimes that end in a raise statement": len(runs)})
        else:
            ctx.error(f"{what}: no regime returns", where)
    return out


def _decide(ctx, pairs, pred, msg, where, detail, sink=None, nontrivial=True):
    """one obligation over the regimes `pairs` = [(value, Run)]: it holds when `pred(value)` holds in every regime.  A regime in which it does
    not hold must be shown to be reachable (Run.sure: a point of the parameter space with the assumed outcomes of all undecided tests) before a
    violation is reported; otherwise the obligation is an ANALYSIS-ERROR"""
    bad = [(v, r) for v, r in pairs if not pred(v)]
    if bad and not any(r.sure for _, r in bad):
        ctx.error(msg, where, {"holds in": f"{len(pairs) - len(bad)} of {len(pairs)} regimes", "the other regimes were not shown to be reachable": detail(bad[0][0])})
        return None
    d = None if not bad else detail(next(v for v, r in bad if r.sure))
    if sink is not None:
        return sink.check(not bad, msg, where, d, nontrivial=nontrivial)
    return ctx.check(not bad, msg, where, d, nontrivial=nontrivial)


class _Crash(Exception):
    def __init__(self, msg, sure):
        super().__init__(msg)
        self.sure = sure


class _Acc:
    """obligations of a rule merged over the regimes that reach them (one obligation per meaning; it fails when any regime fails)"""

    def __init__(self, ctx):
        self.ctx = ctx
        self.d = {}

    def check(self, ok, msg, where=None, detail=None, nontrivial=True):
        cur = self.d.get(msg)
        if cur is None:
            self.d[msg] = [bool(ok), where, None if ok else detail, nontrivial]
        else:
            if not ok and cur[0]:
                cur[0], cur[1], cur[2] = False, where, detail
            cur[3] = cur[3] or nontrivial
        return ok

    def flush(self):
        for msg, (ok, where, detail, nt) in self.d.items():
            self.ctx.check(ok, msg, where, detail, nontrivial=nt)
        self.d = {}


def _atan2_call(rule, name, args, kwargs, node, ip):
    """a call of atan2 (math / numpy, on scalars or element-wise on arrays) evaluated with a rule's simplification `rule(y, x)`"""
    if name not in ("math.atan2", "np.arctan2", "np.atan2") or len(args) != 2 or kwargs:
        return NotImplemented
    y, x = args
    if G.is_rat(y) and G.is_rat(x):
        ip.sh.calls.append(("atan2", list(args), {}, node))
        return rule(y, x)
    if name != "math.atan2" and all(isinstance(v, (N.Arr, tuple, N.LVal)) or G.is_rat(v) for v in args):
        try:
            ya, xa = N.as_arr(y), N.as_arr(x)
        except Unsupported:
            return NotImplemented
        if any(not G.is_rat(v) for v in ya.flat() + xa.flat()):
            return NotImplemented
        ip.sh.calls.append(("atan2", list(args), {}, node))
        return N.lift2(rule, ya, xa)
    return NotImplemented


# ------------------------------------------------------------------------------------------------ R1: forward / inverse point maps
def _enter_forward(ctx, fwd, ci, point):
    """_get_loc_a_basic is a private helper: the names of its parameters are nobody's interface, so it is entered by position (record, point) -
    the way its caller in the module enters it.  Should the two have been swapped (caller and helper together), the 5x3 record and the 3-vector
    tell themselves apart by shape: the order in which the helper runs without a run-time error is the one meant."""
    runs = N.explore(ctx, N2P, fwd, positional=[ci, point])
    a = fwd.args
    if runs and all(r.pyerror for r in runs) and len(a.posonlyargs + a.args) == 2:
        try:
            alt = N.explore(ctx, N2P, fwd, positional=[point, ci])
        except Unsupported:
            return runs
        if alt and not any(r.pyerror for r in alt):
            return alt
    return runs


def r1_inverse_pair(ctx):
    acc = _Acc(ctx)
    fwd = ctx.src.func(N2P, "_get_loc_a_basic")
    inv = ctx.src.func(N2P, "getcoordinates")
    T = _euler()
    a = tuple(F.sym(f"a{k}") for k in range(3))
    x1, x2 = a[1] * PI / 180, a[2] * PI / 180
    atan2 = G.atan2_rule([x1, x2], [a[0], a[0] * F.sin(x1)])

    def hook(name, args, kwargs, node, ip):
        r = _atan2_call(atan2, name, args, kwargs, node, ip)
        if r is not NotImplemented:
            return r
        if name in ("math.acos", "np.arccos") and len(args) == 1 and G.is_rat(args[0]) and G.same(args[0], F.cos(x1)):
            return x1                # acos(cos u) = u for the polar angle 0 <= u <= 180 deg
        return NotImplemented

    org = tuple(F.sym(f"o{k}") for k in range(3))
    for ctype, label in ((1, "rectangular"), (2, "cylindrical"), (3, "spherical")):
        ci = N.as_arr(((F.sym("cid"), F.const(ctype), O_), org) + tuple(T))
        # ---- forward
        runs = _returns(ctx, _enter_forward(ctx, fwd, ci, N.as_arr(a)), f"_get_loc_a_basic ({label})", fwd)
        if not runs:
            continue
        cells = ("cid", "o0", "o1", "o2", "al", "be", "ga")
        und = sorted({ast.unparse(n) for r in runs for v, n, d in r.asked
                      if G.is_rat(v) and G.fold_bool(v) is None and any(G.mentions_sym(v, c) for c in cells)})
        if und:
            ctx.fail(f"_get_loc_a_basic ({label}): the map is selected by the type code (row 0, column 1 of the 5x3 coordinate-system record) alone", fwd,
                     {"tests on other cells of the record": und[:4]})
            continue
        locs = [N.to_nested(r.ret) for r in runs]
        if len(locs) > 1 and all(G.same(x, locs[0]) for x in locs[1:]):
            locs = locs[:1]
        loc = locs[0] if len(locs) == 1 else None
        if not (isinstance(loc, tuple) and len(loc) == 3 and G.is_vector(loc) and not G.any_unknown(loc)) or _opaque_in(loc):
            ctx.error(f"_get_loc_a_basic ({label}): basic location", fwd, _show(locs))
            continue
        vec = G.matmul(G.transpose(T), tuple(l - o for l, o in zip(loc, org)))
        ok = _free_of(vec, ("al", "be", "ga", "o0", "o1", "o2"))
        ctx.check(ok, f"_get_loc_a_basic ({label}): basic location = origin + T @ (local cartesian vector of the entered coordinates)", fwd,
                  None if ok else _show(loc))
        if ctype == 1:
            ok = G.same(vec, a)
            ctx.check(ok, "_get_loc_a_basic: type 1 is rectangular (the entered coordinates are the local cartesian vector)", fwd, None if ok else _show(vec))

        # ---- inverse of the forward result, every regime of getcoordinates that produces a result
        def hook2(name, args, kwargs, node, ip, ci=ci):
            if name == "mkusetcoordinfo":
                ip.sh.calls.append((name, list(args), dict(kwargs), node))
                return ci.copy()
            return hook(name, args, kwargs, node, ip)
        env = {"gid": N.as_arr((loc,)), "csys": F.const(7)}
        paths = _returns(ctx, N.explore(ctx, N2P, inv, env, hook=hook2), f"getcoordinates ({label})", inv)
        for r in paths:
            asked = [c for c in r.calls if c[0] == "mkusetcoordinfo"]
            from .sem import place
            ok = len(asked) >= 1 and all(G.same(place(c[1], c[2], ["cord", "uset", "coordref"]).get("cord"), F.const(7)) and
                                         G.same(place(c[1], c[2], ["cord", "uset", "coordref"]).get("uset"), F.sym("uset")) for c in asked)
            acc.check(ok, "getcoordinates: the coordinate system that is resolved (mkusetcoordinfo) is the one asked for, in the table that was given", inv,
                      None if ok else [_show(c[1], 120) for c in asked])
        if ctype == 2:
            _r1_lookup(ctx, acc, inv, loc, a, hook2)
        sx, cx = G.atom_id(F.sin(x2)), G.atom_id(F.cos(x2))
        for r in paths:
            res = N.to_nested(r.ret)
            branch = _branch_tag(r, sx, cx) if ctype == 3 else ""
            tag = f"getcoordinates o _get_loc_a_basic ({label}{branch})"
            if G.any_unknown(res) or res is None or _opaque_in(res):
                ctx.error(f"{tag}: result", inv, _show(res))
                continue
            if not (isinstance(res, tuple) and len(res) == 3 and G.is_vector(res)):
                ctx.fail(f"{tag}: one location asked for gives one [c1, c2, c3] triple", inv, _show(res))
                continue
            if ctype == 1:
                _decide(ctx, [(res, r)], lambda v: G.same(v, a), f"{tag}: identity - the origin is subtracted before the transposed transform is applied "
                        "(inverse of `origin + T @ v` for an orthonormal T)", inv, _show, sink=acc)
                continue
            names = ("R", "theta", "z") if ctype == 2 else ("R", "theta (polar angle, entered second)", "phi (azimuth, entered third)")
            how = ("hypot / norm of the local vector", "atan2(y, x) * 180/pi undoes the pi/180 conversion (argument order, reciprocal factors)",
                   "passed through" if ctype == 2 else "atan2(y, x) * 180/pi of the in-plane components")
            for k in range(3):
                _decide(ctx, [(res[k], r)], lambda v, k=k: G.same(v, a[k]), f"{tag}: {names[k]} is recovered ({how[k]})", inv, _show, sink=acc)
            if ctype == 3 and all(G.same(res[k], a[k]) for k in range(3)):
                _divisor_guard(ctx, acc, r, tag, x1, x2, a, inv)
    acc.flush()


def _r1_lookup(ctx, acc, inv, loc, a, hook):
    """getcoordinates asked by grid id (the location is row (id, 1), columns x, y, z of the table) and asked for the basic system"""
    spec = [("S", 3, False), ("G", 8, 1, False), ("G", 21, 1, False)]
    scene = _Scene(spec)
    g = scene.grids[1]
    rows = [list(r) for r in scene.rows]
    rows[g["row"]][1:] = list(loc)                       # the grid sits where the forward map put the entered coordinates
    table = N.Table(N.as_arr(tuple(tuple(r) for r in rows)), scene.ids, scene.dofs)
    try:
        runs = N.explore(ctx, N2P, inv, {"uset": table, "gid": N.as_arr((F.const(21),)), "csys": F.const(7)}, hook=hook)
    except Unsupported as e:
        ctx.error("getcoordinates (grid id): evaluation", inv, str(e))
        return
    for r in _returns(ctx, runs, "getcoordinates (grid id)", inv):
        res = N.to_nested(r.ret)
        if G.any_unknown(res) or res is None or _opaque_in(res):
            ctx.error("getcoordinates (grid id): result", inv, _show(res))
            continue
        _decide(ctx, [(res, r)], lambda v: G.same(v, a), "getcoordinates: a grid id stands for the location stored for that grid (table row (id, 1), "
                "columns x, y, z)", inv, _show, sink=acc)
    try:
        runs = N.explore(ctx, N2P, inv, {"gid": N.as_arr((loc,)), "csys": F.const(0)}, hook=hook)
    except Unsupported as e:
        ctx.error("getcoordinates (basic system): evaluation", inv, str(e))
        return
    for r in _returns(ctx, runs, "getcoordinates (basic system)", inv):
        res = N.to_nested(r.ret)
        if G.any_unknown(res) or res is None or _opaque_in(res):
            ctx.error("getcoordinates (basic system): result", inv, _show(res))
            continue
        _decide(ctx, [(res, r)], lambda v: G.same(v, loc), "getcoordinates: coordinate system 0 is the basic system (the location is returned as it is)",
                inv, _show, sink=acc)


def _branch_tag(run, sx, cx):
    """the regime of the spherical inverse, named by what it divides by (not by the spelling of its test)"""
    kinds = set()
    for num, den, node in run.divs:
        if not G.is_rat(den):
            continue
        ids = {aid for aid, _ in G.atoms_of(den)}
        if sx in ids:
            kinds.add("sin")
        if cx in ids:
            kinds.add("cos")
    if not kinds:
        return ", regime without a quotient by sin / cos of the azimuth"
    return ", regime with a quotient by " + " and ".join(sorted(kinds)) + " of the azimuth"


def _divisor_guard(ctx, acc, run, tag, x1, x2, a, where):
    """spherical inverse: a quotient by sin(phi) or cos(phi) of the recovered azimuth is formed only on a branch that is not selected where
    that divisor vanishes (phi = 0 / 180 deg resp. +-90 deg are ordinary points, not polar singularities)"""
    sx, cx = G.atom_id(F.sin(x2)), G.atom_id(F.cos(x2))
    base = {G.atom_id(a[0]): Fraction(2), G.atom_id(F.sin(x1)): Fraction(3, 5), G.atom_id(F.cos(x1)): Fraction(4, 5),
            G.atom_id(a[1]): Fraction(30), G.atom_id(a[2]): Fraction(30), G.atom_id(PI): Fraction(22, 7)}
    points = {"phi = 0": (0, 1), "phi = 180 deg": (0, -1), "phi = 90 deg": (1, 0), "phi = -90 deg": (-1, 0)}
    tests = [(v, node, dec) for v, node, dec in run.asked if G.is_rat(v) and any(aid in (sx, cx) for aid, _ in G.atoms_of(v))]
    bad, undecided = [], []
    ndiv = 0
    # np.where computes both candidates and keeps one: a quotient that is itself (the very object) a value np.where threw away was formed but
    # not used, so it is not judged.  A thrown-away value that is anything else may hide a quotient (inside atan2, cancelled, ...): then a
    # finding is an ANALYSIS-ERROR, never a violation
    thrown = {id(v) for v in run.sh.discarded}
    from_div = {id(r) for r in run.sh.div_results if r is not None}
    risky = any(id(v) not in from_div for v in run.sh.discarded)
    for k, (num, den, node) in enumerate(run.divs):
        if not G.is_rat(den) or not any(aid in (sx, cx) for aid, _ in G.atoms_of(den)):
            continue
        if k < len(run.sh.div_results) and id(run.sh.div_results[k]) in thrown:
            continue
        ndiv += 1
        for pname, (s_, c_) in points.items():
            asg = dict(base)
            asg[sx], asg[cx] = Fraction(s_), Fraction(c_)
            try:
                if G.conc(den, asg) != 0:
                    continue
                taken = all((G.conc(v, asg) != 0) == dec for v, _, dec in tests)
            except G.Undecided as e:
                undecided.append(f"{ast.unparse(node)} at {pname}: {e}")
                continue
            if taken:
                bad.append({"quotient": ast.unparse(node), "selected at": f"{pname} (sin = {s_}, cos = {c_})",
                            "tests": [f"{ast.unparse(n)} is {d}" for _, n, d in tests]})
    if undecided:
        ctx.error(f"{tag}: divisor of the in-plane radius", where, undecided)
        return
    if bad and risky:
        # np.where computes both candidates and keeps one: a quotient that was formed may be one that was thrown away
        ctx.error(f"{tag}: a quotient by sin / cos of the azimuth is formed where its divisor vanishes, but the function selects values with "
                  "np.where - whether that quotient is the one kept is not tracked", where, bad[:2])
        return
    acc.check(not bad, f"{tag}: a quotient by sin / cos of the azimuth is formed only where the selecting test keeps that divisor away from zero",
              where, None if not bad else {"violations": bad, "consequence": "the polar angle is computed from 0/0-like round-off at an ordinary point"},
              nontrivial=ndiv > 0)


# ------------------------------------------------------------------------------------------------------------ R3: rbgeom / rbmove
def _rb_block(x, y, z):
    return ((I_, O_, O_, O_, z, -y), (O_, I_, O_, -z, O_, x), (O_, O_, I_, y, -x, O_), (O_, O_, O_, I_, O_, O_), (O_, O_, O_, O_, I_, O_),
            (O_, O_, O_, O_, O_, I_))


def rbgeom_spec(grids, ref):
    """the meaning of rbgeom: one 6x6 block [[I, -[(x - ref) x]], [0, I]] per grid (grids: nested (n, 3) tuple, ref: 3-tuple)"""
    rows = []
    for g in grids:
        rows.extend(_rb_block(*[p - q for p, q in zip(g, ref)]))
    return tuple(rows)


def _rbgeom_hook(name, args, kwargs, node, ip):
    """call of rbgeom modelled by its meaning (R3 decides whether the function has that meaning)"""
    if name != "rbgeom":
        return NotImplemented
    grids = args[0] if args else kwargs.get("grids")
    ref = args[1] if len(args) > 1 else kwargs.get("refpoint", N.as_arr(((O_, O_, O_),)))
    if not isinstance(grids, (N.Arr, tuple, N.LVal)):
        return NotImplemented
    g = N.as_arr(grids)
    if g.size % 3:
        return NotImplemented
    g = g.reshape((-1, 3)).nested()
    if G.any_unknown(g):
        return NotImplemented
    ip.sh.calls.append((name, list(args), dict(kwargs), node))
    if isinstance(ref, N.Arr) and ref.size == 1:
        ref = ref.flat()[0]
    if G.is_rat(ref):
        k = G.int_of(ref)
        if k is None:
            return NotImplemented
        if not -len(g) <= k < len(g):
            # rbgeom documents a scalar reference as a row number of `grids` (grids[refpoint]): numpy answers a row that does not exist with
            raise N.PyError("IndexError", f"index {k} is out of bounds for axis 0 with size {len(g)} (rbgeom: grids[refpoint])")
        ref = g[k]
    elif isinstance(ref, (N.Arr, tuple, N.LVal)) and N.as_arr(ref).size == 3:
        ref = tuple(N.as_arr(ref).flat())
        if G.any_unknown(ref):
            return NotImplemented
    else:
        return NotImplemented
    return N.as_arr(rbgeom_spec(g, ref))


def _point_truth(assign, log=None):
    """truth of a test at one exact point of the parameter space (`assign`: atom id -> Fraction): the regime a rule evaluates is named by a
    point, whatever the test looks like (any / all / count_nonzero / comparisons / abs / max ... are evaluated, not recognised); a test that
    mentions anything else stays undecided and splits the regime"""
    def truth(v, node, ip):
        try:
            return G.conc(v, assign) != 0
        except G.Undecided as e:
            if log is not None:
                log.append(f"{ast.unparse(node)}: {e}")
            return None
    return truth


def _assign(syms, values):
    return {G.atom_id(s): Fraction(v) for s, v in zip(syms, values)}


def r3_rbgeom(ctx):
    fn = ctx.src.func(N2P, "rbgeom")
    ng = 2          # not 3: the number of grids must not coincide with the number of coordinates
    g = tuple(tuple(F.sym(f"g{i}{k}") for k in "xyz") for i in range(ng))
    r = tuple(F.sym(f"r{k}") for k in "xyz")

    dead = []          # the first scenario that cannot be evaluated is reported, the others are not tried (same cause)

    def results(args, what, truth=None, ng=ng):
        if dead:
            return None
        try:
            runs = N.explore(ctx, N2P, fn, args, truth=truth)
        except Unsupported as e:
            ctx.error(f"rbgeom ({what}): evaluation", fn, str(e))
            dead.append(what)
            return None
        runs = _returns(ctx, runs, f"rbgeom ({what})", fn)
        out = []
        for run in runs:
            v = N.to_nested(run.ret)
            if not isinstance(run.ret, N.Arr) or G.any_unknown(v) or _opaque_in(v):
                ctx.error(f"rbgeom ({what}): the result is an array of understood values", fn, {"result": _show(v), "not understood": _opaque_in(v)})
                dead.append(what)
                return None
            if run.ret.shape != (6 * ng, 6):
                ctx.fail(f"rbgeom ({what}): the result has six rows per grid and six columns", fn, {"shape": list(run.ret.shape), "grids": ng})
                dead.append(what)
                return None
            out.append((v, run))
        return out or None

    # ---- scalar reference: the index of a grid (every index of the table, and one counted from the end)
    bad, n_ok, unsure = [], 0, True
    for k in (0, 1, -1):
        res = results({"grids": N.as_arr(g), "refpoint": F.const(k)}, f"scalar reference {k}")
        if res is None:
            continue
        n_ok += 1
        want = rbgeom_spec(g, g[k])
        if not all(G.same(x, want) for x, _ in res):
            bad.append({"reference": k, "result": _show(res[0][0], 600)})
            unsure = unsure and not any(run.sure for x, run in res if not G.same(x, want))
    if n_ok and bad and unsure:
        ctx.error("rbgeom: a scalar reference selects that grid's location", fn, {"not shown to be reachable": bad[:2]})
    elif n_ok:
        ctx.check(not bad, "rbgeom: a scalar reference selects that grid's location: every grid gets [[I, -[(x - x_ref) x]], [0, I]] (unit translation / "
                  "rotation in its own component, rotational columns theta x r = (0,-z,y), (z,0,-x), (-y,x,0))", fn, bad or None)
    # ---- vector reference: a generic point, and the witness table for the short cut
    generic = _point_truth(_assign(r, (7, -2, 3)))
    res = results({"grids": N.as_arr(g), "refpoint": N.as_arr(r)}, "a generic reference point", truth=generic)
    if res is not None:
        want = rbgeom_spec(g, r)
        _decide(ctx, res, lambda v: G.same(v, want), "rbgeom: coordinates are taken relative to a vector reference point: every grid gets "
                "[[I, -[(x - ref) x]], [0, I]]", fn, lambda v: _show(v, 900))
    res = results({"grids": N.as_arr(g), "refpoint": N.as_arr((r,))}, "a (1, 3) reference point", truth=generic)
    if res is not None:
        want = rbgeom_spec(g, r)
        _decide(ctx, res, lambda v: G.same(v, want), "rbgeom: a reference point given as a (1, 3) array (the shape of the default) is used like the vector",
                fn, lambda v: _show(v, 900))
    table = [(Fraction(7), Fraction(-2), Fraction(3)), (Fraction(0), Fraction(7, 2), Fraction(-5, 4)), (Fraction(-2), Fraction(0), Fraction(3))]
    for x in (0, 1, -1):
        for y in (0, 1, -1):
            for z in (0, 1, -1):
                table.append((Fraction(x), Fraction(y), Fraction(z)))
    bad, n_ok, unsure = [], 0, True
    for w in table:
        ref = tuple(F.const(c) for c in w)
        res = results({"grids": N.as_arr(g), "refpoint": N.as_arr(ref)}, f"reference {[str(c) for c in w]}")
        if res is None:
            continue
        n_ok += 1
        want = rbgeom_spec(g, ref)
        if not all(G.same(x, want) for x, _ in res):
            bad.append({"reference": [str(c) for c in w], "rows of grid 0": _show(res[0][0][:3], 400)})
            unsure = unsure and not any(run.sure for x, run in res if not G.same(x, want))
    if n_ok and bad and unsure:
        ctx.error("rbgeom: the shift is skipped only when every coordinate of the reference point is zero", fn, {"not shown to be reachable": bad[:2]})
    elif n_ok:
        ctx.check(not bad, "rbgeom: the shift is skipped only when every coordinate of the reference point is zero", fn,
                  None if not bad else {"counterexamples": bad[:4], "consequence": "a reference point with one zero coordinate would be ignored"})
    one = tuple(F.sym(f"q{k}") for k in "xyz")
    res = results({"grids": N.as_arr(one), "refpoint": N.as_arr(r)}, "one location given as a 3-vector", truth=generic, ng=1)
    if res is not None:
        want = rbgeom_spec((one,), r)
        _decide(ctx, res, lambda v: G.same(v, want), "rbgeom: one location given as a plain 3-vector (the way rbmove passes the old reference) is one grid",
                fn, lambda v: _show(v, 600))
    res = results({"grids": N.as_arr(g)}, "default reference")
    if res is not None:
        want = rbgeom_spec(g, (O_, O_, O_))
        _decide(ctx, res, lambda v: G.same(v, want), "rbgeom: the default reference point is the origin of the basic system", fn, lambda v: _show(v, 900))
    # ---- rbmove
    mv = ctx.src.func(N2P, "rbmove")
    rb = tuple(tuple(F.sym(f"m{i}{j}") for j in range(6)) for i in range(2))
    old = tuple(F.sym(f"p{k}") for k in "xyz")
    try:
        runs = _returns(ctx, N.explore(ctx, N2P, mv, {"rb": N.as_arr(rb), "oldref": N.as_arr(old), "newref": N.as_arr(r)}, hook=_rbgeom_hook, truth=generic),
                        "rbmove", mv)
    except Unsupported as e:
        ctx.error("rbmove: evaluation", mv, str(e))
        runs = []
    if runs:
        want = G.matmul(rb, rbgeom_spec((old,), r))
        pairs = [(N.to_nested(run.ret), run) for run in runs]
        junk = [v for v, _ in pairs if G.any_unknown(v) or v is None or _opaque_in(v)]
        if junk:
            ctx.error("rbmove: result", mv, _show(junk[0], 300))
        else:
            _decide(ctx, pairs, lambda v: G.same(v, want), "rbmove: modes about a new reference = modes @ rbgeom(old reference about new reference)", mv,
                    lambda v: _show(v, 600))


# ------------------------------------------------------------------------------------------------ R2: rbgeom_uset local frames
def _frame_cyl(c, s):
    return ((c, s, O_), (-s, c, O_), (O_, O_, I_))


def _frame_sph(ct, st, cp, sp):
    return ((st * cp, st * sp, ct), (ct * cp, ct * sp, -st), (-sp, cp, O_))


class _Scene:
    """a USET table with concrete rows and symbolic (or numeric) entries: scalar points, grids of given output-system types, q-set members"""

    def __init__(self, spec, numeric=None):
        """spec: [("S", id, in_qset)] | [("G", id, type, in_qset)];  numeric: None or {grid number: local position (3 Fractions)}"""
        self.spec = spec
        self.symbolic = numeric is None
        self.ids, self.dofs, rows = [], [], []
        self.grids = []           # per grid that is not in the q-set: dict(first row in the full table, type, X, T, l, frame parameters)
        self.qids = set()
        self.other_rows = []
        self.angles, self.positives, self.generic = [], [], {}
        n = 0
        for ent in spec:
            if ent[0] == "S":
                self.other_rows.append(len(rows))
                cells = (F.sym(f"ns{len(rows)}"), F.sym(f"sp{len(rows)}x"), F.sym(f"sp{len(rows)}y"), F.sym(f"sp{len(rows)}z"))
                self.generic.update({G.atom_id(c): Fraction(11 * k - 4, 7) + len(rows) for k, c in enumerate(cells)})
                rows.append(cells)
                self.ids.append(F.const(ent[1]))
                self.dofs.append(O_)
                if ent[2]:
                    self.qids.add(ent[1])
                continue
            _, gid, ctype, inq = ent
            tag = str(n)
            n += 1
            X = tuple(F.sym(f"X{tag}{k}") for k in "xyz")
            info = {"row": len(rows), "type": ctype, "id": gid, "X": X, "tag": tag}
            if numeric is not None:
                # a fixed proper rotation that is not symmetric, exact numbers everywhere
                T = ((O_, -I_, O_), (I_, O_, O_), (O_, O_, I_))
                l = tuple(F.const(c) for c in numeric.get(n - 1, (1, 2, 3)))
                X = tuple(F.const(Fraction(3 * n + k, 2)) for k in range(3))
                info["X"] = X
            elif ctype == 2:
                T = _euler(tag)
                rho, phi, zeta = F.sym("rho" + tag), F.sym("phi" + tag), F.sym("zeta" + tag)
                l = (rho * F.cos(phi), rho * F.sin(phi), zeta)
                info["frame"] = _frame_cyl(F.cos(phi), F.sin(phi))
                self.angles.append(phi)
                self.positives.append(rho)
                self.generic.update({G.atom_id(rho): Fraction(2), G.atom_id(F.sin(phi)): Fraction(3, 5), G.atom_id(F.cos(phi)): Fraction(4, 5),
                                     G.atom_id(zeta): Fraction(3, 2)})
            elif ctype == 3:
                T = _euler(tag)
                R, th, phi = F.sym("R" + tag), F.sym("theta" + tag), F.sym("phi" + tag)
                l = (R * F.sin(th) * F.cos(phi), R * F.sin(th) * F.sin(phi), R * F.cos(th))
                info["frame"] = _frame_sph(F.cos(th), F.sin(th), F.cos(phi), F.sin(phi))
                self.angles += [phi, th]
                self.positives += [R, R * F.sin(th)]
                self.generic.update({G.atom_id(R): Fraction(2), G.atom_id(F.sin(phi)): Fraction(3, 5), G.atom_id(F.cos(phi)): Fraction(4, 5),
                                     G.atom_id(F.sin(th)): Fraction(5, 13), G.atom_id(F.cos(th)): Fraction(12, 13)})
            else:
                T = tuple(tuple(F.sym(f"T{tag}{i}{j}") for j in range(3)) for i in range(3))
                l = None
                info["frame"] = ((I_, O_, O_), (O_, I_, O_), (O_, O_, I_))
                vals = (Fraction(2, 7), Fraction(-3, 5), Fraction(5, 3), Fraction(7, 4), Fraction(1, 3), Fraction(-2, 9), Fraction(4, 5), Fraction(3, 8), Fraction(-5, 6))
                self.generic.update({G.atom_id(T[i][j]): vals[3 * i + j] + n for i in range(3) for j in range(3)})
                self.generic.update({G.atom_id(F.sym(f"O{tag}{k}")): Fraction(2 * j - 3, 2) - n for j, k in enumerate("xyz")})
            if numeric is None:
                self.generic.update({G.atom_id(X[j]): Fraction(7 * j - 5, 3) + 2 * n for j in range(3)})
                if ctype in (2, 3):
                    for nm, (sn, cs) in zip(("al", "be", "ga"), ((Fraction(3, 5), Fraction(4, 5)), (Fraction(5, 13), Fraction(12, 13)), (Fraction(8, 17), Fraction(15, 17)))):
                        self.generic[G.atom_id(F.sin(F.sym(nm + tag)))] = sn
                        self.generic[G.atom_id(F.cos(F.sym(nm + tag)))] = cs
            if l is not None:
                Tl = G.matmul(T, l)
                origin = tuple(x - y for x, y in zip(X, Tl))
            else:
                origin = tuple(F.sym(f"O{tag}{k}") for k in "xyz")
            info["T"], info["l"] = T, l
            cid = F.sym("cid" + tag) if numeric is None else F.const(100 + n)
            self.generic[G.atom_id(F.sym("cid" + tag))] = Fraction(100 + n)
            block = [X, (cid, F.const(ctype), O_), origin] + list(T)
            for d, rw in enumerate(block):
                ns = F.sym(f"ns{len(rows)}")
                self.generic[G.atom_id(ns)] = Fraction(2097154 + len(rows))
                rows.append((ns if numeric is None else F.const(2097154 + len(rows)),) + tuple(rw))
                self.ids.append(F.const(gid))
                self.dofs.append(F.const(d + 1))
            if inq:
                self.qids.add(gid)
                self.other_rows += list(range(info["row"], info["row"] + 6))
            else:
                self.grids.append(info)
        self.nrows = len(rows)
        self.rows = rows

    def table(self):
        return N.Table(N.as_arr(tuple(self.rows)), self.ids, self.dofs)

    def hook(self, extra=None):
        qids = self.qids

        def hook(name, args, kwargs, node, ip):
            if name == "mksetpv" and len(args) == 3 and isinstance(args[0], N.Table) and N.str_of(args[1]) == "p" and N.str_of(args[2]) == "q":
                ip.sh.calls.append((name, list(args), dict(kwargs), node))
                t = args[0]
                return N.Arr.new([G.TRUE if G.int_of(i) in qids else G.FALSE for i in t.ids], (len(t.ids),))
            if name == "mkdofpv" and len(args) >= 3 and isinstance(args[0], N.Table) and N.str_of(args[1]) == "p":
                ip.sh.calls.append((name, list(args), dict(kwargs), node))
                t = args[0]
                want = [G.int_of(x) if G.is_rat(x) else None for x in (N.as_arr(args[2]).flat() if isinstance(args[2], (N.Arr, tuple, N.LVal)) else [args[2]])]
                if any(w is None for w in want):
                    return NotImplemented
                pv = [r for w in want for r, i in enumerate(t.ids) if G.int_of(i) == w and G.int_of(t.dofs[r]) != 0]
                return (N.Arr.new([F.const(p) for p in pv], (len(pv),)), F.fn("opaque", "mkdofpv-dof"))
            r = _rbgeom_hook(name, args, kwargs, node, ip)
            if r is not NotImplemented or extra is None:
                return r
            return extra(name, args, kwargs, node, ip)
        return hook

    def expected_block(self, info, ref):
        """6x6 result block of one grid: blockdiag(frame @ T.T, frame @ T.T) @ [[I, -[(X - ref) x]], [0, I]]"""
        M = G.matmul(info["frame"], G.transpose(info["T"]))
        rb = _rb_block(*[p - q for p, q in zip(info["X"], ref)])
        top = G.matmul(M, tuple(r for r in rb[:3]))
        bot = G.matmul(M, tuple(r for r in rb[3:]))
        return tuple(top) + tuple(bot)


_MIXED = [("S", 5, False), ("G", 11, 2, False), ("G", 12, 1, True), ("G", 20, 1, False), ("G", 31, 3, False), ("S", 40, True)]
_PERMUTED = [("G", 3, 3, False), ("S", 7, False), ("G", 8, 1, False), ("G", 9, 2, False), ("G", 10, 2, False), ("G", 14, 3, False), ("G", 16, 1, False)]
_ALL_RECT = [("G", 4, 1, False), ("G", 6, 1, False), ("S", 2, True), ("G", 15, 1, False)]
_CALLER_ORDER = [[("G", 15, 1, False), ("S", 9, False), ("G", 4, 1, False), ("G", 6, 1, False)],
                 [("G", 6, 1, False), ("G", 12, 1, True), ("G", 15, 1, False), ("S", 2, True), ("G", 4, 1, False)]]
_OFF_AXIS = [(1, 0, 0), (-1, 0, 0), (0, 1, 0), (0, -1, 0), (1, 1, 0), (1, -1, 0), (-1, 1, 0), (-1, -1, 0), (-1, 0, 2), (0, -1, -3),
             (1, 0, -1), (0, 2, -2), (3, -3, 1), (-3, 4, -5), (3, 4, 5), (Fraction(1, 1000), 0, 0), (0, Fraction(-1, 1000), 0),
             (Fraction(1, 1000), Fraction(-1, 1000), 5)]


def _run_scene(ctx, fn, scene, ref, truth=None, extra_hook=None):
    """rbgeom_uset on the scene -> [(result as nested tuple, Run)] for every returning regime (raises Unsupported)"""
    args = {"uset": scene.table()}
    if ref is not None:
        args["refpoint"] = ref
    runs = N.explore(ctx, N2P, fn, args, truth=truth, hook=scene.hook(extra_hook), stops=("rbgeom", "mksetpv", "mkdofpv"))
    out = []
    for r in runs:
        if r.pyerror:
            raise _Crash(r.pyerror, r.sure)
        if r.raised:
            continue
        if not (isinstance(r.ret, N.Arr) and r.ret.shape == (scene.nrows, 6)):
            raise Unsupported(f"rbgeom_uset does not return an array with one row per table row and six columns ({_show(r.ret, 120)})")
        res = r.ret.nested()
        if G.any_unknown(res):
            raise Unsupported("rbgeom_uset: the result has entries the evaluation could not compute")
        if scene.symbolic and _opaque_in(res):
            raise Unsupported(f"rbgeom_uset: the result contains an application the evaluation does not interpret ({_opaque_in(res)})")
        out.append((res, r))
    if not out:
        raise Unsupported("rbgeom_uset: no regime returns")
    return out


def _dir(y, x):
    """(cos, sin) of atan2(y, x) for exact numbers; atan2(0, 0) is 0"""
    h = G.csqrt(x * x + y * y)
    if h == 0:
        return Fraction(1), Fraction(0)
    return x / h, y / h


def _num(M):
    return tuple(tuple(Fraction(G.const_of(x)) for x in r) for r in M)


def _nmul(A, B):
    return tuple(tuple(sum(A[i][k] * B[k][j] for k in range(len(B))) for j in range(len(B[0]))) for i in range(len(A)))


def r2_local_frames(ctx):
    fn = ctx.src.func(N2P, "rbgeom_uset")
    ref = tuple(F.sym(f"ref{k}") for k in "xyz")

    def evaluate(spec, what, refv, numeric=None):
        scene = _Scene(spec, numeric)
        rule = G.atan2_rule(scene.angles, scene.positives)

        def hook(name, args, kwargs, node, ip):
            return _atan2_call(rule, name, args, kwargs, node, ip)

        point = dict(scene.generic)
        point.update(_assign(ref, (7, -2, 3)))
        truth = _point_truth(point)          # the generic regime: grids well away from the polar axis, a reference point off every axis
        try:
            return scene, _run_scene(ctx, fn, scene, refv, truth=truth, extra_hook=hook)
        except _Crash as e:
            if e.sure:
                ctx.fail(f"rbgeom_uset ({what}): the function returns (no run-time error) on a valid table", fn, {"exception": str(e)})
            else:
                ctx.error(f"rbgeom_uset ({what}): a regime ends in a run-time error", fn, {"exception": str(e)})
            return scene, None
        except Unsupported as e:
            ctx.error(f"rbgeom_uset ({what}): evaluation", fn, str(e))
            return scene, None

    def block(res, info):
        return tuple(res[info["row"] + k] for k in range(6))

    # ---- the mixed table: scalar points, a q-set grid, one grid of every type, a general reference point
    scene, results = evaluate(_MIXED, "table with scalar points, a q-set grid and one grid of every type", N.as_arr(ref))
    if results is not None:
        _decide(ctx, results, lambda res: all(all(x.is_zero() for x in res[r]) for r in scene.other_rows),
                "rbgeom_uset: the local-frame rows are written to the rows of the grids (scalar points and q-set grids keep zeros) of the returned "
                "array, one row per table row", fn, lambda res: {"rows": [_show(res[r], 120) for r in scene.other_rows[:3]]})
        for info in scene.grids:
            want = scene.expected_block(info, ref)
            if info["type"] == 1:
                _decide(ctx, results, lambda res: G.same(block(res, info), want),
                        "rbgeom_uset: the basic rigid-body rows of a grid are taken to its output system with the transpose of that grid's own 3x3 "
                        "(table rows 3..5, columns x, y, z), translations and rotations alike", fn, lambda res: _show(block(res, info), 900))
                continue
            label, fname = ("cylindrical", "[e_r, e_theta, e_z]") if info["type"] == 2 else ("spherical", "[e_R, e_theta, e_phi]")
            tag = info["tag"]
            private = ["al" + tag, "be" + tag, "ga" + tag] + [f"O{tag}{k}" for k in "xyz"] + [f"X{tag}{k}" for k in "xyz"]

            def frame_of(res):
                # the frame that was applied: (translational 3x3) @ T, because the leading 3x3 of the basic block is the identity
                return G.matmul(tuple(r[:3] for r in block(res, info)[:3]), info["T"])
            _decide(ctx, results, lambda res: _free_of(frame_of(res), private),
                    f"rbgeom_uset ({label}): the frame of a grid depends on the table only through the grid's local position "
                    "(its own 3x3).T @ (grid location - origin of its output system), rows 0 and 2 of the grid's table block", fn,
                    lambda res: _show(frame_of(res), 600))
            _decide(ctx, results, lambda res: G.same(tuple(block(res, info)[:3]), tuple(want[:3])),
                    f"rbgeom_uset ({label}): the translational rows of a grid off the polar axis are rotated into the local frame {fname} at the "
                    "grid's position (rows = unit vectors; azimuth = atan2(local y, local x)"
                    + (", polar angle = atan2(in-plane radius, local z))" if info["type"] == 3 else ")"), fn,
                    lambda res: {"frame applied": _show(frame_of(res), 700)})
            _decide(ctx, results, lambda res: G.same(tuple(block(res, info)[3:]), tuple(want[3:])),
                    f"rbgeom_uset ({label}): the rotational rows are rotated by the same frame as the translational rows", fn,
                    lambda res: _show(block(res, info)[3:], 700))

    def wrong_blocks(scene, refv):
        return lambda res: {str(info["id"]): info["type"] for info in scene.grids if not G.same(block(res, info), scene.expected_block(info, refv))}
    # ---- every grid is visited, whatever its place in the table
    scene, results = evaluate(_ALL_RECT, "table of rectangular grids", N.as_arr(ref))
    if results is not None:
        w = wrong_blocks(scene, ref)
        _decide(ctx, results, lambda res: not w(res), "rbgeom_uset: the rectangular step visits every grid: blocks of six rows starting at 0, 6, 12, ... "
                "of the selected table", fn, lambda res: {"grids (id: type) with a wrong block": w(res)})
    # ---- the default reference point
    if results is not None:
        scene, results = evaluate(_ALL_RECT, "default reference point", None)
        if results is not None:
            w0 = wrong_blocks(scene, (O_, O_, O_))
            _decide(ctx, results, lambda res: not w0(res), "rbgeom_uset: the default reference point is the origin of the basic system", fn,
                    lambda res: {"grids (id: type) with a wrong block": w0(res)})
    # ---- a grid id as reference point
    if results is not None:
        scene, results = evaluate(_ALL_RECT, "grid id as reference point", F.const(6))
        if results is not None:
            w6 = wrong_blocks(scene, next(i for i in scene.grids if i["id"] == 6)["X"])
            _decide(ctx, results, lambda res: not w6(res), "rbgeom_uset: a grid id given as reference point stands for the location of that grid (looked up "
                    "among the grids that were selected)", fn, lambda res: {"grids (id: type) with a wrong block": w6(res)})
    # ---- a grid id as reference point on tables whose rows are in the caller's order: nothing establishes that the ids of a USET table ascend
    # (addgrid appends in the order given), so a look-up that presupposes an order (bisection, rank among the ids, position among the
    # sorted ids) is decided by value on these witness tables; labels are touched only through comparison / equality
    if results is not None:
        for spec in _CALLER_ORDER:
            order = ", ".join(str(e[1]) + ("" if e[0] == "G" else " (scalar)") + (" (q-set)" if e[-1] else "") for e in spec)
            bad, stop = {}, False
            nodes = [e[1] for e in spec if e[0] == "G" and not e[-1]]
            for gid in nodes:
                scene, results = evaluate(spec, f"grid id {gid} as reference point, table with the ids {order} in this order", F.const(gid))
                if results is None:
                    stop = True
                    break
                wg = wrong_blocks(scene, next(i for i in scene.grids if i["id"] == gid)["X"])
                for res, _ in results:
                    if wg(res):
                        bad[gid] = wg(res)
            if stop:
                break
            ctx.check(not bad, "rbgeom_uset: a grid id given as reference point stands for the location of that grid wherever its rows are in the table "
                      f"(witness table: ids {order} in this order - the order of a USET table is the caller's; every grid id as reference)", fn,
                      None if not bad else {"reference id -> grids (id: type) whose block is not about that grid": {str(k): v for k, v in bad.items()},
                                            "consequence": "the modes are referred to another grid: an order of the ids was presupposed that nothing established"})
    # ---- type codes
    scene, results = evaluate(_PERMUTED, "table with the types in another order", N.as_arr(ref))
    if results is not None:
        wp = wrong_blocks(scene, ref)
        _decide(ctx, results, lambda res: not wp(res), "rbgeom_uset: cylindrical grids are those whose output-system type (table row 2, column y) is 2, "
                "spherical 3 - the same codes that _get_loc_a_basic and getcoordinates dispatch on; every other grid stays in its rectangular frame", fn,
                lambda res: {"grids (id: type) with a wrong block": wp(res)})
    # ---- the polar-axis short cuts, decided at the points of a witness table (exact numbers everywhere)
    verdict = {"cylindrical azimuth": [], "spherical azimuth": [], "spherical polar angle": []}
    und, crashes = [], []
    spec = [("G", 1, 2, False), ("G", 2, 3, False)]
    refn = tuple(F.const(c) for c in (Fraction(1, 2), Fraction(-3), Fraction(2)))
    for w in _OFF_AXIS:
        w = tuple(Fraction(x) for x in w)
        scene = _Scene(spec, numeric={0: w, 1: w})

        def truth(v, node, ip):
            try:
                return G.conc(v, {}) != 0
            except G.Undecided as e:
                und.append(f"{ast.unparse(node)} at {tuple(map(str, w))}: {e}")
                return None
        try:
            results = _run_scene(ctx, fn, scene, N.as_arr(refn), truth=truth)
        except _Crash as e:
            (crashes if e.sure else und).append(f"at local position {tuple(map(str, w))}: {e}")
            continue
        except Unsupported as e:
            und.append(f"evaluation at {tuple(map(str, w))}: {e}")
            continue
        for info in scene.grids:
            Tt = _num(G.transpose(info["T"]))
            rb = _num(_rb_block(*[p - q for p, q in zip(info["X"], refn)]))
            cp, sp = _dir(w[1], w[0])
            Z = ((cp, sp, 0), (-sp, cp, 0), (0, 0, 1))
            one = ((1, 0, 0), (0, 1, 0), (0, 0, 1))

            def Y(c, s):
                return ((s, 0, c), (c, 0, -s), (0, 1, 0))
            if info["type"] == 2:
                cands = {"full": Z, "cylindrical azimuth": one}
            else:
                rho = cp * w[0] + sp * w[1]
                ct, st = _dir(rho, w[2])
                ct0, st0 = _dir(w[0], w[2])
                cands = {"full": _nmul(Y(ct, st), Z), "spherical azimuth": Y(ct0, st0), "spherical polar angle": _nmul(Y(Fraction(1), Fraction(0)), Z)}
            for res, _ in results:
                try:
                    got = G.conc(tuple(res[info["row"] + k] for k in range(6)), {})
                except G.Undecided as e:
                    und.append(f"result at {tuple(map(str, w))}: {e}")
                    continue

                def close(frame):
                    M = _nmul(frame, Tt)
                    want = _nmul(M, rb[:3]) + _nmul(M, rb[3:])
                    return all(abs(p - q) < Fraction(1, 10 ** 12) for p, q in zip(G._flat(got), G._flat(want)))
                if close(cands["full"]):
                    continue
                hit = [k for k in cands if k != "full" and close(cands[k])]
                for k in (hit or [k for k in cands if k != "full"]):
                    verdict[k].append({"local position": [str(x) for x in w]})
    if crashes:
        ctx.fail("rbgeom_uset: the function returns (no run-time error) for grids at the witness points", fn, {"exceptions": crashes[:4]})
    if und:
        ctx.error("rbgeom_uset: polar-axis tests at the witness points", fn, und[:6])
    for name, bad in verdict.items():
        ctx.check(not bad, f"rbgeom_uset: the rotation by the {name} is skipped only when both arguments of its atan2 vanish (the grid is on the polar axis)",
                  fn, None if not bad else {"counterexamples": bad[:4], "consequence": "a grid off the axis is left in the rectangular frame of its output system"})
