"""C07 self-test recipes (text edits of /repo applied to scratch copies by the thorough tier): `break` = behaviour-breaking, must be
reported by one of the listed rules; `neutral` = behaviour-preserving refactoring, must stay silent."""

X = "pyyeti/expmint.py"
S = "pyyeti/ssmodel.py"

RECIPES = [
    # ---------------------------------------------------------------- behaviour-preserving
    ("C07", "neutral", [], X, "    for _ in range(s):\n        I += I.dot(E)\n        E = E.dot(E)\n",
     "    remaining = s\n    while remaining > 0:\n        I += I.dot(E)\n        E = E.dot(E)\n        remaining -= 1\n",
     "expmint: squaring loop as a counting while"),
    ("C07", "neutral", [], X, "        I += I.dot(E)\n        E = E.dot(E)", "        IE = I.dot(E)\n        I = I + IE\n        E = E.dot(E)",
     "expmint: doubling step with a temporary, not in place"),
    ("C07", "neutral", [], X, "    if norm1 <= 2.097847961257068:\n        return getEPQ1(A, h, order, B, half)\n    return getEPQ2(A, h, order, B, half)\n",
     "    theta_9 = 2.097847961257068\n    solver = getEPQ1 if not norm1 > theta_9 else getEPQ2\n    return solver(A, h, order=order, half=half, B=B)\n",
     "getEPQ: selected function object, inverted test, keyword arguments"),
    ("C07", "neutral", [], X, "    if pade <= 3:\n", "    if not pade > 3:\n", "_geti2: inverted guard"),
    ("C07", "neutral", [], X, "        return mf.solve(Q, P)\n", "        X = mf.solve(Q, P)\n        return X\n", "_solve_P_Q_2: temporary"),
    ("C07", "neutral", [], X, "    eta_1 = max(H.d4_loose, H.d6_loose)\n    if eta_1 < 1.495585217958292e-002 and mf._ell(H.A, 3) == 0:",
     "    theta = {3: 1.495585217958292e-002}\n    eta_1 = max(H.d4_loose, H.d6_loose)\n    if eta_1 < theta[3] and mf._ell(H.A, 3) == 0:",
     "expmint: threshold read from a table"),
    ("C07", "neutral", [], S, "            A, B, Q = expmint.getEPQ(self.A, h, 0, B=self.B)", "            A, B, Q = expmint.getEPQ(self.A, h, order=0, half=False, B=self.B)",
     "c2d zoh: keyword arguments"),
    ("C07", "neutral", [], X, "        M[:r, n : n + i] = Bh\n", "        cols = slice(n, n + i)\n        M[:r, cols] = Bh\n", "getEPQ2: slice object"),
    ("C07", "neutral", [], S, "            D = self.D - self.C.dot(QB)\n", "            CQB = self.C.dot(QB)\n            D = -CQB + self.D\n", "d2c tustin: temporary, commuted"),
    ("C07", "neutral", [], X, "        n = n // 2\n        P = P[:, :n]\n        if order == 1:\n            Q = Q[:, :n]",
     "        keep = slice(None, n // 2)\n        P = P[:, keep]\n        if order == 1:\n            Q = Q[:, keep]", "_procBhalf: slice object"),
    # ---------------------------------------------------------------- behaviour-breaking
    ("C07", "break", ["C07-R1"], X, "                self.A, self.A2, structure=self.structure\n", "                self.A2, self.A2, structure=self.structure\n",
     "A3 computed as A2.A2"),
    ("C07", "break", ["C07-R2"], X, "    if eta_1 < 1.495585217958292e-002 and mf._ell(H.A, 3) == 0:", "    if eta_1 < 1.495585217958292e-001 and mf._ell(H.A, 3) == 0:",
     "expmint: order-3 threshold ten times too large"),
    ("C07", "break", ["C07-R2"], X, "        return Return(U, V, P, Q, geti2, 5)", "        return Return(U, V, P, Q, geti2, 3)", "expmint: order-5 route asks for the degree-3 I2 table"),
    ("C07", "break", ["C07-R2"], X, "    if norm1 <= 2.097847961257068:", "    if norm1 <= 4.25:", "getEPQ switches at theta_13: getEPQ1 used where I2 has no Pade table"),
    ("C07", "break", ["C07-R2"], X, "    U, V, P, Q = H.pade13_scaled_i(s, h)\n", "    U, V, P, Q = H.pade13_scaled_i(s, 1.0)\n", "order-13 table not given the step"),
    ("C07", "break", ["C07-R3"], X, "    for _ in range(s):\n        I += I.dot(E)", "    for _ in range(s - 1):\n        I += I.dot(E)", "one squaring too few"),
    ("C07", "break", ["C07-R3"], X, "    for _ in range(s):\n        X = X.dot(X)", "    for _ in range(s + 1):\n        X = X.dot(X)", "_expm_SS: one squaring too many"),
    ("C07", "break", ["C07-R3"], X, "            return E, I, _geti2(H, E, I, h, pade)", "            return E, I, _geti2(H, E, I, 1.0, pade)", "_geti2 not given the step"),
    ("C07", "break", ["C07-R4"], X, "        P = P.dot(B)\n", "        P = B.dot(P)\n", "_procBhalf: B from the left"),
    ("C07", "break", ["C07-R4"], X, "        n = n // 2\n", "        n = n // 2 + 1\n", "_procBhalf: one column too many"),
    ("C07", "break", ["C07-R5"], S, "            D = self.C.dot(Q) + self.D\n            return SSModel(A, B, C, D, h, method)\n\n        if method == \"tustin\":",
     "            D = self.D\n            D += self.C.dot(Q)\n            return SSModel(A, B, C, D, h, method)\n\n        if method == \"tustin\":",
     "c2d foh: the continuous model's D is updated in place"),
    ("C07", "break", ["C07-R6"], X, "        M = np.zeros((N, N), float)\n", "        M = np.zeros((N, N), Ah.dtype)\n", "getEPQ2: augmented matrix inherits an integer dtype"),
    ("C07", "break", ["C07-R6"], X, "        M[:r, n : n + i] = Bh\n", "        M[:r, n + i :] = Bh\n", "getEPQ2: B h in the wrong block"),
    ("C07", "break", ["C07-R6"], X, "        P = EM[:n, n : n + i] - Q\n", "        P = EM[:n, n : n + i] + Q\n", "getEPQ2: P = block + Q"),
]
