"""C09 engine, part 4: tasks that own a *block* of indices.

A pool task may handle a contiguous range `range(E[k], E[k+1])` of frequency indices instead of one index (k = number of the task, E = a
sequence of block edges).  Consecutive ranges of one edge sequence are pairwise disjoint and tile [E[0], E[n]) exactly when E is
non-decreasing; the tasks then do what the serial loop does exactly when E[0] == 0 and E[n] == number of frequencies.  This module

  * recognises the pair (start, stop) = (F(k), F(k+1)) in the generic task element (`find_block`),
  * evaluates F(0), F(n) and the number of tasks with a small exact index algebra (`elt`, `simp`): integer arithmetic is exact, a true
    division is not; `trunc / floor / ceil` of an inexact value is kept as it is (never "simplified" to the intended integer),
  * proves `F non-decreasing` by a sign / monotonicity calculus (`monotone`),
  * tells apart "not provable" (None: the caller reports an analysis error) from "provably fragile" (`fragile`: an edge that is an integer in
    real arithmetic is obtained by truncating a float quotient/product - x * (y / x) < y happens in IEEE double, the truncation is then y - 1).

Terms are those of c09_terms; additional heads used here: ("lin", const, ((term, coeff), ...)) integer-affine normal form,
("rnd", how, x) with how in trunc/floor/ceil/round, ("lsp", a, b, m, i) element i of linspace(a, b, m), ("bv", n) bound variable of a
comprehension, ("blk", launch id) number of the task of a block launch."""
from __future__ import annotations

from .c09_terms import is_tag, is_const, tmap, subterms, contains, NONE, const, show

INT_TYPES = {("ext", "builtins.int"), ("ext", "numpy.int64"), ("ext", "numpy.int_"), ("ext", "numpy.intp"), ("ext", "numpy.int32"), ("c", "str", "int"),
             ("c", "str", "i8"), ("c", "str", "int64"), ("c", "str", "i")}
RND_CALLS = {"builtins.int": "trunc", "math.floor": "floor", "numpy.floor": "floor", "math.ceil": "ceil", "numpy.ceil": "ceil", "math.trunc": "trunc",
             "numpy.trunc": "trunc", "numpy.fix": "trunc", "builtins.round": "round", "numpy.round": "round", "numpy.rint": "round"}


def cint(t):
    return is_const(t) and t[1] == "int"


# ---------------------------------------------------------------------------------------------------------------- integer-affine normal form
def _lin_parts(t):
    """t -> (const, {term: coeff}) when t is an integer-affine combination, else (0, {t: 1})"""
    if cint(t):
        return t[2], {}
    if is_tag(t, "lin"):
        return t[1], dict(t[2])
    if is_tag(t, "bin") and t[1] in ("Add", "Sub"):
        c1, d1 = _lin_parts(t[2])
        c2, d2 = _lin_parts(t[3])
        s = 1 if t[1] == "Add" else -1
        d = dict(d1)
        for k, v in d2.items():
            d[k] = d.get(k, 0) + s * v
        return c1 + s * c2, {k: v for k, v in d.items() if v != 0}
    if is_tag(t, "un") and t[1] == "USub":
        c, d = _lin_parts(t[2])
        return -c, {k: -v for k, v in d.items()}
    if is_tag(t, "bin") and t[1] == "Mult":
        for a, b in ((t[2], t[3]), (t[3], t[2])):
            if cint(a):
                c, d = _lin_parts(b)
                return a[2] * c, {k: a[2] * v for k, v in d.items() if a[2] * v != 0}
    return 0, {t: 1}


def mklin(c, d):
    d = {k: v for k, v in d.items() if v != 0}
    if not d:
        return const(c)
    if c == 0 and len(d) == 1 and next(iter(d.values())) == 1:
        return next(iter(d))
    return ("lin", c, tuple(sorted(d.items(), key=repr)))


def norm(t):
    """canonical spelling of index arithmetic: sums in affine normal form, `X[a:][i]` as `X[a + i]`"""
    def f(x):
        if is_tag(x, "subslice") and len(x) == 3 and is_tag(x[1], "slice") and x[1][3] in (NONE, const(1)) and is_tag(x[2], "lv", "blk", "bv", "lin"):
            a = x[1][1]
            if a == NONE or a == const(0):
                return x[2]
            if cint(a) and a[2] > 0:
                return mklin(*_lin_parts(("bin", "Add", x[2], a)))
            return x
        if (is_tag(x, "bin") and x[1] in ("Add", "Sub", "Mult")) or (is_tag(x, "un") and x[1] == "USub"):
            c, d = _lin_parts(x)
            if d == {x: 1} and c == 0:
                return x
            return mklin(c, d)
        if is_tag(x, "call") and is_tag(x[1], "ext") and x[1][1] in RND_CALLS and len(x[2]) == 1 and not x[3]:
            return ("rnd", RND_CALLS[x[1][1]], x[2][0])
        if is_tag(x, "call") and is_tag(x[1], "attr") and x[1][2] == "astype" and len(x[2]) == 1 and not x[3] and x[2][0] in INT_TYPES:
            return ("rnd", "trunc", x[1][1])
        return x
    return tmap(f, t)


def subst(t, a, b):
    return tmap(lambda x: b if x == a else x, t)


# ---------------------------------------------------------------------------------------------------------------- facts about scalars
class Facts:
    """which terms are integer scalars, and their signs; built by the caller from the launch (len(...) calls, `.size`, the `processes` of the pool)"""

    def __init__(self, nonneg_ints=(), pos_ints=()):
        self.pos = set(pos_ints)
        self.nonneg = set(nonneg_ints) | self.pos

    def is_int(self, t):
        if cint(t) or t in self.nonneg or is_tag(t, "lv", "blk", "bv"):
            return True
        if is_tag(t, "call") and t[1] == ("ext", "builtins.len"):
            return True
        if is_tag(t, "attr") and t[2] in ("size", "ndim"):
            return True
        if is_tag(t, "lin"):
            return all(self.is_int(k) for k, _ in t[2])
        if is_tag(t, "bin") and t[1] in ("Add", "Sub", "Mult", "FloorDiv", "Mod"):
            return self.is_int(t[2]) and self.is_int(t[3])
        if is_tag(t, "rnd"):
            return True
        if is_tag(t, "call") and t[1] in (("ext", "builtins.min"), ("ext", "builtins.max")) and not t[3]:
            return all(self.is_int(x) for x in t[2])
        return False

    def is_scalar(self, t):
        if self.is_int(t) or is_const(t):
            return True
        if is_tag(t, "bin"):
            return self.is_scalar(t[2]) and self.is_scalar(t[3])
        if is_tag(t, "un"):
            return self.is_scalar(t[2])
        return False

    def sign_ge0(self, t):
        """provably >= 0"""
        if is_const(t) and isinstance(t[2], (int, float)) and not isinstance(t[2], bool):
            return t[2] >= 0
        if t in self.nonneg or is_tag(t, "lv", "blk", "bv"):
            return True
        if is_tag(t, "call") and t[1] == ("ext", "builtins.len"):
            return True
        if is_tag(t, "attr") and t[2] in ("size", "ndim"):
            return True
        if is_tag(t, "lin"):
            return t[1] >= 0 and all(v > 0 and self.sign_ge0(k) for k, v in t[2])
        if is_tag(t, "bin") and t[1] in ("Add", "Mult"):
            return self.sign_ge0(t[2]) and self.sign_ge0(t[3])
        if is_tag(t, "bin") and t[1] in ("Div", "FloorDiv"):
            return self.sign_ge0(t[2]) and self.sign_gt0(t[3])
        if is_tag(t, "rnd"):
            return self.sign_ge0(t[2])
        return False

    def sign_gt0(self, t):
        if is_const(t) and isinstance(t[2], (int, float)) and not isinstance(t[2], bool):
            return t[2] > 0
        if t in self.pos:
            return True
        if is_tag(t, "lin"):
            return (t[1] > 0 and all(v > 0 and self.sign_ge0(k) for k, v in t[2])) or \
                   (t[1] >= 0 and all(v > 0 and self.sign_ge0(k) for k, v in t[2]) and any(self.sign_gt0(k) for k, v in t[2]))
        if is_tag(t, "bin") and t[1] == "Mult":
            return self.sign_gt0(t[2]) and self.sign_gt0(t[3])
        return False


# ---------------------------------------------------------------------------------------------------------------- sequences
def seq_len(E, facts):
    """number of elements of a sequence value, or None"""
    if is_tag(E, "comp"):
        return None if E[2] == NONE else norm(E[2])
    if is_tag(E, "tuple", "list"):
        return const(len(E) - 1)
    if is_tag(E, "call") and is_tag(E[1], "ext"):
        nm, a, kw = E[1][1], E[2], dict((k[1], k[2]) for k in E[3])
        if nm == "numpy.arange" and len(a) == 1 and not (set(kw) - {"dtype"}) and facts.is_int(a[0]):
            return norm(a[0])
        if nm == "numpy.arange" and len(a) == 2 and not (set(kw) - {"dtype"}) and facts.is_int(a[0]) and facts.is_int(a[1]):
            return norm(("bin", "Sub", a[1], a[0]))
        if nm == "builtins.range" and len(a) == 1:
            return norm(a[0])
        if nm == "numpy.linspace" and (len(a) == 3 or (len(a) == 2 and "num" in kw)) and not (set(kw) - {"num", "dtype", "endpoint"}):
            return norm(a[2] if len(a) == 3 else kw["num"])
        if nm in RND_CALLS and len(a) == 1:
            return seq_len(a[0], facts)
        if nm in ("builtins.list", "builtins.tuple", "numpy.array", "numpy.asarray") and len(a) == 1:
            return seq_len(a[0], facts)
        if nm == "builtins.len" and len(a) == 1:
            return None
    if is_tag(E, "call") and is_tag(E[1], "attr") and E[1][2] == "astype":
        return seq_len(E[1][1], facts)
    if is_tag(E, "rnd"):
        return seq_len(E[2], facts)
    if is_tag(E, "bin"):
        ls = [seq_len(x, facts) for x in (E[2], E[3]) if not facts.is_scalar(x)]
        if len(ls) == 1:
            return ls[0]
        if len(ls) == 2 and ls[0] is not None and ls[0] == ls[1]:
            return ls[0]
        return None
    if is_tag(E, "idx") and len(E[2]) == 1 and is_tag(E[2][0], "slice"):
        n = seq_len(E[1], facts)
        lo, hi, st = E[2][0][1:]
        if n is None or st not in (NONE, const(1)):
            return None
        drop = 0
        if cint(lo) and lo[2] >= 0:
            drop += lo[2]
        elif lo != NONE:
            return None
        if cint(hi) and hi[2] < 0:
            drop += -hi[2]
        elif hi != NONE:
            return None
        return norm(("bin", "Sub", n, const(drop)))
    return None


def length_of(t, facts):
    """number of iterations described by a count term of the simulator (len(...) calls, min of several)"""
    t = norm(t)
    if is_tag(t, "call") and t[1] == ("ext", "builtins.len") and len(t[2]) == 1:
        return seq_len(t[2][0], facts)
    if is_tag(t, "min"):
        ls = [length_of(x, facts) for x in t[1:]]
        if all(x is not None for x in ls) and all(x == ls[0] for x in ls):
            return ls[0]
        if all(x is not None for x in ls):
            parts = [_lin_parts(x) for x in ls]
            if all(d == parts[0][1] for _, d in parts):
                return mklin(min(c for c, _ in parts), parts[0][1])      # zip stops at the shortest
        return None
    return t


def elt(E, i, facts):
    """element i (0 <= i < len) of a sequence value; None when E is not a sequence this algebra knows"""
    if is_tag(E, "comp"):
        top = max([x[1] for x in subterms(E[1]) if is_tag(x, "bv")], default=None)
        if top is None:
            return E[1]
        return norm(subst(E[1], ("bv", top), i))
    if is_tag(E, "tuple", "list") and cint(i) and -(len(E) - 1) <= i[2] < len(E) - 1:
        return E[1:][i[2]]
    if is_tag(E, "idx") and len(E[2]) == 1:
        it = E[2][0]
        if is_tag(it, "slice") and it[3] in (NONE, const(1)):
            lo = it[1]
            if lo == NONE or lo == const(0):
                return elt(E[1], i, facts)
            if cint(lo) and lo[2] > 0:
                return elt(E[1], norm(("bin", "Add", i, lo)), facts)
        return None
    if is_tag(E, "call") and is_tag(E[1], "ext"):
        nm, a, kw = E[1][1], E[2], dict((k[1], k[2]) for k in E[3])
        if nm in ("numpy.arange", "builtins.range") and len(a) == 1 and not (set(kw) - {"dtype"}) and facts.is_int(a[0]):
            return i
        if nm in ("numpy.arange", "builtins.range") and len(a) == 2 and not (set(kw) - {"dtype"}) and facts.is_int(a[0]) and facts.is_int(a[1]):
            return norm(("bin", "Add", a[0], i))
        if nm == "numpy.linspace" and (len(a) == 3 or (len(a) == 2 and "num" in kw)) and kw.get("endpoint", ("c", "bool", True)) == ("c", "bool", True):
            m = norm(a[2] if len(a) == 3 else kw["num"])
            v = ("lsp", norm(a[0]), norm(a[1]), m, i)
            if "dtype" in kw and kw["dtype"] in INT_TYPES:
                v = ("rnd", "trunc", v)
            elif "dtype" in kw:
                return None
            return v
        if nm in RND_CALLS and len(a) == 1 and not kw:
            x = elt(a[0], i, facts) if not facts.is_scalar(a[0]) else a[0]
            return None if x is None else ("rnd", RND_CALLS[nm], x)
        if nm in ("builtins.list", "builtins.tuple", "numpy.array", "numpy.asarray") and len(a) == 1 and not kw:
            return elt(a[0], i, facts)
        return None
    if is_tag(E, "call") and is_tag(E[1], "attr") and E[1][2] == "astype" and len(E[2]) == 1 and not E[3]:
        x = elt(E[1][1], i, facts)
        if x is None or E[2][0] not in INT_TYPES:
            return None
        return ("rnd", "trunc", x)
    if is_tag(E, "rnd"):
        x = elt(E[2], i, facts)
        return None if x is None else ("rnd", E[1], x)
    if is_tag(E, "bin"):
        ops = []
        for x in (E[2], E[3]):
            if facts.is_scalar(x):
                ops.append(x)
            else:
                y = elt(x, i, facts)
                if y is None:
                    return None
                ops.append(y)
        return ("bin", E[1], ops[0], ops[1])
    return None


def expand(t, facts):
    """replace `E[i]` (scalar i) by the element of the sequence E wherever E is a sequence this algebra knows"""
    def f(x):
        if is_tag(x, "idx") and len(x[2]) == 1 and not is_tag(x[2][0], "slice", "slice2", "subslice"):
            e = elt(x[1], x[2][0], facts)
            if e is not None:
                return e
        return x
    prev = None
    n = 0
    while prev != t and n < 8:
        prev, n = t, n + 1
        t = norm(tmap(f, t))
    return t


class Block:
    """what is known about a block launch"""

    def __init__(self, F, lv, blk, ntasks, processes):
        pos = [] if processes in (None, NONE) or is_const(processes) else [norm(processes)]
        self.facts = Facts(pos_ints=pos)
        self.lv, self.blk = lv, blk
        self.F = F                                     # start of block number lv
        self.start = subst(F, lv, blk)
        self.stop = subst(expand(norm(subst(F, lv, norm(("bin", "Add", lv, const(1))))), self.facts), lv, blk)
        self.n = None if ntasks is None else length_of(ntasks, self.facts)
        self.Fx = expand(F, self.facts)
        self.F0 = simp(expand(subst(F, lv, const(0)), self.facts), self.facts)
        self.Fn = None if self.n is None else simp(expand(subst(F, lv, self.n), self.facts), self.facts)
        self.mono = monotone(self.Fx, lv, self.facts)
        self.used = 0

    def span(self):
        if self.Fn is None:
            return ("s", "<end of the last block>")
        if self.F0 == const(0):
            return self.Fn
        return norm(("bin", "Sub", self.Fn, self.F0))


# ---------------------------------------------------------------------------------------------------------------- exact simplification
def simp(t, facts):
    """exact rewriting only: integer arithmetic, x*0, 0/x, 0//x, (a*b)//a, endpoints of linspace, rounding of an integer"""
    def f(x):
        if is_tag(x, "bin"):
            op, a, b = x[1], x[2], x[3]
            if op == "Mult":
                if a == const(0) or b == const(0):
                    return const(0)
                if a == const(1):
                    return b
                if b == const(1):
                    return a
            if op in ("Div", "FloorDiv") and a == const(0) and facts.sign_gt0(b):
                return const(0)
            if op == "FloorDiv" and b == const(1) and facts.is_int(a):
                return a
            if op == "FloorDiv" and facts.is_int(a) and facts.is_int(b) and facts.sign_gt0(b):
                # (p * b) // b == p  for integers, b > 0
                for p, q in _factor_pairs(a):
                    if q == b:
                        return p
            if op in ("Add", "Sub", "Mult"):
                c, d = _lin_parts(x)
                if not (d == {x: 1} and c == 0):
                    return mklin(c, d)
        if is_tag(x, "lin"):
            return mklin(*_lin_parts(("bin", "Add", const(x[1]), _sum_terms(x[2]))))
        if is_tag(x, "lsp"):
            a, b, m, i = x[1:]
            if i == const(0):
                return a
            if norm(("bin", "Sub", m, i)) == const(1):
                return b                    # numpy.linspace puts `stop` itself into the last element
        if is_tag(x, "rnd") and facts.is_int(x[2]):
            return x[2]
        if is_tag(x, "rnd") and exact(x[2], facts):
            rv = real_value(x[2])
            if rv is not None and facts.is_int(rv):
                return rv               # computed without rounding error and an integer: nothing is cut off
        if is_tag(x, "rnd") and x[1] == "round":
            # a product / quotient chain is within a few ulp of its exact value: rounding to nearest recovers an integer exact value
            # (magnitudes far below 2**52)
            rv = real_value(x[2])
            if rv is not None and facts.is_int(rv):
                return rv
        if is_tag(x, "rnd") and is_const(x[2]) and x[2][2] == 0:
            return const(0)
        return x
    prev = None
    while prev != t:
        prev = t
        t = tmap(f, t)
    return t


def _sum_terms(pairs):
    t = const(0)
    for k, v in pairs:
        t = ("bin", "Add", t, k if v == 1 else ("bin", "Mult", const(v), k))
    return t


def _factor_pairs(a):
    """(p, q) with a == p * q structurally"""
    out = []
    if is_tag(a, "bin") and a[1] == "Mult":
        out += [(a[2], a[3]), (a[3], a[2])]
    if is_tag(a, "lin") and a[1] == 0 and len(a[2]) == 1:
        k, v = a[2][0]
        out.append((const(v), k))
        for p, q in _factor_pairs(k):
            out.append((p if v == 1 else ("lin", 0, ((p, v),)), q))
    return out


def real_value(t):
    """the value in exact real arithmetic (roundings dropped, quotients cancelled): monomials only; None when t is not a monomial"""
    def mono(x):
        if is_tag(x, "rnd"):
            return mono(x[2])
        if is_tag(x, "lsp"):
            return None
        if is_tag(x, "bin") and x[1] in ("Mult", "Div", "FloorDiv"):
            a, b = mono(x[2]), mono(x[3])
            if a is None or b is None or x[1] == "FloorDiv":
                return None
            s = 1 if x[1] == "Mult" else -1
            c = a[0] * (b[0] ** s) if (s == 1 or b[0] != 0) else None
            if c is None:
                return None
            d = dict(a[1])
            for k, v in b[1].items():
                d[k] = d.get(k, 0) + s * v
            return c, {k: v for k, v in d.items() if v != 0}
        if is_tag(x, "lin") and x[1] == 0 and len(x[2]) == 1:
            k, v = x[2][0]
            m = mono(k)
            return None if m is None else (m[0] * v, m[1])
        if is_const(x) and isinstance(x[2], (int, float)) and not isinstance(x[2], bool):
            from fractions import Fraction
            return Fraction(x[2]), {}
        if is_tag(x, "bin", "lin"):
            return None
        return 1, {x: 1}
    m = mono(t)
    if m is None:
        return None
    c, d = m
    if not d:
        return const(int(c)) if c == int(c) else None
    if c == 1 and len(d) == 1 and next(iter(d.values())) == 1:
        return next(iter(d))
    return ("mono", str(c), tuple(sorted(d.items(), key=repr)))


def exact(t, facts):
    """is t computed without rounding error?  integers combined by + - * stay exact (far below 2**53); one correctly rounded division of exact
    integers is exact when the quotient is an integer (the divisor cancels); everything computed from an inexact value is inexact"""
    if facts.is_int(t) and not is_tag(t, "bin", "lin", "rnd"):
        return True
    if is_const(t):
        return isinstance(t[2], int)
    if is_tag(t, "lin"):
        return all(exact(k, facts) and facts.is_int(k) for k, _ in t[2])
    if is_tag(t, "bin") and t[1] in ("Add", "Sub", "Mult", "FloorDiv", "Mod"):
        return all(exact(x, facts) and facts.is_int(x) for x in t[2:])
    if is_tag(t, "bin") and t[1] == "Div":
        if not all(exact(x, facts) and facts.is_int(x) for x in t[2:]):
            return False
        rv = real_value(t)
        return rv is not None and facts.is_int(rv) and not is_tag(rv, "mono")
    if is_tag(t, "rnd"):
        return exact(t[2], facts)
    return False


def fragile(t, expected, facts):
    """t contains the truncation (floor / ceil / int) of a float value that reaches `expected` only in exact real arithmetic, through a true
    division by something that is not a constant -> text describing it, else None"""
    for x in subterms(t):
        if is_tag(x, "rnd") and x[1] in ("trunc", "floor", "ceil") and not facts.is_int(x[2]) and not exact(x[2], facts):
            divs = [y for y in subterms(x[2]) if is_tag(y, "bin") and y[1] == "Div" and not is_const(y[3])]
            if divs and real_value(subst(t, x, x[2])) == expected and real_value(x[2]) is not None:
                return (f"{x[1]}({show(x[2])[:160]}) equals {show(expected)[:60]} only in exact arithmetic: the quotient {show(divs[0])[:80]} is rounded, the "
                        f"product can come out just {'below' if x[1] != 'ceil' else 'above'} the integer and is then cut to "
                        f"{show(expected)[:40]} {'- 1' if x[1] != 'ceil' else '+ 1'}")
    return None


# ---------------------------------------------------------------------------------------------------------------- monotonicity
def monotone(t, k, facts):
    """is t non-decreasing in the integer k >= 0 ?  True / None (not proved)"""
    if not contains(t, k):
        return True
    if t == k:
        return True
    if is_tag(t, "lin"):
        return True if all((v > 0 and monotone(x, k, facts)) or not contains(x, k) for x, v in t[2]) else None
    if is_tag(t, "rnd"):
        return monotone(t[2], k, facts)
    if is_tag(t, "bin"):
        op, a, b = t[1], t[2], t[3]
        if op == "Add":
            return True if monotone(a, k, facts) and monotone(b, k, facts) else None
        if op == "Sub" and not contains(b, k):
            return monotone(a, k, facts)
        if op == "Mult":
            for x, y in ((a, b), (b, a)):
                if not contains(y, k) and facts.sign_ge0(y):
                    return monotone(x, k, facts)
            if facts.sign_ge0(a) and facts.sign_ge0(b) and monotone(a, k, facts) and monotone(b, k, facts):
                return True
            return None
        if op in ("Div", "FloorDiv") and not contains(b, k) and facts.sign_gt0(b):
            return monotone(a, k, facts)
        return None
    if is_tag(t, "lsp"):
        a, b, m, i = t[1:]
        if contains(a, k) or contains(b, k) or contains(m, k):
            return None
        le = simp(norm(("bin", "Sub", b, a)), facts)
        return True if facts.sign_ge0(le) and monotone(i, k, facts) else None
    if is_tag(t, "call") and t[1] in (("ext", "builtins.min"), ("ext", "builtins.max")) and not t[3]:
        return True if all(monotone(x, k, facts) for x in t[2]) else None
    return None


# ---------------------------------------------------------------------------------------------------------------- recognition
def find_block(elem, lv, processes=None):
    """elem: the generic task element (snapshot), lv: its index symbol.  -> (path of start, path of stop, F) where F is the start term as a
    function of lv and stop == F(lv + 1); None when the element holds no such pair"""
    pos = [] if processes in (None, NONE) or is_const(processes) else [norm(processes)]
    facts = Facts(pos_ints=pos)

    def walk(t, path):
        if is_tag(t, "tuple", "list"):
            els = t[1:]
            for i in range(len(els) - 1):
                a, b = expand(norm(els[i]), facts), expand(norm(els[i + 1]), facts)
                if a != lv and contains(a, lv) and b == expand(norm(subst(a, lv, norm(("bin", "Add", lv, const(1))))), facts):
                    return path + (i,), path + (i + 1,), a
            for i, e in enumerate(els):
                r = walk(e, path + (i,))
                if r is not None:
                    return r
        return None
    return walk(elem, ())
