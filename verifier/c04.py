"""C04 -- OUTPUT4 write -> read identity (partial claim; two known findings).

Every rule compares *values*: what a writer emits for a generic matrix (one generic column, one generic string of non-zeros; evaluated
by verifier/c04_sem.py on symbols, following helpers, nested functions, generators) with what the matching loader recovers from exactly
those records (verifier/c04_lab.py).  Nothing depends on how op4.py spells or arranges the computation.

Two safety nets keep "the evaluation could not follow the code" apart from "the code is wrong" (pass 3): the evaluator records a *lowering gap*
whenever it skips or drops something (c04_sem.World.gap) and `guarded` turns every failure derived from a world with a gap into "not decided" (exit
2, the gaps are named); statements that provably raise on the evaluated path (unbound local, undefined name, arithmetic on a text) and reads that
cut what the writer emitted are `Bad` values - violations - and what the evaluator cannot follow after one of them is a consequence, not a gap."""
from __future__ import annotations

import ast
import re

from . import e2_formula as F
from . import op4_model as M
from . import c04_sem as S
from . import c04_fmt as FM
from .c04_lab import lab, WRITERS, data_base, slice_start
from .c04_txt import Fld, Lit, Txt, is_bad, is_rat, atom_id, sym_name, strconst, const_int, single_atom
from .core import AnchorError, Unsupported
from .e1_srcmodel import dotted, walk_no_nested
from .e2_eval import is_unknown
from .sem import unfn

OP4 = M.OP4
STRUCT_RANGE = {"i": (-(2 ** 31), 2 ** 31 - 1), "q": (-(2 ** 63), 2 ** 63 - 1), "I": (0, 2 ** 32 - 1), "Q": (0, 2 ** 64 - 1), "l": (-(2 ** 31), 2 ** 31 - 1)}
ENCS = ("ascii", "binary")
LAYOUTS = ("dense", "bigmat", "nonbigmat")
# the two input scenarios every writer is evaluated for: a complex ndarray, a real scipy.sparse matrix (the (m, i, j, v) tuple of _ensure_2d_dp)
SCEN = (("ndarray", True), ("sparse", False))
BASE = 1 << M.SHIFT


def same(a, b):
    return S.same_value(a, b)


def judge(ctx, got, want, instance, where, detail=None, key=None):
    """got == want ; a Bad value is a provable disagreement (fail), an Unknown one an analysis error"""
    if is_bad(got):
        ctx.fail(instance, where, got.why, key=key)
        return False
    if got is None or is_unknown(got) or (isinstance(got, tuple) and any(is_unknown(x) for x in got)):
        bad = [x for x in (got if isinstance(got, tuple) else [got]) if is_bad(x)]
        if bad:
            ctx.fail(instance, where, bad[0].why, key=key)
            return False
        ctx.error(instance, where, repr(got)[:300])
        return False
    ok = same(got, want)
    if not ok and detail is None:
        detail = {"got": repr(got)[:300], "expected": repr(want)[:300]}
        note = lossy_note(got)
        if note:
            detail["witness"] = note
    ctx.check(ok, instance, where, None if ok else detail, key=key)
    return ok


def lossy_note(v):
    """a value that kept `x mod 2^k` / `x // 2^k` of a field whose range leaves [0, 2^k) (c04_sem._intop keeps the exact residue only then):
    the smallest field value that is decoded wrongly"""
    vals = list(v) if isinstance(v, tuple) else [v]
    for x in vals:
        if not is_rat(x):
            continue
        for a in x.n.atoms():
            d = F.atom_desc(a)
            if d[0] == "fn" and d[1] in ("mod", "floordiv"):
                u = unfn(F.Rat(F.Poly.atom(a)))
                if u and len(u[1]) == 2 and const_int(u[1][1]) is not None:
                    m = const_int(u[1][1])
                    return (f"the field `{u[1][0]!r}` takes values up to the row count of the layout but only {m.bit_length() - 1} bits of it are "
                            f"{'kept by the mask' if d[1] == 'mod' else 'dropped by the shift'}: the value {m} decodes as "
                            f"{0 if d[1] == 'mod' else 'one unit of the neighbouring field'}")
    return None


def truth_of(ev, v):
    """three-valued truth of a value in the bounds of a run (a comparison that would need a finer regime is simply undecided here)"""
    try:
        return ev.truth(v)
    except S.NeedSplit:
        return None


def scen_txt(kind, cplx):
    return f"{'complex' if cplx else 'real'} {kind} input"


def first_regime(runs):
    for r in runs:
        if not r.raised:
            return r
    return None


def wfn(ctx, enc, layout):
    return S.func_of(ctx, "OP4." + WRITERS[(enc, layout)])


# ---------------------------------------------------------------------------------------------------------------------- R1
def ascii_header_parts(run):
    """the matrix header line of an ASCII writer run -> dict(fields=[cols, rows, form, mtype, name Fld], perline, numlen, digits (values), marker)"""
    if run.header is None:
        return None
    pieces = list(run.header.txt.p)
    flds = [p for p in pieces if isinstance(p, Fld)]
    if len(flds) < 8:
        return None
    head, tail = flds[:5], flds[5:8]
    # the literal text between the name field and the end
    i5 = pieces.index(flds[4])
    lits = [p.s for p in pieces[i5 + 1:] if isinstance(p, Lit)]
    ann = "".join("#" if isinstance(p, Fld) else p.s for p in pieces[i5 + 1:])
    return dict(fields=head, perline=tail[0].v, numlen=tail[1].v, digits=tail[2].v, ann=ann, lits=lits, tailflds=tail)


def r1_ascii_field(ctx):
    L = lab(ctx)
    init = L.init_fn
    ctx.scope(L.init_W)
    expd = L.state.get("self._expdigits")
    want = len("%.1E" % 1.2) - ("%.1E" % 1.2).find("E") - 2
    if expd is None or is_unknown(expd) or const_int(expd) is None:
        ctx.error("OP4.__init__: self._expdigits is a constant expression", init, repr(expd))
        return
    ctx.check(const_int(expd) == want, f"OP4.__init__: _expdigits ({const_int(expd)}) is the number of exponent digits Python prints for an E format ({want})", init)
    digits = F.sym("digits")
    seen_f1 = False
    for layout in LAYOUTS:
        fn = wfn(ctx, "ascii", layout)
        run = first_regime(L.writer("ascii", layout))
        ctx.scope(run.W if run is not None else None)
        hp = ascii_header_parts(run) if run is not None else None
        if hp is None:
            ctx.error(f"{fn.name}: matrix header line", fn, repr(run.header if run else None)[:200])
            continue
        numlen, ndig, perline = hp["numlen"], hp["digits"], hp["perline"]
        # every value is printed in an E field of exactly the announced width and digits
        data = [f for l in run.lines if l.is_data for f in l.txt.fields()]
        ok = bool(data) and all(f.conv in ("E", "e") and same(f.width, numlen) and same(f.prec, ndig) for f in data)
        if not data:
            ctx.error(f"{fn.name}: lines of printed values", fn, repr(run.lines[:4])[:300])
            continue
        ctx.check(ok, f"{fn.name}: every value is printed as %<numlen>.<digits>E with the field width and digits the header announces", fn,
                  None if ok else [repr(f)[:120] for f in data[:3]])
        if layout == "dense":
            ok = same(ndig, digits)
            ctx.check(ok, "_write_ascii_header: the announced number of digits is the `digits` argument", fn, None if ok else repr(ndig))
            # widest rendering of %W.PE over finite doubles: sign + d + . + P + E + sign + 3 exponent digits
            widest = digits + 8
            d = numlen - widest if is_rat(numlen) else None
            ok = d is not None and d.is_const() and d.const_value() >= 0
            seen_f1 = True
            ctx.check(ok, "_write_ascii_header: the announced field width `numlen` holds the widest value (negative, three-digit exponent: digits + 8 characters)",
                      S.func_of(ctx, "OP4._write_ascii_header"),
                      None if ok else {"numlen": repr(numlen), "widest": repr(widest),
                                       "witness": "[[-1.5e-150, 2], [3, 4]] written with binary=False: the value takes numlen + 1 characters and fuses with its neighbour"},
                      key="C04-R1|OP4._write_ascii_header|numlen < digits + 8")
            # "perline = 80 // numlen" (lines of at most 80 columns) is a convention of the format, not a necessary condition of the round trip: the
            # loader takes perline from the announcement, whatever it is.  Recorded when it holds, never reported (pass 3).  What is necessary - the
            # announced perline is an integer the loader can parse back - is part of the header round trip below (int() of a quotient is a misread)
            if is_rat(perline) and is_rat(numlen) and same(perline, F.fn("floordiv", F.const(80), numlen)):
                ctx.ok("_write_ascii_header: perline = 80 // numlen (a line never exceeds 80 columns)", fn, nontrivial=False)
        # the loader recovers perline and numlen from the announcement and cuts lines of perline * numlen characters
        lr = L.load(run)
        ctx.scope(run.W, lr.W)
        if not lr.block or lr.put is None:
            bad = lr.bads()
            if bad:
                ctx.fail(f"_loadop4_ascii ({layout}): perline and numlen are parsed back from the announcement", S.func_of(ctx, "OP4._loadop4_ascii"), bad[0])
            else:
                ctx.error(f"_loadop4_ascii ({layout}): block read / store call", S.func_of(ctx, "OP4._loadop4_ascii"))
            continue
        blk = lr.block[0][1]
        got = (blk[2], blk[3], lr.put[1][5]) if len(blk) >= 4 and len(lr.put[1]) >= 6 else None
        judge(ctx, got, (perline, perline * numlen, numlen),
              f"_loadop4_ascii ({layout}): perline and numlen are parsed back from the announcement and linelen = perline * numlen", lr.block[0][3])
    if not seen_f1:
        ctx.error("_write_ascii_header: numlen", None)


# ---------------------------------------------------------------------------------------------------------------------- R2
def digits_of(n):
    return len(str(int(n)))


def r2_headers(ctx):
    L = lab(ctx)
    name, form = F.sym("name"), F.sym("form")
    # ---- ASCII: one obligation per (layout, regime of rows): the loader recovers the dimensions, form, type and name the writer printed
    for layout in LAYOUTS:
        fn = wfn(ctx, "ascii", layout)
        runs = [r for r in L.writer("ascii", layout) if not r.raised]
        if not runs:
            ctx.error(f"{fn.name}: no admissible regime", fn)
            continue
        for run in runs:
            ctx.scope(run.W)
            hp = ascii_header_parts(run)
            if hp is None:
                ctx.error(f"{fn.name}: matrix header line ({run.regime()})", fn)
                continue
            f5 = hp["fields"]
            neg = layout == "bigmat" or (layout == "nonbigmat" and run.rows[0] >= (L.rows4() or BASE))
            want_rows = -S.ROWS if neg else S.ROWS
            ok = same(f5[0].v, S.COLS) and same(f5[1].v, want_rows) and same(f5[2].v, form) and f5[4].kind() == "str" \
                and is_rat(f5[4].v) and f5[4].v.depends_on("name") and is_rat(f5[3].v) and const_int(f5[3].v) == (4 if run.cplx else 2)
            ctx.check(ok, f"{fn.name} ({run.regime()}): header fields are cols, {'-rows (bigmat flag)' if neg else 'rows'}, form, mtype, name in that order", run.header.node,
                      None if ok else [repr(f)[:80] for f in f5])
            # the fields hold their values: |rows| up to the top of the regime (with the bigmat minus sign), cols + 1 (sentinel) up to 8 digits
            w = [const_int(f.width) if f.width is not None else None for f in f5]
            top = run.rows[1]
            need_rows = (digits_of(top) + (1 if neg else 0)) if top is not None else None
            ok = all(x is not None for x in w) and need_rows is not None and w[1] >= need_rows and w[0] >= 8
            inst = (f"{fn.name} ({run.regime()}): the header integer fields are wide enough for every admissible dimension"
                    f"{' including the minus sign of the bigmat flag' if neg else ''}")
            if need_rows is None or any(x is None for x in w):
                # no upper end of the regime (the refusal of too large a matrix was not seen) or a width that is not a constant: not decided
                ctx.error(inst, run.header.node, {"widths": w, "largest admissible row count": top})
            else:
                ctx.check(ok, inst, run.header.node, None if ok else {"widths": w, "needed for rows": need_rows})
            lr = L.load(run)
            ctx.scope(run.W, lr.W)
            got = None
            if isinstance(lr.ret, tuple) and len(lr.ret) == 4 and lr.init is not None:
                got = (lr.init[1][0], lr.init[1][1], lr.ret[2], lr.ret[3]) if len(lr.init[1]) >= 2 else None
            if got is None and lr.bads():
                got = S.Bad(lr.bads()[0])
            judge(ctx, got, (S.ROWS, S.COLS, form, F.const(4 if run.cplx else 2)),
                  f"_loadop4_ascii <- {fn.name} ({run.regime()}): the loader slices the columns the writer fills: |rows|, cols, form and type are recovered",
                  S.func_of(ctx, "OP4._loadop4_ascii"))
            nm = lr.ret[0] if isinstance(lr.ret, tuple) and lr.ret else None
            try:
                nmv = S.wrap(nm) if nm is not None else None
            except Unsupported:
                nmv = None
            ok = nmv is not None and nmv.depends_on("name") and not nmv.depends_on("ROWS") and not nmv.depends_on("form")
            if is_bad(nm):
                ctx.fail(f"_loadop4_ascii <- {fn.name} ({run.regime()}): the name is read from the name field", S.func_of(ctx, "OP4._loadop4_ascii"), nm.why)
            elif nm is None or is_unknown(nm):
                ctx.error(f"_loadop4_ascii <- {fn.name} ({run.regime()}): the name is read from the name field", S.func_of(ctx, "OP4._loadop4_ascii"), repr(nm)[:200])
            else:
                ctx.check(ok, f"_loadop4_ascii <- {fn.name} ({run.regime()}): the name is read from the name field", S.func_of(ctx, "OP4._loadop4_ascii"),
                          None if ok else repr(nm)[:200])
    # ---- binary header
    for layout in LAYOUTS:
        fn = wfn(ctx, "binary", layout)
        runs = [r for r in L.writer("binary", layout) if not r.raised]
        if not runs:
            ctx.error(f"{fn.name}: no admissible regime", fn)
            continue
        for run in runs:
            ctx.scope(run.W)
            neg = layout == "bigmat" or (layout == "nonbigmat" and run.rows[0] >= (L.rows4() or BASE))
            h = run.header
            ok = h is not None and len(h.items) == 7 and [{"l": "i"}.get(it.code, it.code) for it in h.items] == ["i"] * 5 + ["s", "i"] \
                and const_int(h.items[5].count) == 8
            if ok:
                v = h.vals()
                nmf = v[5]
                ok = const_int(v[0]) == 24 and const_int(v[6]) == 24 and same(v[1], S.COLS) and same(v[2], -S.ROWS if neg else S.ROWS) and same(v[3], form) \
                    and const_int(v[4]) == (4 if run.cplx else 2) and isinstance(nmf, Txt) and len(nmf.p) == 1 and isinstance(nmf.p[0], Fld) \
                    and const_int(nmf.p[0].width) == 8 and nmf.p[0].eff_align() == "<" and is_rat(nmf.p[0].v) and nmf.p[0].v.depends_on("name")
            ctx.check(ok, f"{fn.name} ({run.regime()}): first record is (24 | cols, {'-rows' if neg else 'rows'}, form, mtype, name padded to 8 bytes | 24)",
                      h.node if h is not None else fn, None if ok else repr(h)[:300])
            lr = L.load(run)
            ctx.scope(run.W, lr.W)
            got = None
            if isinstance(lr.ret, tuple) and len(lr.ret) == 4 and lr.init is not None and len(lr.init[1]) >= 2:
                got = (lr.init[1][0], lr.init[1][1], lr.ret[2], lr.ret[3])
            if got is None and lr.bads():
                got = S.Bad(lr.bads()[0])
            judge(ctx, got, (S.ROWS, S.COLS, form, F.const(4 if run.cplx else 2)),
                  f"_loadop4_binary <- {fn.name} ({run.regime()}): the loader unpacks the record the writer packs: |rows|, cols, form and type are recovered",
                  S.func_of(ctx, "OP4._loadop4_binary"))
            nm = lr.ret[0] if isinstance(lr.ret, tuple) and lr.ret else None
            try:
                nmv = S.wrap(nm) if nm is not None else None
            except Unsupported:
                nmv = None
            ok = nmv is not None and nmv.depends_on("name") and not nmv.depends_on("ROWS")
            if is_bad(nm):
                ctx.fail(f"_loadop4_binary <- {fn.name} ({run.regime()}): the name is the 8 bytes that follow", S.func_of(ctx, "OP4._loadop4_binary"), nm.why)
            elif nm is None or is_unknown(nm):
                ctx.error(f"_loadop4_binary <- {fn.name} ({run.regime()}): the name is the 8 bytes that follow", S.func_of(ctx, "OP4._loadop4_binary"), repr(nm)[:200])
            else:
                ctx.check(ok, f"_loadop4_binary <- {fn.name} ({run.regime()}): the name is the 8 bytes that follow", S.func_of(ctx, "OP4._loadop4_binary"),
                          None if ok else repr(nm)[:200])


# ---------------------------------------------------------------------------------------------------------------------- R3
def string_words(run):
    """4-byte words one string occupies: (header words, data words) as values"""
    if run.binary:
        hw = sum((it.nbytes() for it in run.strhdr.items), F.const(0)) / 4
        dw = run.data.items[0].nbytes() / 4 if run.data is not None else None
        return hw, dw
    return F.const(len(run.strhdr.ints)), None


def r3_string_headers(ctx):
    L = lab(ctx)
    for enc in ENCS:
        for layout in LAYOUTS:
            fn = wfn(ctx, enc, layout)
            rdq = f"OP4._rd_{layout}_{enc}"
            rdfn = S.func_of(ctx, rdq)
            for kind, cplx in SCEN:
                tag = f"{fn.name} [{scen_txt(kind, cplx)}]"
                run = first_regime(L.writer(enc, layout, kind, cplx))
                ctx.scope(run.W if run is not None else None)
                for _n, why, where in (run.W.crashes if run is not None else ()):
                    ctx.fail(f"{tag}: every statement on the writer's path can be carried out", where, why)
                if run is None or run.colhdr is None or run.col is None:
                    ctx.error(f"{tag}: column header record", fn, repr(run.colhdr if run else None)[:200])
                    continue
                mult = F.const(2 if cplx else 1)
                ch = run.colhdr_vals()
                off = 1 if run.binary else 0          # binary column header starts with the record length
                n_expected = 4 if run.binary else 3
                if len(ch) != n_expected or any(not is_rat(x) for x in ch):
                    ctx.check(False, f"{tag}: column header has {n_expected} integer fields", run.colhdr.node, repr(ch)[:200])
                    continue
                judge(ctx, ch[off], run.col + 1, f"{tag}: column header announces column + 1 (1-based)", run.colhdr.node)
                lr = L.load(run)
                bad = lr.bads()
                if layout == "dense":
                    # ---- dense column: (column + 1, first row + 1, number of words/values) + values + [record length]
                    first = ch[off + 1] - 1
                    cnt = ch[off + 2]
                    if run.binary:
                        d = run.data
                        ok = d is not None and len(d.items) == 1 and d.items[0].code == "d"
                        if d is None:
                            # no block of values among the records.  Reals packed one at a time (which the cutter does not assemble): not decided;
                            # no reals at all besides the sentinel's: the values are not written
                            if loose_reals(run):
                                ctx.error(f"{tag}: the block of packed values of a column", run.colhdr.node, repr(getattr(run, "items", None))[:300])
                            else:
                                ctx.fail(f"{tag}: the column's values are packed as doubles", run.colhdr.node, "no values are packed between the column header and its trailer")
                            continue
                        ctx.check(ok, f"{tag}: the column's values are packed as doubles", d.node, None if ok else repr(d.items)[:200])
                        if not ok:
                            continue
                        nreal = d.items[0].count
                        arr = d.items[0].value
                        judge(ctx, cnt, 2 * nreal, f"{tag}: column header announces 2 words per packed double", run.colhdr.node)
                        judge(ctx, ch[0], 12 + 8 * nreal, f"{tag}: record length = 3 header words + 8 bytes per double", run.colhdr.node)
                        tr = run.coltrail
                        judge(ctx, tr.vals()[0] if tr is not None and len(tr.items) == 1 else None, ch[0], f"{tag}: the record ends with the same record length", tr.node if tr else run.colhdr.node)
                        judge(ctx, ev_len(run, arr), nreal, f"{tag}: the struct format counts exactly the reals of the slice it packs", d.node)
                    else:
                        dl = [f for l in run.data for f in l.txt.fields()]
                        arr = data_base(dl[0].v) if dl else None
                        nreal = cnt
                        if arr is None:
                            ctx.error(f"{tag}: printed values", run.colhdr.node)
                            continue
                        judge(ctx, ev_len(run, arr), nreal, f"{tag}: column header announces the number of reals of the slice that is printed", run.colhdr.node)
                    sl = slice_start(arr)
                    if run.flag_min is not None:
                        ok = run.flag_min >= 1
                        ctx.check(ok, f"{tag}: the first-row field is positive for every first row >= 0 (the loader recognises the dense layout by it)", run.colhdr.node,
                                  None if ok else {"field": repr(ch[off + 1]), "minimum": str(run.flag_min),
                                                   "witness": "a column whose first non-zero is in row 0 is read as a sparse column"})
                    if sl is not None:
                        judge(ctx, first, sl, f"{tag}: column header announces (first row + 1) of the rows that are written", run.colhdr.node)
                    else:
                        ctx.check(atom_id(first) is not None or is_rat(first), f"{tag}: column header announces (first row + 1)", run.colhdr.node, nontrivial=False)
                    ctx.scope(run.W, lr.W)
                    if lr.put is None:
                        if bad:
                            ctx.fail(f"{rdfn.name} <- {tag}: the column is stored", rdfn, bad[0])
                        else:
                            ctx.error(f"{rdfn.name} <- {tag}: store call", rdfn, repr(lr.W.undecided[:3]))
                        continue
                    pa = lr.put[1]
                    judge(ctx, (pa[1], pa[2]), (first, run.col), f"{rdfn.name} <- {tag}: converts the 1-based first row and column back to 0-based", lr.put[3])
                    if run.binary:
                        judge(ctx, unseq(pa[3]), arr, f"{rdfn.name} <- {tag}: reads exactly the doubles the writer packed", lr.put[3])
                    else:
                        judge(ctx, pa[4], nreal, f"{rdfn.name} <- {tag}: reads the announced number of reals", lr.put[3])
                else:
                    # ---- sparse layouts: column header (column + 1, 0, nwords); strings (header word(s), values)
                    hi2 = run.ev.rng(ch[off + 1])[1]
                    ctx.check(hi2 is not None and hi2 <= 0, f"{tag}: column header's second field is never positive (the loader tells a sparse layout by it)", run.colhdr.node,
                              None if (hi2 is not None and hi2 <= 0) else repr(ch[off + 1])[:120])
                    if run.strhdr is None or run.r0 is None:
                        ctx.error(f"{tag}: string header record", fn)
                        continue
                    r0, r1 = run.r0, run.r1
                    Lw = 2 * r1 * mult
                    sh = run.strhdr_vals()
                    if layout == "nonbigmat":
                        ok = len(sh) == 1
                        ctx.check(ok, f"{tag}: one header word per string", run.strhdr.node, None if ok else repr(sh)[:200])
                        if not ok:
                            continue
                        judge(ctx, sh[0], (r0 + 1) + (Lw + 1) * BASE, f"{tag}: string header IS = (first row + 1) + (L + 1) * 2^16 with L = 2 * length * multiplier words",
                              run.strhdr.node)
                        hwords = 1
                    else:
                        ok = len(sh) == 2
                        ctx.check(ok, f"{tag}: two header words per string", run.strhdr.node, None if ok else repr(sh)[:200])
                        if not ok:
                            continue
                        judge(ctx, (sh[0], sh[1]), (Lw + 1, r0 + 1), f"{tag}: string header is (L + 1, first row + 1) with L = 2 * length * multiplier words", run.strhdr.node)
                        hwords = 2
                    if run.binary:
                        d = run.data
                        ok = d is not None and len(d.items) == 1 and d.items[0].code == "d"
                        if d is None:
                            if loose_reals(run):
                                ctx.error(f"{tag}: the block of packed values of a string", run.strhdr.node, repr(getattr(run, "items", None))[:300])
                            else:
                                ctx.fail(f"{tag}: the string's values are packed as doubles", run.strhdr.node, "no values are packed after the string header")
                            continue
                        ctx.check(ok, f"{tag}: the string's values are packed as doubles", d.node, None if ok else repr(d.items)[:200])
                        if not ok:
                            continue
                        judge(ctx, d.items[0].count, r1 * mult, f"{tag}: length * multiplier doubles are packed per string (the L // 2 the header announces)", d.node)
                        judge(ctx, ev_len(run, d.items[0].value), r1 * mult, f"{tag}: the struct format counts exactly the reals of the string it packs", d.node)
                        arr = d.items[0].value
                    else:
                        dl = [f for l in run.data for f in l.txt.fields()]
                        arr = data_base(dl[0].v) if dl else None
                        if arr is not None:
                            judge(ctx, ev_len(run, arr), r1 * mult, f"{tag}: the printed string holds length * multiplier reals (the L // 2 the header announces)", run.strhdr.node)
                    # declared word count = what the strings occupy = what the reader subtracts
                    per = F.const(hwords) + Lw
                    nw = ch[off + 2]
                    sp = split_nwords(nw)
                    if sp is None:
                        # a formula in the recognised quantities only (number of strings, sum of their lengths) that has another shape is wrong;
                        # anything else is a spelling the rule does not know
                        it = run.str_iter
                        known = set()
                        if is_rat(it):
                            sl = F.fn("slice", S.NONE, S.NONE, S.NONE)
                            for v in (F.fn("len", it), F.fn("call:sum", F.fn("idx", it, F.fn("tuple", sl, F.const(1))))):
                                known.add(atom_id(v))
                        if is_rat(nw) and known and (nw.n.atoms() | nw.d.atoms()) <= known:
                            ctx.fail(f"{tag}: declared nwords = {hwords} header word(s) per string + 2 words per double", run.colhdr.node, repr(nw)[:300])
                        else:
                            ctx.error(f"{tag}: declared nwords is a combination of the number of strings and the sum of their lengths", run.colhdr.node, repr(nw)[:300])
                    else:
                        ok = sp[0] == hwords and sp[1] == 2 * (2 if cplx else 1)
                        ctx.check(ok, f"{tag}: declared nwords = {hwords} header word(s) per string + 2 words per double", run.colhdr.node,
                                  None if ok else {"per string": str(sp[0]), "per unit of length": str(sp[1])})
                        it = run.str_iter
                        ok = is_rat(it) and depends_any(it, sp[2])
                        ctx.check(ok, f"{tag}: the strings written are the rows of the table the word count is computed from", run.strhdr.node,
                                  None if ok else repr(it)[:200], nontrivial=False)
                    if run.binary:
                        judge(ctx, ch[0], (3 + nw) * 4, f"{tag}: record length = (3 header words + nwords) * 4 bytes", run.colhdr.node)
                        tr = run.coltrail
                        judge(ctx, tr.vals()[0] if tr is not None and len(tr.items) == 1 else None, ch[0], f"{tag}: the record ends with the same record length",
                              tr.node if tr else run.colhdr.node)
                        hw, dw = string_words(run)
                        judge(ctx, hw + dw, per, f"{tag}: a string occupies L + {hwords} words ({hwords} header + 2 per double)", run.strhdr.node)
                    # ---- reader
                    ctx.scope(run.W, lr.W)
                    if lr.put is None:
                        if bad:
                            ctx.fail(f"{rdfn.name} <- {tag}: decodes the string header the writer produces", rdfn, bad[0], key=f"C04-R3|{rdq}|decode")
                        else:
                            ctx.error(f"{rdfn.name} <- {tag}: store call", rdfn, repr([(ast.unparse(getattr(n, 'test', n))[:40]) for n, _v, _q in lr.W.undecided[:3]]))
                        continue
                    pa = lr.put[1]
                    judge(ctx, pa[1], r0, f"{rdfn.name} <- {tag}: decode(encode) recovers the first row of the string (0-based)", lr.put[3], key=f"C04-R3|{rdq}|decode")
                    judge(ctx, pa[2], run.col, f"{rdfn.name} <- {tag}: the string goes to the announced column (0-based)", lr.put[3])
                    if run.binary:
                        judge(ctx, unseq(pa[3]), arr, f"{rdfn.name} <- {tag}: reads length * multiplier doubles (what the writer packed)", lr.put[3])
                    else:
                        judge(ctx, pa[4], r1 * mult, f"{rdfn.name} <- {tag}: reads L // 2 = length * multiplier reals (what the writer printed)", lr.put[3])
                    # consumption: the inner loop's counter drops by the words of the string
                    inner = [(n, b, a) for n, b, a, _q in lr.W.whiles if is_rat(b) and is_rat(a) and depends_any(b, nw) and n is not None]
                    dec = None
                    for n, b, a in inner:
                        ub, ua = unfn(b), unfn(a)
                        if ub and ua and ub[0] == ua[0] and ub[0].startswith("cmp:") and same(ub[1][1], ua[1][1]) and same(ub[1][0], nw):
                            dec = ub[1][0] - ua[1][0]
                            node = n
                            btest = b
                        elif ub and ua and ub[0] == ua[0] and ub[0].startswith("cmp:") and same(ub[1][0], ua[1][0]) and same(ub[1][1], nw):
                            dec = ub[1][1] - ua[1][1]
                            node = n
                            btest = b
                    if dec is None:
                        ctx.error(f"{rdfn.name} <- {tag}: word counter of the string loop", rdfn, repr(inner)[:300])
                    else:
                        judge(ctx, dec, per, f"{rdfn.name} <- {tag}: each string consumes L + {hwords} words of the column's word count", node)
                        # the loop runs while words remain and stops when the count reaches zero
                        for a_id in (nw.n.atoms() if sp is not None else ()):
                            lr.W.bounds.setdefault(a_id, (1, None))
                        t_more = truth_of(lr.ev, btest)
                        ub = unfn(btest)
                        at_zero = None
                        if ub and ub[0].startswith("cmp:") and len(ub[1]) == 2:
                            l0, r0_ = [F.const(0) if same(x, nw) else x for x in ub[1]]
                            at_zero = truth_of(lr.ev, F.fn(ub[0], l0, r0_))
                        ok = t_more is True and at_zero is False
                        ctx.check(ok, f"{rdfn.name} <- {tag}: strings are read while words remain and the loop stops when the count reaches zero", node,
                                  None if ok else {"test": repr(btest)[:160], "with words left": t_more, "at zero": at_zero})
                # ---- both: the sentinel column and the loop that stops at it
                ctx.scope(run.W)
                sv = None
                if run.sentinel is not None:
                    sv = run.sentinel.vals() if run.binary else [f.v for f in run.sentinel.ints]
                want = [F.const(20), S.COLS + 1, F.const(1), F.const(2)] if run.binary else [S.COLS + 1, F.const(1), F.const(1)]
                ok = sv is not None and len(sv) == len(want) and all(same(x, y) for x, y in zip(sv, want))
                if ok and run.binary:
                    ok = run.sent_data is not None and len(run.sent_data.items) == 1 and run.sent_data.items[0].code == "d" and not run.sent_data.items[0].run \
                        and run.sent_trail is not None and len(run.sent_trail.items) == 1 and const_int(run.sent_trail.items[0].value) == 20
                elif ok:
                    ok = run.sent_data is not None and len(run.sent_data.txt.fields()) == 1
                ctx.check(ok, f"{tag}: terminates the matrix with the sentinel column cols + 1 holding one value", run.sentinel.node if run.sentinel is not None else fn,
                          None if ok else repr(sv)[:200])
                ctx.scope(run.W, lr.W)
                lp = lr.loops(run.col)
                if not lp:
                    if bad:
                        ctx.fail(f"{rdfn.name} <- {tag}: reads columns until the sentinel", rdfn, bad[0])
                    else:
                        ctx.error(f"{rdfn.name} <- {tag}: column loop", rdfn)
                else:
                    n, b, a = lp[0]
                    t0 = truth_of(lr.ev, b)
                    t1 = truth_of(lr.ev, a) if a is not None else None
                    ok = t0 is True and t1 is False
                    if ok and is_rat(a):
                        # the column number taken from the next (here: the sentinel) header is 0-based like the first one
                        ok = sym_name(run.col) is not None and same(a, b.subs({sym_name(run.col): S.COLS}))
                    if is_bad(a) or is_bad(b):
                        ctx.fail(f"{rdfn.name} <- {tag}: reads columns until the sentinel (continues for a column below cols, stops at cols + 1)", n, (a if is_bad(a) else b).why)
                    else:
                        ctx.check(ok, f"{rdfn.name} <- {tag}: reads columns until the sentinel (continues for a column below cols, stops at cols + 1)", n,
                                  None if ok else {"test for a data column": repr(b)[:120], "test after the sentinel header": repr(a)[:120]})
                ok = not lr.left and not bad
                ctx.check(ok, f"{'_loadop4_' + enc} <- {tag}: the loader consumes exactly the records the writer emitted (column, string, record marks, sentinel)",
                          S.func_of(ctx, "OP4._loadop4_" + enc), None if ok else {"not consumed": repr(lr.left)[:300], "misread": bad[:2]})
                # the same round trip in every other regime of the row count (layout switch, header width): records consumed, row and column recovered
                for other in L.writer(enc, layout, kind, cplx):
                    if other is run or other.raised:
                        continue
                    lo = L.load(other)
                    ctx.scope(other.W, lo.W)
                    obad = lo.bads()
                    first = None
                    if other.r0 is not None:
                        first = other.r0
                    elif other.colhdr is not None:
                        v = other.colhdr_vals()
                        k = 2 if other.binary else 1
                        first = v[k] - 1 if v and len(v) > k and is_rat(v[k]) else None
                    ok = not lo.left and not obad and lo.put is not None and first is not None and same(lo.put[1][1], first) and same(lo.put[1][2], other.col)
                    if not ok and not obad and (lo.put is None or first is None or any(is_unknown(x) and not is_bad(x) for x in lo.put[1][1:3])):
                        ctx.error(f"{'_loadop4_' + enc} <- {tag}, {other.regime()}: store call of the reader", S.func_of(ctx, "OP4._loadop4_" + enc),
                                  repr([ast.unparse(getattr(n, "test", n))[:50] for n, _v, _q in lo.W.undecided[:3]]))
                        continue
                    ctx.check(ok, f"{'_loadop4_' + enc} <- {tag}, {other.regime()}: the loader selects the reader of the layout that was written, consumes exactly "
                                  "the records emitted and recovers first row and column", S.func_of(ctx, "OP4._loadop4_" + enc),
                              None if ok else {"not consumed": repr(lo.left)[:200], "misread": obad[:2], "store": repr(lo.put[1][1:3])[:200] if lo.put else None})


def loose_reals(run):
    """does the binary trace hold reals packed one at a time (apart from the sentinel's single value)?"""
    sent = set(id(it) for it in (run.sent_data.items if run.sent_data is not None else ()))
    return any(it.code in "dfeg" and not it.run and id(it) not in sent for it in getattr(run, "items", ()))


def depends_any(v, w):
    """does value v mention one of the atoms of w"""
    if not is_rat(v) or not is_rat(w):
        return False
    for a in w.n.atoms():
        if v.n.depends_on(a) or v.d.depends_on(a):
            return True
    return False


def unseq(v):
    """(seq(x),) / seq(x) -> x"""
    if isinstance(v, tuple) and len(v) == 1:
        v = v[0]
    u = unfn(v) if is_rat(v) else None
    if u and u[0] == "seq" and u[1]:
        return u[1][0]
    return v


def ev_len(run, arr):
    if not is_rat(arr):
        return None
    return run.ev.len_of(arr)


def split_nwords(nw):
    """declared word count = a * len(IND) + b * sum(IND[:, 1]) with IND the (start, length) table of the column's strings -> (a, b, IND) or None"""
    if not is_rat(nw) or not nw.d.is_const():
        return None
    sc = 1 / nw.d.const_value()
    a = b = ind = None
    sums = []
    for m, c in nw.n.t.items():
        if m == () or len(m) != 1 or m[0][1] != 1:
            return None
        d = F.atom_desc(m[0][0])
        if d[0] != "fn":
            return None
        v = F.Rat(F.Poly.atom(m[0][0]))
        u = unfn(v)
        if u[0] == "len" and len(u[1]) == 1 and a is None:
            a, ind = c * sc, u[1][0]
        elif u[0] == "call:sum" and len(u[1]) == 1:
            sums.append((c * sc, u[1][0]))
        else:
            return None
    if ind is None or len(sums) != 1:
        return None
    sl = F.fn("slice", S.NONE, S.NONE, S.NONE)
    if not same(sums[0][1], F.fn("idx", ind, F.fn("tuple", sl, F.const(1)))):
        return None
    return a, sums[0][0], ind


# ---------------------------------------------------------------------------------------------------------------------- R4
def boundary_sites(ctx, L, rows4):
    """every comparison (evaluated anywhere in the writer / loader / skipper runs) of a row count with the bigmat limit: value - limit, with the
    limit a constant within one of `rows4`.  Returns [(node, op, coefficient of the row count, constant, function, side)]"""
    sites = {}
    worlds = []
    for enc in ENCS:
        for layout in LAYOUTS:
            for kind, cplx in SCEN:
                for run in L.writer(enc, layout, kind, cplx):
                    worlds.append((run.W, "writer"))
                    if not run.raised:
                        worlds.append((L.load(run).W, "loader"))
    # the skipper, evaluated on its own parameters
    W = S.base_world(ctx, L.state, rows=(None, None), split_rows=False)
    W.opaque |= {"_skipop4_binary"}
    try:
        S.run_method(W, "self._skipop4_ascii", {"perline": F.sym("perline"), "rows": F.sym("rows"), "cols": F.sym("cols"), "mtype": F.sym("mtype")})
    except S.NeedSplit:
        pass
    worlds.append((W, "skipper"))
    for W, origin in worlds:
        for node, op, a, b, q in W.compares:
            if not (is_rat(a) and is_rat(b)) or op not in ("Lt", "LtE", "Gt", "GtE", "Eq", "NotEq"):
                continue
            d = a - b
            if not d.d.is_const():
                continue
            sc = 1 / d.d.const_value()
            terms = [(m, c * sc) for m, c in d.n.t.items() if m != ()]
            k = d.n.t.get((), 0) * sc
            if len(terms) != 1 or len(terms[0][0]) != 1 or terms[0][0][0][1] != 1 or abs(terms[0][1]) != 1:
                continue
            cx = terms[0][1]
            # value - limit (or limit - value): the constant has the sign opposite to the value and is the limit give or take one
            if cx * k >= 0 or abs(abs(k) - rows4) > 1:
                continue
            if id(node) not in sites:
                sites[id(node)] = (node, op, cx, k, q, origin, W)
    return list(sites.values())


def r4_ranges_and_dispatch(ctx):
    L = lab(ctx)
    rows4 = L.rows4()
    ctx.check(rows4 is not None and rows4 <= BASE, "the nonbigmat writers switch to the bigmat layout no later than at 2^16 rows, the base used to pack the "
                                                    "nonbigmat string header (the row number of a string must stay below it)", L.init_fn, rows4)
    if rows4 is None or rows4 > BASE:
        rows4 = BASE
    # every comparison against _rows4bigmat puts the boundary between 65535 and 65536 rows
    sites = boundary_sites(ctx, L, rows4)
    nsite = 0
    origins = set()
    for node, op, cx, k, q, origin, W_ in sorted(sites, key=lambda s: (s[4], getattr(s[0], "lineno", 0))):
        ctx.scope(W_)

        def truth(x, cx=cx, k=k, op=op):
            val = cx * x + k
            return {"Lt": val < 0, "LtE": val <= 0, "Gt": val > 0, "GtE": val >= 0, "Eq": val == 0, "NotEq": val != 0}.get(op)
        lo, hi = truth(rows4 - 1), truth(rows4)
        ok = lo is not None and lo != hi
        nsite += 1
        origins.add(origin)
        fname = q.split(".")[-1] if q else "?"
        ctx.check(ok, f"{fname}: layout switches to bigmat at rows >= {rows4} (writers, loaders and skipper must agree on the boundary)", node,
                  None if ok else f"`{ast.unparse(node)[:80]}`: a matrix with exactly {rows4} rows would be written in one layout and read in the other",
                  key=f"C04-R4|{q}|bigmat boundary")
    ctx.scope()
    ok = origins >= {"writer", "loader", "skipper"}
    if ok:
        ctx.ok("bigmat boundary rule bound to comparisons on the writer, the loader and the skipper side", OP4 + ":1", nontrivial=False)
    else:
        # a side on which no comparison with the limit was met: the rule did not bind there (an evaluation that went astray, or a layout test
        # spelled in a way the rule does not recognise) - not decided, never a violation
        ctx.error("bigmat boundary rule bound to comparisons on the writer, the loader and the skipper side", OP4 + ":1",
                  {"comparisons": nsite, "sides": sorted(origins)})
    # packed ranges: IS into the struct code it is packed with
    worst = None
    code = None
    node = None
    f2_worlds = []
    for kind, cplx in SCEN:
        for run in L.writer("binary", "nonbigmat", kind, cplx):
            f2_worlds.append(run.W)
            if run.raised or run.strhdr is None or run.r0 is None or len(run.strhdr.items) != 1 or run.rows[1] is None or run.rows[1] >= rows4:
                continue
            it = run.strhdr.items[0]
            IS = it.value
            # domain: 0 <= r0 <= rows - 2 when a string of r1 rows follows ... the bound used: r0 <= rows4 - 2, r1 <= rows4 - 1
            a0, a1 = atom_id(run.r0), atom_id(run.r1)
            if a0 is None or a1 is None or not is_rat(IS):
                continue
            saved = {a: run.W.bounds.get(a) for a in (a0, a1)}
            run.W.bounds[a0], run.W.bounds[a1] = (0, rows4 - 2), (1, rows4 - 1)
            try:
                hi = run.ev.rng(IS)[1]
            finally:
                for a, b in saved.items():
                    if b is None:
                        run.W.bounds.pop(a, None)
                    else:
                        run.W.bounds[a] = b
            if hi is not None and (worst is None or hi > worst):
                worst, code, node = int(hi), it.code, run.strhdr.node
    fnw = wfn(ctx, "binary", "nonbigmat")
    ctx.scope(*f2_worlds)
    if worst is None or code not in STRUCT_RANGE:
        ctx.error("_write_binary_nonbigmat: packed IS / struct code", fnw, f"{worst} {code}")
    else:
        ok = worst <= STRUCT_RANGE[code][1]
        ctx.check(ok, f"_write_binary_nonbigmat: the packed header IS fits the struct code '{code}' for every string the layout allows "
                      "(any length up to rows < 65536)", node,
                  None if ok else {"max IS": worst, "limit": STRUCT_RANGE[code][1],
                                   "witness": "a 20000 x 1 dense column with 16384 leading non-zeros, sparse='nonbigmat': L + 1 = 32769 -> IS >= 2^31 -> struct.error; "
                                              "Nastran splits such strings, the writer does not"},
                  key="C04-R4|OP4._write_binary_nonbigmat|IS overflows 'i'")
    # ascii nonbigmat: IS is alone on its line and read back as a whole line
    run = first_regime(L.writer("ascii", "nonbigmat"))
    ctx.scope(run.W if run is not None else None)
    ok = run is not None and run.strhdr is not None and len(run.strhdr.ints) == 1 and len(run.strhdr.txt.fields()) == 1
    ctx.check(ok, "_write_ascii_nonbigmat: IS is written alone on its line and parsed with int(line)", wfn(ctx, "ascii", "nonbigmat"), nontrivial=False)
    # dimension limits: a dimension that does not fit its header field is refused before anything is written
    gi = S.func_of(ctx, "OP4._get_header_info")
    for enc, rmax, cmax in (("ascii", 99999999, 99999998), ("binary", 2147483647, 2147483647)):
        res = {}
        lim_worlds = []
        for label, rows, cols in (("rows at the limit", (rmax, rmax), (1, 1)), ("rows above the limit", (rmax + 1, rmax + 1), (1, 1)),
                                  ("cols at the limit", (1, 1), (cmax, cmax)), ("cols above the limit", (1, 1), (cmax + 1, cmax + 1))):
            W = S.base_world(ctx, L.state, rows=rows, cols=cols, split_rows=False)
            lim_worlds.append(W)
            env = {"f": F.sym("f"), "name": F.sym("name"), "matrix": W.matrix, "fmt": F.sym("digits" if enc == "ascii" else "endian"), "form": F.sym("form")}
            try:
                S.run_method(W, "self." + WRITERS[(enc, "dense")], env)
                res[label] = (bool(W.raises), len(W.emits), [q for _n, q in W.raises])
            except S.NeedSplit as e:
                res[label] = ("undecided", str(e), [])
        ctx.scope(*lim_worlds)
        if any(v[0] == "undecided" for v in res.values()):
            ctx.error(f"{enc} writers: dimension limits (a comparison of the dimensions is not decided at the limit)", gi, res)
            continue
        ok = res["rows above the limit"][0] is True and res["cols above the limit"][0] is True and res["rows above the limit"][1] == 0 and res["cols above the limit"][1] == 0
        ctx.check(ok, f"{enc} writers: dimensions above ({rmax}, {cmax}) do not fit the {'8/16-digit header fields' if enc == 'ascii' else '32-bit header fields'} "
                      "and are refused before anything is written", gi, None if ok else res)
        ok = res["rows at the limit"][0] is False and res["cols at the limit"][0] is False
        ctx.check(ok, f"{enc} writers: dimensions up to ({rmax}, {cmax}) are accepted", gi, None if ok else res, nontrivial=False)


# ---------------------------------------------------------------------------------------------------------------------- R7
def r7_input_canonical(ctx):
    L = lab(ctx)
    # ---- _ensure_2d_dp, sparse arm
    fn = S.func_of(ctx, "_ensure_2d_dp")
    W = S.World(ctx)
    W.opaque |= S.OPAQUE
    W.value_oracle = S.std_oracle("sparse", False, {"issparse": True})
    ctx.scope(W)
    ev = S.run_func(W, fn, [F.sym("m")], "_ensure_2d_dp")
    ret = ev.returns[-1][0] if ev.returns else None
    if not isinstance(ret, tuple) or len(ret) != 4 or any(is_unknown(x) for x in ret):
        ctx.error("_ensure_2d_dp: the sparse arm returns (matrix, rows, cols, values)", fn, repr(ret)[:300])
    else:
        trip = ret[1:]
        vals = trip[2]
        u = unfn(vals)
        inner = u[1][0] if u and u[0] in ("call:_ensure_dp",) and u[1] else None
        ok = inner is not None
        ctx.check(ok, "_ensure_2d_dp: values are converted to double precision (the only types the writers emit)", ev.returns[-1][1], None if ok else repr(vals)[:200])
        src = [trip[0], trip[1], inner if inner is not None else vals]
        verdict, why = triplet_source(src, W)
        if verdict is None:
            ctx.error("_ensure_2d_dp: source of the (row, col, value) triplets", ev.returns[-1][1], why)
        else:
            ctx.check(verdict, "_ensure_2d_dp: sparse input is reduced to duplicate-free (row, col, value) triplets (scipy.sparse.find sums repeated entries); "
                               "the writers place each triplet once and dense reads would otherwise overwrite instead of accumulate", ev.returns[-1][1],
                      None if verdict else why)
        ok = same(ret[0], F.sym("m"))
        ctx.check(ok, "_ensure_2d_dp: the tuple carries the matrix itself first (its shape sizes the header)", ev.returns[-1][1], nontrivial=False)
    # ---- _ensure_dp
    DOUBLE = {"np.float64", "float", "np.double", "np.float_", "numpy.float64", "'float64'", "'f8'", "'d'", "'float'"}
    CDOUBLE = {"np.complex128", "complex", "np.cdouble", "np.complex_", "numpy.complex128", "'complex128'", "'c16'", "'D'", "'complex'"}
    NARROW = {"np.float32", "np.float16", "np.single", "np.half", "np.complex64", "np.csingle", "np.int32", "np.int64", "int", "np.longdouble", "np.clongdouble",
              "'float32'", "'f4'", "'f'", "'complex64'", "'c8'", "'F'"}
    dp = S.func_of(ctx, "_ensure_dp")
    for cplx in (True, False):
        for already in (True, False):
            target = "np.complex128" if cplx else "np.float64"

            def oracle(v, e, cplx=cplx, already=already, target=target):
                u = unfn(v)
                if not u:
                    return None
                if u[0] == "call:np.iscomplexobj":
                    return cplx
                if u[0] in ("cmp:Eq", "cmp:NotEq") and len(u[1]) == 2:
                    a, b = u[1]
                    for x, y in ((a, b), (b, a)):
                        ux = unfn(x)
                        if ux and ux[0] == "attr:dtype" and sym_name(y) in (DOUBLE | CDOUBLE | NARROW):
                            # a dtype name the rule knows.  Input that already is double precision: equal exactly to the names of its own type.
                            # Input that is not: different from both double-precision types, and possibly equal to any other one (not decided)
                            is_t = sym_name(y) in (CDOUBLE if cplx else DOUBLE)
                            if not already and sym_name(y) in NARROW:
                                return None
                            eq = already and is_t
                            return eq if u[0] == "cmp:Eq" else not eq
                return None
            W = S.World(ctx)
            W.value_oracle = oracle
            ctx.scope(W)
            ev = S.run_func(W, dp, [F.sym("m")], "_ensure_dp")
            ret = ev.returns[-1][0] if ev.returns else None
            m = F.sym("m")
            want = []
            for nm_ in sorted(CDOUBLE if cplx else DOUBLE):
                want += [F.fn("call:.astype", m, F.sym(nm_)), F.fn("call:.astype", m, F.fn("kw:dtype", F.sym(nm_)))]
            if already:
                want = [m] + want
            ok = ret is not None and not is_unknown(ret) and any(same(ret, w) for w in want)
            if ret is None or (is_unknown(ret) and not is_bad(ret)):
                ctx.error(f"_ensure_dp: {'complex' if cplx else 'real'} input, {'already' if already else 'not yet'} double precision", dp, repr(ret))
            else:
                ctx.check(ok, f"_ensure_dp: {'complex' if cplx else 'real'} input {'that already is' if already else 'that is not'} "
                              f"{'complex128' if cplx else 'float64'} -> {'returned as is (or converted again)' if already else 'converted to ' + target.split('.')[1]}", dp,
                          None if ok else repr(ret)[:200])
    # ---- _get_header_info: type and multiplier.  Whatever container the function returns (tuple, dict, ...): the components that depend on the
    # input being complex are exactly the Nastran type (4 / 2) and the reals per entry (2 / 1)
    gi = S.func_of(ctx, "OP4._get_header_info")
    flat = {}
    gi_worlds = []
    for cplx in (True, False):
        W = S.base_world(ctx, L.state, "ndarray", cplx, rows=(1, 100), split_rows=False)
        gi_worlds.append(W)
        ev = S.run_method(W, "OP4._get_header_info", {"matrix": W.matrix, "form": F.sym("form"), "is_ascii": S.FALSE})
        ret = ev.returns[-1][0] if ev.returns else None
        if isinstance(ret, tuple):
            flat[cplx] = list(ret)
        elif hasattr(ret, "d") and isinstance(getattr(ret, "d"), dict):
            flat[cplx] = [ret.d[k] for k in sorted(ret.d, key=repr)]
        else:
            flat[cplx] = None
    ctx.scope(*gi_worlds)
    for cplx in (True, False):
        inst = f"_get_header_info: {'type 4 / two doubles per entry for complex' if cplx else 'type 2 / one double per entry for real'} input"
        a, b = flat[True], flat[False]
        if a is None or b is None or len(a) != len(b) or any(is_unknown(x) for x in a + b):
            bad = [x for x in (a or []) + (b or []) if is_bad(x)]
            if bad:
                ctx.fail(inst, gi, bad[0].why)
            else:
                ctx.error(inst, gi, repr(flat[cplx])[:300])
            continue
        diff = sorted((const_int(x), const_int(y)) if is_rat(x) and is_rat(y) else (None, None) for x, y in zip(a, b) if not same(x, y))
        got = [p[0 if cplx else 1] for p in diff]
        want = [2, 4] if cplx else [1, 2]
        ok = len(diff) == 2 and got == want
        ctx.check(ok, inst, gi, None if ok else {"components that depend on the input type (complex, real)": repr(diff), "expected": "[(2, 1), (4, 2)]"})
    # ---- write dispatch: every named layout maps to its writer, for both encodings
    wr = S.func_of(ctx, "OP4.write")
    for enc in ENCS:
        for layout in LAYOUTS:
            target = WRITERS[(enc, layout)]
            W = S.World(ctx)
            W.opaque |= S.OPAQUE | set(WRITERS.values()) | {"_ensure_2d_dp"}
            truths = {"binary": enc == "binary", "=sparse": layout, "=endian": "<", "isinstance:Mapping": False}
            W.value_oracle = S.std_oracle("ndarray", True, truths)
            W.none_syms = set()
            ctx.scope(W)
            fnw = W.table["self.write"]
            ev = S.run_func(W, fnw, [F.sym(k) for k in ("filename", "names", "matrices", "binary", "digits", "endian", "sparse", "forms")], "OP4.write")
            called = []
            for c in W.calls:
                nm = c[0] if isinstance(c[0], str) else sym_name(c[0])
                if nm and nm.split(".")[-1] in WRITERS.values() and nm.split(".")[0] in ("self", "OP4", ""):
                    called.append(nm.split(".")[-1])
            called = [x for x in called]
            ok = called == [target]
            ctx.check(ok, f"write: sparse='{layout}' ({enc}) selects {target}", wr, None if ok else {"called": called})


def triplet_source(src, W):
    """are the three triplet components taken from a source that sums repeated (row, col) entries?  -> (True / False / None, explanation)"""
    bases = []
    for k, v in enumerate(src):
        u = unfn(v)
        # strip masks:  x[nz]
        base = None
        depth = 0
        while u and depth < 6:
            depth += 1
            if u[0] == "idx" and len(u[1]) == 2:
                a, ix = u[1]
                ua = unfn(a)
                if ua and ua[0] in ("call:sp.find", "call:scipy.sparse.find", "call:find") and const_int(ix) is not None:
                    base = ("find" if const_int(ix) == k else "find-misplaced", ua[1][0] if ua[1] else None)
                    break
                u = ua
                continue
            if u[0].startswith("attr:"):
                base = ("attr:" + u[0][5:], u[1][0])
                break
            break
        bases.append(base)
    if all(b is not None and b[0] == "find" for b in bases):
        return True, None
    if all(b is not None and b[0] in ("find", "find-misplaced") for b in bases):
        return False, "the (row, col, value) components of scipy.sparse.find are not passed on in that order"
    if all(b is not None and b[0].startswith("attr:") for b in bases):
        objs = [b[1] for b in bases]
        # the object the attributes are read from: was .sum_duplicates() called on it before?
        summed = any(c[0] == ".sum_duplicates" and c[1] and any(is_rat(o) and is_rat(c[1][0]) and o.equals(c[1][0]) for o in objs) for c in W.calls)
        if summed:
            return True, None
        uo = unfn(objs[0])
        if uo and uo[0] in ("call:.tocoo", "call:sp.coo_matrix", "call:.tocsr", "call:.tocsc", "call:.asformat"):
            return False, f"triplets taken from `{uo[0][5:]}` without summing duplicates (a COO / non-canonical CSR matrix keeps repeated entries)"
        return None, f"triplets read from {objs[0]!r}"
    return None, f"unrecognised triplet source {[repr(s)[:80] for s in src]}"


# ---------------------------------------------------------------------------------------------------------------------- R8
NP_RTOL, NP_ATOL = 1e-5, 1e-8          # numpy's defaults for allclose / isclose
ABS_FN = ("abs", "call:abs", "call:np.abs", "call:np.absolute", "call:np.fabs")
REDUCE_MAX = ("call:.max", "call:np.max", "call:np.amax", "call:max", "call:np.nanmax")
REDUCE_NORM = ("call:np.linalg.norm", "call:sp.linalg.norm", "call:scipy.sparse.linalg.norm", "call:spla.norm", "call:la.norm", "call:norm")
REDUCE_SUM = ("call:sum", "call:np.sum", "call:.sum")


def _fnum(v):
    """float of a constant value, else None"""
    if is_rat(v) and v.is_const():
        return float(v.const_value())
    return None


def _strip_abs(v):
    u = unfn(v) if is_rat(v) else None
    if u and u[0] in ABS_FN and len(u[1]) == 1:
        return u[1][0], True
    return v, False


def _reduction(v):
    """reduce(abs(X)) -> (kind of reduction, X) for a reduction over a whole array"""
    u = unfn(v) if is_rat(v) else None
    if not u or not u[1]:
        return None
    if u[0] in REDUCE_MAX or u[0] in REDUCE_NORM or u[0] in REDUCE_SUM:
        x, _ = _strip_abs(u[1][0])
        return ("max" if u[0] in REDUCE_MAX else "norm" if u[0] in REDUCE_NORM else "sum"), x
    return None


def _call_tols(args):
    """(a, b, rtol, atol) of np.allclose / np.isclose arguments (positional or keyword); None when a tolerance is not a constant"""
    pos, kw = [], {}
    for x in args:
        u = unfn(x)
        if u and u[0].startswith("kw:") and len(u[1]) == 1:
            kw[u[0][3:]] = u[1][0]
        else:
            pos.append(x)
    if len(pos) < 2 or len(pos) > 4 or set(kw) - {"rtol", "atol", "equal_nan"}:
        return None
    rtol = pos[2] if len(pos) > 2 else kw.get("rtol")
    atol = pos[3] if len(pos) > 3 else kw.get("atol")
    rt = NP_RTOL if rtol is None else _fnum(rtol)
    at = NP_ATOL if atol is None else _fnum(atol)
    if rt is None or at is None:
        return None
    return pos[0], pos[1], rt, at


def _affine_tol(rhs):
    """rhs = atol + rtol * R with R one atom (or no R): (atol, rtol, R value or None); None when it has another shape"""
    if not is_rat(rhs) or not rhs.d.is_const():
        return None
    sc = 1 / rhs.d.const_value()
    atol, rtol, ref = 0.0, 0.0, None
    for m, c in rhs.n.t.items():
        if m == ():
            atol = float(c * sc)
        elif len(m) == 1 and m[0][1] == 1 and ref is None:
            rtol, ref = float(c * sc), F.Rat(F.Poly.atom(m[0][0]))
        else:
            return None
    return atol, rtol, ref


def closeness_atoms(v, out):
    """a test that is a conjunction of element-wise comparisons of two arrays -> out: list of dict(kind, a, b, rtol, atol, ref)
      kind 'exact'  : a == b for every element (np.all(a == b), np.array_equal)
      kind 'elem'   : |a - b| <= atol + rtol * |b| element by element (np.allclose / np.isclose / the inequality spelled out)
      kind 'global' : reduce|a - b| <= atol + rtol * reduce|ref|: the tolerance is taken from a reduction over a whole array
    False when a part of the test is none of these"""
    u = unfn(v) if is_rat(v) else None
    if u is None:
        return False
    name, args = u
    if name == "bool:And":
        return all(closeness_atoms(x, out) for x in args)
    if name in ("call:np.all", "call:all", "call:bool") and len(args) == 1:
        return closeness_atoms(args[0], out)
    if name == "not" and len(args) == 1:
        # not np.any(a != b)  is  np.all(a == b)
        ui = unfn(args[0])
        if ui and ui[0] in ("call:np.any", "call:any") and len(ui[1]) == 1:
            uc = unfn(ui[1][0])
            if uc and uc[0] == "cmp:NotEq" and len(uc[1]) == 2:
                out.append(dict(kind="exact", a=uc[1][0], b=uc[1][1], rtol=0.0, atol=0.0, ref=None))
                return True
        return False
    if name in ("call:np.any", "call:any") and len(args) == 1:
        sub = []
        if closeness_atoms(args[0], sub) and sub:
            out.append(dict(sub[0], kind="weak", why="the comparison only has to hold for some entry (any), not for every entry of the two triangles"))
            return True
        return False
    if name == "bool:Or":
        sub = []
        if all(closeness_atoms(x, sub) for x in args) and sub:
            out.append(dict(sub[0], kind="weak", why="the comparisons are joined by `or`: one of them holding is enough to call the matrix symmetric"))
            return True
        return False
    if name == "cmp:NotEq" and len(args) == 2:
        out.append(dict(kind="weak", a=args[0], b=args[1], rtol=0.0, atol=0.0, ref=None,
                        why="the two sides are required to differ: a symmetric matrix is not called symmetric"))
        return True
    if name == "cmp:Eq" and len(args) == 2:
        out.append(dict(kind="exact", a=args[0], b=args[1], rtol=0.0, atol=0.0, ref=None))
        return True
    if name == "call:np.array_equal" and len(args) == 2:
        out.append(dict(kind="exact", a=args[0], b=args[1], rtol=0.0, atol=0.0, ref=None))
        return True
    if name in ("call:np.allclose", "call:np.isclose"):
        t = _call_tols(args)
        if t is None:
            return False
        out.append(dict(kind="elem", a=t[0], b=t[1], rtol=t[2], atol=t[3], ref=t[1]))
        return True
    if name in ("cmp:LtE", "cmp:Lt", "cmp:GtE", "cmp:Gt") and len(args) == 2:
        lhs, rhs = (args[0], args[1]) if name in ("cmp:LtE", "cmp:Lt") else (args[1], args[0])
        tol = _affine_tol(rhs)
        if tol is None:
            return False
        atol, rtol, ref = tol
        red = _reduction(lhs)
        diff, isabs = (red[1], True) if red is not None else _strip_abs(lhs)
        if not isabs or not is_rat(diff):
            return False
        # the two arrays compared: the positive and the negative part of the difference
        pos_ = F.Rat(F.Poly({m: c for m, c in diff.n.t.items() if c > 0})) / diff.d
        neg_ = F.Rat(F.Poly({m: -c for m, c in diff.n.t.items() if c < 0})) / diff.d
        if pos_.is_zero() or neg_.is_zero():
            return False
        if ref is None:
            out.append(dict(kind="global" if red is not None else "elem", a=pos_, b=neg_, rtol=0.0, atol=atol, ref=None))
            return True
        rr = _reduction(ref)
        if rr is not None:
            out.append(dict(kind="global", a=pos_, b=neg_, rtol=rtol, atol=atol, ref=rr[1], reduce=rr[0]))
            return True
        if red is None:
            x, ab = _strip_abs(ref)
            if ab and is_rat(x) and (x.equals(pos_) or x.equals(neg_)):
                out.append(dict(kind="elem", a=pos_, b=neg_, rtol=rtol, atol=atol, ref=x))
                return True
        return False
    return False


def _mirror_pair(a, b, root):
    """are the two arrays a matrix X (any value built from the symbol `root`) and its transpose?  -> 'mirror' / 'same' (X against X: the test is
    vacuous) / 'conj' (X against its conjugate transpose: a Hermitian test) / None (not recognised)"""
    if not (is_rat(a) and is_rat(b)) or not (a.depends_on(root) and b.depends_on(root)):
        return None
    if a.equals(b):
        return "same"
    for x, y in ((a, b), (b, a)):
        u = unfn(x)
        if u and u[0] == "call:.transpose" and len(u[1]) == 1:
            if u[1][0].equals(y):
                return "mirror"
            for w, z in ((u[1][0], y), (y, u[1][0])):
                uw = unfn(w)
                if uw and uw[0] in ("call:.conj", "call:.conjugate", "call:np.conj", "call:np.conjugate") and len(uw[1]) == 1 and uw[1][0].equals(z):
                    return "conj"
        if u and u[0] in ("attr:H", "call:.getH") and len(u[1]) == 1 and u[1][0].equals(y):
            return "conj"
    return None


def _mirror_check(ctx, d, root, who, rnode):
    """obligation: the arm compares the matrix with its own transpose.  Returns False when the rule cannot go on"""
    kind = _mirror_pair(d["a"], d["b"], root)
    if kind is None:
        ctx.error(f"_is_symmetric ({who} input): the matrix is compared with its own transpose", rnode, {"a": repr(d["a"])[:200], "b": repr(d["b"])[:200]})
        return False
    why = {"same": "the matrix is compared with itself: every square matrix is called symmetric (form 6)",
           "conj": "the matrix is compared with its conjugate transpose: a Hermitian, not a symmetric matrix gets form 6"}.get(kind)
    ctx.check(kind == "mirror", f"_is_symmetric ({who} input): the matrix is compared with its own transpose", rnode, why,
              key=f"C04-R8|_is_symmetric|{who} arm does not compare with the transpose")
    if d["ref"] is not None and d["kind"] == "global" and not d["ref"].depends_on(root):
        ctx.error(f"_is_symmetric ({who} input): reference magnitude of the tolerance", rnode, repr(d["ref"])[:200])
        return False
    return True


def _is_symmetric_runs(ctx):
    """_is_symmetric evaluated for the (matrix, rows, cols, values) tuple of a scipy-sparse input and for an ndarray: returned tests and early returns"""
    fn = S.func_of(ctx, "OP4._is_symmetric")
    out = {}
    for kind in ("sparse", "dense"):
        W = S.World(ctx)
        W.opaque |= S.OPAQUE - {"_is_symmetric"}

        def oracle(v, ev):
            u = unfn(v)
            if not u:
                return None
            if u[0] == "call:isinstance" and len(u[1]) == 2:
                ux = unfn(u[1][0])
                tn = sym_name(u[1][1])
                if tn == "tuple":
                    return bool(ux and ux[0] == "tuple")
                if tn in ("np.ndarray", "numpy.ndarray"):
                    return not (ux and ux[0] == "tuple")
            if u[0] in ("call:sp.issparse", "call:scipy.sparse.issparse") and len(u[1]) == 1:
                return False          # neither the tuple nor the ndarray is a scipy matrix
            if u[0] in ("cmp:Eq", "cmp:NotEq") and len(u[1]) == 2:
                # the two triangles hold the same number of entries on the path that reaches the element-wise test
                a, b = u[1]
                ua, ub = unfn(a), unfn(b)
                if ua and ub and ua[0] == ub[0] and ua[0].startswith("call:") and len(ua[1]) == len(ub[1]) == 1 and not a.equals(b):
                    return u[0] == "cmp:Eq"
            return None
        W.value_oracle = oracle
        arg = (F.sym("m0"), F.sym("r"), F.sym("c"), F.sym("v")) if kind == "sparse" else F.sym("M")
        ev = S.run_func(W, fn, [arg], "OP4._is_symmetric")
        ret = ev.returns[-1][0] if ev.returns else None
        rnode = ev.returns[-1][1] if ev.returns else fn
        out[kind] = (ret, rnode, list(ev.alts), W)
    return fn, out


def fold_ways_out(ret, alts):
    """The value a function returns as one test.  `if not A: return False` (or `return A`) in front of `return REST` is `A and REST`, exactly
    (Python's `and` returns the falsy operand): such early returns are folded into the final test, last one first.  Early returns of another
    shape (`return True` under a test, a value unrelated to its test) are handed back unfolded.  -> (test, [unfolded values])"""
    res, loose = ret, []
    for v, _pos, cond in reversed(alts):
        folded = None
        if is_rat(res) and is_rat(v) and cond is not None and is_rat(cond) and not is_unknown(res):
            keep = S.negate(cond)          # what holds on the way to the rest of the function
            try:
                if S.sym_name(v) == "False":
                    folded = F.fn("bool:And", keep, res)
                elif v.equals(keep):
                    folded = F.fn("bool:And", v, res)
            except Unsupported:
                folded = None
        if folded is None:
            loose.insert(0, v)
        else:
            res = folded
    return res, loose


def _rule_text(d):
    if d["kind"] == "exact":
        return "exact equality"
    if d["kind"] == "elem":
        return f"|a_ij - a_ji| <= {d['atol']:g} + {d['rtol']:g} * |a_ji| for every pair"
    ref = f"{d.get('reduce', 'max')} over the whole matrix" if d["ref"] is not None else "nothing"
    return f"max|a_ij - a_ji| <= {d['atol']:g} + {d['rtol']:g} * ({ref})"


def _weak(ctx, atoms, who, rnode):
    """a comparison that does not quantify over every pair of mirror entries (any / or / !=): reported, the rule stops there"""
    bad = [d for d in atoms if d["kind"] == "weak"]
    for d in bad:
        ctx.fail(f"_is_symmetric ({who} input): the matrix is called symmetric only if every pair of mirror entries agrees", rnode,
                 {"reason": d["why"], "left": repr(d["a"])[:200], "right": repr(d["b"])[:200]}, key=f"C04-R8|_is_symmetric|{who} arm: not a test over every pair")
    return bool(bad)


def _sparse_rule(ctx, ret, rnode):
    """one way out of the sparse arm (a returned test) -> the closeness rule it applies to the values of a pair of mirror entries (None when
    the rule cannot go on: the reason has been recorded).  Emits the mirror-symmetry obligations of that test."""
    atoms = []
    if ret is None or is_unknown(ret) or isinstance(ret, tuple) or not is_rat(ret) or not closeness_atoms(ret, atoms) or not atoms:
        ctx.error("_is_symmetric (sparse input): the test is a conjunction of element-wise comparisons", rnode, repr(ret)[:300])
        return None
    if _weak(ctx, atoms, "sparse", rnode):
        return None
    R, C = F.sym("r"), F.sym("c")
    triplet = [d for d in atoms if any(is_rat(d[k]) and (d[k].depends_on("r") or d[k].depends_on("c") or d[k].depends_on("v")) for k in ("a", "b"))]
    whole = [d for d in atoms if d not in triplet]
    if triplet and not whole:
        # ---- (1) mirror symmetry of the compared pairs
        if len(triplet) < 3:
            ctx.error("_is_symmetric: rows, columns and values of the two triangles are compared", rnode, repr(ret)[:300])
            return None
        for d in triplet:
            a, b = d["a"], d["b"]
            at = a.subs({"r": F.sym("__t")}).subs({"c": R}).subs({"__t": C})      # transposition: r <-> c
            ok = at.equals(b)
            knd = "==" if d["kind"] == "exact" else "np.allclose"
            ctx.check(ok, "_is_symmetric: each compared pair is mirror-symmetric - transposing (rows <-> columns) the lower-triangle side gives exactly the "
                          "upper-triangle side, sort order included", rnode,
                      None if ok else {"left": repr(a)[:300], "left transposed": repr(at)[:300], "right": repr(b)[:300]},
                      key=f"C04-R8|_is_symmetric|{knd} pair not mirror-symmetric")
        kinds = {}
        for d in triplet:
            u = unfn(d["a"])
            if u and u[0] == "idx":
                base = unfn(u[1][0])
                if base and base[0] == "idx":
                    kinds[repr(base[1][0])] = d
        ctx.check(set(kinds) == {"r", "c", "v"}, "_is_symmetric: rows, columns and values of the two triangles are all compared", rnode, sorted(kinds))
        for nm in ("r", "c"):
            d = kinds.get(nm)
            if d is not None and d["kind"] != "exact":
                ctx.check(False, "_is_symmetric: the positions of the two triangles are compared exactly", rnode, _rule_text(d))
        if kinds.get("v") is None:
            ctx.error("_is_symmetric (sparse input): comparison of the values of the two triangles", rnode, repr(ret)[:300])
        return kinds.get("v")
    if whole and not triplet and len(whole) == 1:
        # ---- (1') the matrix against its own transpose: the pairs are lined up by the transposition itself
        if not _mirror_check(ctx, whole[0], "m0", "sparse", rnode):
            return None
        return whole[0]
    ctx.error("_is_symmetric (sparse input): either the (row, col, value) triplets of the two triangles or the matrix and its transpose are compared", rnode,
              repr(ret)[:300])
    return None


def _symmetry_world(ctx, fn):
    """(0) `_is_symmetric` by value on a finite world of 4x4 sparse patterns (c04_sym): for the (matrix, rows, cols, values) tuple of each pattern
    the answer is `A == A.T`.  Entry order: both orders `scipy.sparse.find` has produced (column-major, row-major); a wrong answer is a violation
    only when it is given for both.  True when a violation was recorded.  Constructs outside the interpreter: no obligation (the symbolic
    comparison decides alone)."""
    from . import c04_sym as SY
    st, rows = SY.run_world(_op4_methods(ctx), fn)
    inst = "_is_symmetric (sparse input): on a finite world of 4x4 sparse patterns the answer is A == A.T (form 6 exactly for symmetric matrices)"
    if st == "stop":
        return False
    bad = [(n, e, x, g) for n, e, x, g in rows if all(a != x for a in g.values())]
    hard = [b for b in bad if all(isinstance(a, bool) for a in b[3].values())]
    half = [(n, e, x, g) for n, e, x, g in rows if any(a != x for a in g.values()) and (n, e, x, g) not in hard]
    if hard:
        n, e, x, g = hard[0]
        dense = [[e.get((i, j), 0) for j in range(4)] for i in range(4)]
        ctx.fail(inst, fn, {"pattern": n, "matrix": dense, "symmetric": x, "answer of _is_symmetric": g["column-major"],
                            "consequence": "form 6 written for an unsymmetric matrix (or form 1 for a symmetric one): the form read back differs from "
                                           "the form of the matrix that was written",
                            "other patterns answered wrongly": [b[0] for b in hard[1:]][:6]},
                 key="C04-R8|_is_symmetric|finite world of sparse patterns")
        return True
    if half:
        n, e, x, g = half[0]
        ctx.error(inst, fn, {"pattern": n, "symmetric": x, "answers by entry order": {k: (a if isinstance(a, bool) else list(a)) for k, a in g.items()}})
        return False
    ctx.ok(inst, fn, f"{len(rows)} patterns, two entry orders")
    return False


def r8_symmetry_test(ctx):
    """_is_symmetric decides form 6 when no form is given.  (1) Sparse arm on (r, c, v) triplets: every lower-triangle entry (r, c, v) is paired with
    the upper-triangle entry (c, r, v'), so the test must be invariant under transposition: swapping the roles of the row and column vectors
    maps each left-hand side of its comparisons onto the right-hand side - including the two sort orders that line the triangles up.
    (2) Sibling agreement: the same matrix handed over as an ndarray or as a scipy-sparse matrix must get the same form, so the closeness rule
    applied to a pair of mirror entries is the same in both arms: same kind (exact / element-wise tolerance / tolerance taken from a reduction
    over the whole matrix) and the same tolerances.  All decided on values (names and spelling irrelevant)."""
    fn, runs = _is_symmetric_runs(ctx)
    ctx.scope(runs["sparse"][3], runs["dense"][3])
    if _symmetry_world(ctx, fn):
        return          # a wrong answer on a concrete pattern has been reported: the symbolic comparison below has nothing to add
    # every way out of an arm: the final return and the early returns under tests the evaluation could not decide
    tests, consts = {}, {}
    for arm in ("sparse", "dense"):
        ret, rnode, alts, _W = runs[arm]
        ret, loose = fold_ways_out(ret, alts)
        vals = [ret] + loose
        consts[arm] = [v for v in vals if is_rat(v) and sym_name(v) in ("True", "False")]
        tests[arm] = [v for v in vals if not (is_rat(v) and sym_name(v) in ("True", "False"))]
        if not tests[arm]:
            ctx.error(f"_is_symmetric ({arm} input): returned test", fn, repr(vals)[:300])
            return
    rnode, rnoded = runs["sparse"][1], runs["dense"][1]
    # ---- the ndarray arm: one comparison of the matrix with its transpose
    atoms = []
    retd = tests["dense"][0]
    if len(tests["dense"]) != 1 or is_unknown(retd) or not is_rat(retd) or not closeness_atoms(retd, atoms) or len(atoms) != 1:
        ctx.error("_is_symmetric (ndarray input): one comparison of the matrix with its own transpose", rnoded, repr(tests["dense"])[:300])
        return
    vd = atoms[0]
    if _weak(ctx, atoms, "ndarray", rnoded) or not _mirror_check(ctx, vd, "M", "ndarray", rnoded):
        return
    # ---- the sparse arm, one rule per way out
    rules = []
    for v in tests["sparse"]:
        d = _sparse_rule(ctx, v, rnode)
        if d is None:
            return
        rules.append(d)
    for vals_s in rules:
        same_kind = vals_s["kind"] == vd["kind"] and (vals_s["kind"] != "global" or vals_s.get("reduce", "max") == vd.get("reduce", "max"))
        same_tol = abs(vals_s["rtol"] - vd["rtol"]) <= 1e-12 * max(abs(vd["rtol"]), 1e-300) and abs(vals_s["atol"] - vd["atol"]) <= 1e-12 * max(abs(vd["atol"]), 1e-300)
        # constant early returns under tests the rule does not interpret (`if d.nnz == 0: return True`): an early `return True` only adds matrices
        # that are called symmetric, so it cannot repair a sparse arm that is looser than its sibling (the witness below keeps its verdicts);
        # anything else is left undecided
        if consts["sparse"] or consts["dense"]:
            looser = vals_s["kind"] == "global" and vd["kind"] == "elem" and vals_s["rtol"] > 0 and vd["rtol"] < 0.5 and len(rules) == 1 \
                and all(sym_name(a) == "True" for a in consts["sparse"]) and not consts["dense"]
            if not looser:
                ctx.error("_is_symmetric: early returns the rule cannot relate to the element-wise test", fn, repr(consts)[:200])
                return
        witness = None
        if not same_kind:
            if {vals_s["kind"], vd["kind"]} == {"elem", "global"}:
                g = vals_s if vals_s["kind"] == "global" else vd
                who = "scipy-sparse" if g is vals_s else "ndarray"
                witness = (f"[[1e9, 1], [2, 1e9]]: the pair (1, 2) differs by 1 > {min(vals_s['atol'], vd['atol']):g} + {min(vals_s['rtol'], vd['rtol']):g} * 2 "
                           f"(unsymmetric, form 1) but 1 <= {g['atol']:g} + {g['rtol']:g} * 1e9: the same matrix gets form 6 as {who} input - a tolerance "
                           "relative to a reduction over the whole matrix is not an element-wise symmetry test")
            elif "exact" in (vals_s["kind"], vd["kind"]):
                witness = "[[1, 2], [2 + 1e-9, 1]]: symmetric for the arm with a tolerance, unsymmetric for the exact arm"
        elif not same_tol:
            witness = "a pair of mirror entries whose difference lies between the two tolerances gets form 6 for one input type and form 1 for the other"
        ctx.check(same_kind, "_is_symmetric: ndarray and scipy-sparse input apply the same kind of closeness rule to a pair of mirror entries (the same matrix "
                             "gets the same form whatever its container)", rnode,
                  None if same_kind else {"sparse input": _rule_text(vals_s), "ndarray input": _rule_text(vd), "witness": witness},
                  key="C04-R8|_is_symmetric|closeness rule differs between ndarray and sparse input")
        ctx.check(same_tol, "_is_symmetric: ndarray and scipy-sparse input use the same tolerances", rnode,
                  None if same_tol else {"sparse input": _rule_text(vals_s), "ndarray input": _rule_text(vd), "witness": witness},
                  key="C04-R8|_is_symmetric|tolerances differ between ndarray and sparse input")


# ---------------------------------------------------------------------------------------------------------------------- R9
def r9_no_byte_reinterpretation(ctx):
    """Binary files may be in either byte order: the loaders read numbers through struct formats / numpy dtypes that carry the file's byte
    order (`self._endian + ...`).  A value array obtained that way must never be *reinterpreted* (`.view(dtype)`, `np.frombuffer`, `.tobytes`
    round trips, `.byteswap`/`.newbyteorder` without the matching dtype change) on its way into the matrix: a native-dtype view of
    byte-swapped data yields garbage of the right shape.  Who-may rule over every function reachable from the binary loader; expected count 0."""
    mod = ctx.src.mod(OP4)
    meth = {}
    for c in reversed(S.class_chain(mod, "OP4")):
        meth.update({q.split(".", 1)[1]: f for q, f in mod.funcs.items() if q.startswith(c + ".") and q.count(".") == 1})
    free = {q: f for q, f in mod.funcs.items() if "." not in q and "#" not in q}
    seen, work = set(), ["_loadop4_binary"]
    table = dict(free)
    table.update(meth)
    while work:
        nm = work.pop()
        if nm in seen or nm not in table:
            continue
        seen.add(nm)
        for c in ast.walk(table[nm]):
            if isinstance(c, ast.Attribute) and isinstance(c.value, ast.Name) and c.value.id in ("self", "OP4") and c.attr in meth:
                work.append(c.attr)
            if isinstance(c, ast.Name) and c.id in table:
                work.append(c.id)
    n = 0
    for nm in sorted(seen):
        fn = table[nm]
        for c in ast.walk(fn):
            if not isinstance(c, ast.Call):
                continue
            d = dotted(c.func) or ""
            bad = None
            if isinstance(c.func, ast.Attribute) and c.func.attr == "view" and (c.args or c.keywords):
                bad = "`.view(dtype)` reinterprets the bytes in native order"
            elif isinstance(c.func, ast.Attribute) and c.func.attr in ("byteswap", "newbyteorder", "tobytes"):
                bad = f"`.{c.func.attr}()` on values read in the file's byte order"
            elif d in ("np.frombuffer", "numpy.frombuffer"):
                dt = c.args[1] if len(c.args) > 1 else next((k.value for k in c.keywords if k.arg == "dtype"), None)
                native = dt is None or (isinstance(dt, ast.Constant) and isinstance(dt.value, str) and dt.value[:1] not in "<>") \
                    or (dotted(dt) or "").split(".")[-1] in ("float", "complex", "int", "float64", "float32", "complex128", "complex64", "int32", "int64")
                if native:
                    bad = "`np.frombuffer` with a native dtype on bytes read in the file's byte order"
            if bad:
                n += 1
                ctx.fail("binary loaders never reinterpret the bytes of values read in the file's byte order", c,
                         f"{nm}: {bad}: `{ast.unparse(c)[:100]}` (non-native files decode to garbage of the right shape)",
                         key=f"C04-R9|{nm}|{ast.unparse(c.func)[:40]}")
    # binding of the rule itself (how many functions a loader is split into is the code's business): too few is "not bound", never a violation
    if len(seen) >= 3 and "_loadop4_binary" in seen:
        ctx.ok(f"byte-reinterpretation rule scanned {len(seen)} functions reachable from _loadop4_binary", meth.get("_loadop4_binary"), sorted(seen), nontrivial=False)
    else:
        ctx.error("byte-reinterpretation rule: functions reachable from _loadop4_binary", meth.get("_loadop4_binary"), sorted(seen))
    if not n:
        ctx.ok("binary loaders never reinterpret the bytes of values read in the file's byte order (no .view(dtype) / byteswap / frombuffer on the way "
               "into the matrix)", meth.get("_loadop4_binary"))


# --------------------------------------------------------------------------------------------------------------------- R10
INT_CODES = "bBhHiIlLqQ"


def _op4_methods(ctx):
    mod = ctx.src.mod(OP4)
    meth = {}
    for c in reversed(S.class_chain(mod, "OP4")):
        meth.update({q.split(".", 1)[1]: f for q, f in mod.funcs.items() if q.startswith(c + ".") and q.count(".") == 1})
    return meth


def _format_root(meth):
    """(root, deciders): the methods that store `self._ascii` (outside __init__) and the method that opens the file and reaches one of them"""
    def stores(fn):
        return any(isinstance(n, ast.Attribute) and isinstance(n.ctx, ast.Store) and n.attr == "_ascii" and isinstance(n.value, ast.Name) and n.value.id == "self"
                   for n in ast.walk(fn))

    def callees(fn):
        return {c.func.attr for c in ast.walk(fn) if isinstance(c, ast.Call) and isinstance(c.func, ast.Attribute) and isinstance(c.func.value, ast.Name)
                and c.func.value.id in ("self", "OP4") and c.func.attr in meth}
    deciders = sorted(nm for nm, fn in meth.items() if nm != "__init__" and stores(fn))
    roots = []
    for nm, fn in meth.items():
        if not any(isinstance(c, ast.Call) and dotted(c.func) == "open" for c in ast.walk(fn)):
            continue
        seen, work = set(), [nm]
        while work:
            x = work.pop()
            if x in seen:
                continue
            seen.add(x)
            work.extend(callees(meth[x]))
        if seen & set(deciders):
            roots.append(nm)
    return roots, deciders


def _render_ascii(run, ev):
    """[(first bytes of the header line, width of its first field)] for representatives of the fields' values; None: nothing renderable"""
    axes, parts = [], []
    total = 0
    for p in run.header.txt.p:
        if total >= 32:
            break
        if isinstance(p, Lit):
            parts.append(p.s)
            total += len(p.s)
            continue
        if not isinstance(p, Fld) or p.kind() != "int" or p.width is None or const_int(p.width) is None or not is_rat(p.v):
            break
        lo, hi = ev.rng(p.v)
        if lo is None or hi is None:
            if sym_name(p.v) == "form":
                lo, hi = 1, 9          # the matrix form codes of the OUTPUT4 format
            else:
                break
        axes.append(FM.int_reps(int(lo), int(hi), 10))
        parts.append((p, len(axes) - 1))
        total += const_int(p.width)
    if not axes:
        return None, None
    first = next((const_int(x[0].width) for x in parts if isinstance(x, tuple)), None)
    out = []
    for combo in FM.star(axes):
        s = ""
        for x in parts:
            if isinstance(x, str):
                s += x
                continue
            f, k = x
            r = Fld(F.const(combo[k]), f.conv, f.width, f.prec, f.align, f.flags).render()
            if r is None:
                return None, None
            s += r
        out.append(s.encode("ascii", "replace"))
    return out, first


def _render_binary(run, ev, order):
    axes, parts = [], []
    for it in run.header.items:
        if it.run or const_int(it.count) is None:
            break
        if it.code in INT_CODES and const_int(it.count) == 1 and is_rat(it.value):
            lo, hi = ev.rng(it.value)
            if lo is None or hi is None:
                if sym_name(it.value) == "form":
                    lo, hi = 1, 9
                else:
                    break
            axes.append(FM.int_reps(int(lo), int(hi), 256))
            parts.append((it.code, len(axes) - 1))
        elif it.code == "s":
            parts.append(b"NAME".ljust(const_int(it.count))[:const_int(it.count)])
        else:
            break
    if not axes:
        return None
    out = []
    for combo in FM.star(axes):
        b = b""
        for x in parts:
            if isinstance(x, bytes):
                b += x
                continue
            try:
                b += FM.struct.pack(order + x[0], combo[x[1]])
            except FM.struct.error:
                b = None          # out of the struct code's range: R4's business
                break
        if b is not None:
            out.append(b)
    return out


def r10_format_detection(ctx):
    """Reader / writer agreement on the format autodetection.  The reader decides from the first bytes of the file whether it is ASCII or binary
    (and, for binary, the byte order and the integer size).  Every header the ASCII writers can produce - the first line as the evaluated writer
    emits it, in every regime of the row count, hence with the 8-wide and the 16-wide integer layout - must be answered "ascii"; every first
    record of a binary writer (record length 24, either byte order) "binary" with that byte order and 32-bit integers.  The function that stores
    `self._ascii` is interpreted on concrete representatives (one per digit count / byte count of each header field): a wrong answer comes with
    the header that is misjudged."""
    L = lab(ctx)
    meth = _op4_methods(ctx)
    roots, deciders = _format_root(meth)
    where = meth.get(deciders[0]) if deciders else None
    if len(roots) != 1 or not deciders:
        ctx.error("format autodetection: one method opens the file and reaches the function that stores self._ascii", where, {"open": roots, "stores": deciders})
        return
    root = meth[roots[0]]
    cache = {}

    def decide(data):
        if data not in cache:
            m = FM.Mini(meth, data)
            try:
                m.run_until_decided(root, "_ascii", ("_endian", "_bit64"))
                cache[data] = ("ok", dict(m.attrs, __late__=m.late)) if "_ascii" in m.attrs else ("stop", "self._ascii is not set on this path")
            except FM.Raised as e:
                cache[data] = ("raise", str(e))
            except FM.Stop as e:
                cache[data] = ("stop", str(e))
        return cache[data]

    def settle(inst, worlds, datas, good, what, key, needs=()):
        """one obligation over the representatives `datas`: good(attrs) for all of them"""
        ctx.scope(*worlds)
        if not datas:
            ctx.error(inst, where, "no header could be rendered from the writer's records")
            return
        stop = None
        for d in datas:
            st, r = decide(d)
            if st == "stop":
                stop = stop or (d, r)
                continue
            if st == "ok" and needs and r.get("_ascii") is False and any(k not in r for k in needs):
                # the answer is not stored under the name the rule knows (or the interpretation ended before it was): not bound, never a verdict
                stop = stop or (d, r.get("__late__") or f"{' / '.join('self.' + k for k in needs)} not set once self._ascii is False")
                continue
            if st == "raise" or not good(r):
                ctx.fail(inst, where, {"first bytes of the file": repr(d[:16]), "answer": r if st == "raise" else {k: r.get(k) for k in ("_ascii", "_endian", "_bit64")},
                                       "expected": what}, key=key)
                return
        if stop is not None:
            ctx.error(inst, where, {"first bytes of the file": repr(stop[0][:16]), "not interpreted": stop[1]})
        else:
            ctx.ok(inst, where)

    for layout in LAYOUTS:
        fn = wfn(ctx, "ascii", layout)
        groups = {}
        for run in L.writer("ascii", layout):
            if run.raised or run.header is None:
                continue
            datas, w = _render_ascii(run, S.OP4Eval(None, run.W))
            g = groups.setdefault(w, ([], []))
            g[0].append(run.W)
            g[1].extend(datas or [])
        if not groups:
            ctx.error(f"{fn.name}: matrix header line", fn)
        for w, (worlds, datas) in sorted(groups.items(), key=lambda kv: kv[0] or 0):
            settle(f"{roots[0]} <- {fn.name}: a file that starts with the header line the writer prints ({w}-character integer fields) is recognised as ASCII",
                   worlds, datas, lambda a: a.get("_ascii") is True or (not isinstance(a.get("_ascii"), bool) and bool(a.get("_ascii"))), "_ascii = True",
                   f"C04-R10|ascii|{layout}|{w}")
    for layout in LAYOUTS:
        fn = wfn(ctx, "binary", layout)
        runs = [r for r in L.writer("binary", layout) if not r.raised and r.header is not None]
        if not runs:
            ctx.error(f"{fn.name}: first record", fn)
            continue
        for order in "<>":
            datas = []
            for run in runs:
                datas.extend(_render_binary(run, S.OP4Eval(None, run.W), order) or [])
            worlds = [r.W for r in runs]
            oname = "little" if order == "<" else "big"
            settle(f"{roots[0]} <- {fn.name}: a file that starts with the {oname}-endian first record of the writer is recognised as binary",
                   worlds, datas, lambda a: a.get("_ascii") is False, "_ascii = False", f"C04-R10|binary|{layout}|{order}")
            native = "<" if FM.sys.byteorder == "little" else ">"
            settle(f"{roots[0]} <- {fn.name}: the byte order of a {oname}-endian first record is recognised",
                   worlds, datas, lambda a: a.get("_ascii") is not False or a.get("_endian") == order or (a.get("_endian") == "=" and order == native),
                   f"_endian = {order!r}", f"C04-R10|endian|{layout}|{order}", needs=("_endian",))
            settle(f"{roots[0]} <- {fn.name}: the 4-byte integers of a {oname}-endian first record (record length 24) are recognised",
                   worlds, datas, lambda a: a.get("_ascii") is not False or ("_bit64" in a and not a["_bit64"]),
                   "_bit64 = False", f"C04-R10|bit64|{layout}|{order}", needs=("_bit64",))
    # the reader's own contract for files it did not write: a first record of 48 bytes holds 8-byte integers (files of 64-bit Nastran versions).  Not
    # something the writers produce - kept to the format decision only (one obligation per byte order)
    for order in "<>":
        oname = "little" if order == "<" else "big"
        native = "<" if FM.sys.byteorder == "little" else ">"
        datas = [FM.struct.pack(order + "i3q", 48, c, r, 6)[:32] for c, r in ((1, 1), (300, -70000), (99999998, 2 ** 31 - 1))]
        settle(f"{roots[0]}: a file that starts with a {oname}-endian record length 48 (8-byte integers) is recognised as binary, {oname}-endian, 64-bit",
               (), datas, lambda a: a.get("_ascii") is False and (a.get("_endian") == order or (a.get("_endian") == "=" and order == native)) and bool(a.get("_bit64")),
               f"_ascii = False, _endian = {order!r}, _bit64 = True", f"C04-R10|rec48|{order}", needs=("_endian", "_bit64"))


# --------------------------------------------------------------------------------------------------------------------- R11
_BYTELESS = re.compile(r"^[|=<>]?(S\d*|a\d*|V\d*|U1|[uib]1|[bB?c]|uint8|int8|bool)$")


class _Scope:
    """names of one function: what each is assigned from, which carry the file's byte order, where parameters come from"""

    def __init__(self, fn, taint, origins, outer):
        self.fn, self.outer, self.origins = fn, outer, origins
        self.defs = {}
        self.nested = {}
        self.parents = {}
        for n in walk_no_nested(fn):
            for c in ast.iter_child_nodes(n):
                self.parents[c] = n
            if isinstance(n, (ast.FunctionDef, ast.AsyncFunctionDef)):
                self.nested[n.name] = n
            tg, val = [], None
            if isinstance(n, ast.Assign):
                tg, val = n.targets, n.value
            elif isinstance(n, (ast.AugAssign, ast.AnnAssign)) and n.value is not None:
                tg, val = [n.target], n.value
            elif isinstance(n, (ast.For, ast.comprehension)):
                tg, val = [n.target], n.iter
            elif isinstance(n, ast.NamedExpr):
                tg, val = [n.target], n.value
            for t in tg:
                for x in ast.walk(t):
                    if isinstance(x, ast.Name) and isinstance(x.ctx, ast.Store):
                        self.defs.setdefault(x.id, []).append(val)
                    elif isinstance(x, ast.Attribute) and isinstance(x.ctx, ast.Store) and isinstance(x.value, ast.Name):
                        self.defs.setdefault(x.value.id, []).append(val)          # v.dtype = ...
        for c in ast.iter_child_nodes(fn):
            self.parents[c] = fn
        self.taint = set(taint)

    def reaches(self, expr, seen=None):
        """does the value of `expr` depend (through assignments, parameters, closures) on the byte order / is its byte order changed on the way"""
        seen = set() if seen is None else seen
        stack = [expr]
        while stack:
            x = stack.pop()
            if isinstance(x, ast.Call) and isinstance(x.func, ast.Attribute) and isinstance(x.func.value, ast.Name) and x.func.value.id in ("self", "OP4") \
                    and x.func.attr in self.meth and not any(isinstance(a, ast.Starred) for a in x.args) and len(seen) < 400:
                # the result of a method of the class: what it returns, given what it is handed (not "any argument")
                key = ("call", id(x))
                if key in seen:
                    continue
                seen.add(key)
                callee = self.meth[x.func.attr]
                sub = _Scope.bind(callee, x, self, True, seen)
                if any(sub.reaches(r.value, seen) for r in walk_no_nested(callee) if isinstance(r, ast.Return) and r.value is not None):
                    return True
                continue
            if isinstance(x, ast.Attribute) and x.attr in ("_endian", "byteswap", "newbyteorder"):
                return True
            # items without a byte order (byte strings, single bytes): nothing to get wrong
            if (isinstance(x, ast.Attribute) and x.attr in ("uint8", "int8", "bytes_", "ubyte", "byte")) or (isinstance(x, ast.Name) and x.id == "bytes") \
                    or (isinstance(x, ast.Constant) and isinstance(x.value, str) and _BYTELESS.match(x.value)):
                return True
            if isinstance(x, ast.Name):
                if self.name_reaches(x.id, seen):
                    return True
            stack.extend(ast.iter_child_nodes(x))
        return False

    meth = {}
    root = False
    guarded_call = False          # the function is called under a test of the byte order
    fnargs = None

    def lookup_fn(self, name):
        """a nested function visible under `name` (defined here, in an enclosing function, or handed over as an argument) -> (function, defining scope)"""
        s = self
        while s is not None:
            if name in s.nested:
                return s.nested[name], s
            if s.fnargs and name in s.fnargs:
                return s.fnargs[name]
            s = s.outer
        return None

    def under_test(self, node):
        """is `node` executed under a test that depends on the byte order (in this function, or the function itself is called under one)"""
        if self.guarded_call:
            return True
        a = self.parents.get(node)
        while a is not None and a is not self.fn:
            if isinstance(a, (ast.If, ast.IfExp, ast.While)) and self.reaches(a.test):
                return True
            a = self.parents.get(a)
        return False

    @staticmethod
    def bind(callee, call, sc, method, seen=None, defscope=None):
        """the scope of `callee` for the call `call` made in scope `sc`"""
        names = [a.arg for a in callee.args.args]
        if method and names and names[0] in ("self", "cls"):
            names = names[1:]
        origins, taint, fnargs = {}, set(), {}
        pairs = list(zip(names, call.args)) + [(k.arg, k.value) for k in call.keywords if k.arg in names]
        for p, arg in pairs:
            origins.setdefault(p, []).append((sc, arg))
            if sc.reaches(arg, set(seen) if seen is not None else None):
                taint.add(p)
            if isinstance(arg, ast.Name) and sc.lookup_fn(arg.id) is not None:
                fnargs[p] = sc.lookup_fn(arg.id)
        new = _Scope(callee, taint, origins, None if method else defscope)
        new.fnargs = fnargs
        if seen is None:
            new.guarded_call = sc.under_test(call)
        return new

    def name_reaches(self, name, seen):
        key = (id(self), name)
        if key in seen:
            return False
        seen.add(key)
        if name in self.taint:
            return True
        params = {a.arg for a in self.fn.args.args + self.fn.args.kwonlyargs} | {a.arg for a in (self.fn.args.vararg, self.fn.args.kwarg) if a is not None}
        if name in params and name not in self.origins and not self.root and name not in ("self", "cls"):
            return True          # a parameter whose argument is not seen: nothing is known about it
        local = name in self.defs or name in self.origins or name in params
        for v in self.defs.get(name, ()):
            if self.reaches(v, seen):
                return True
        for sc, arg in self.origins.get(name, ()):
            if sc.reaches(arg, seen):
                return True
        if not local and self.outer is not None:
            return self.outer.name_reaches(name, seen)
        return False


def r11_value_block_byte_order(ctx):
    """The binary writers take the byte order of the file as an argument and pack every header with it; the reader decodes the value blocks with
    the file's byte order.  A value block written as the *raw bytes of an array* (`f.write(x.tobytes())`, `x.tofile(f)`) is in the byte order of
    that array's dtype, so the array must have been given the file's byte order (`astype(endian + 'f8')`, `np.asarray(x, dtype=endian + 'f8')`,
    a byteswap under a test of the byte order ...).  Typestate rule: the write is a violation when nothing the array is computed from - its
    assignments, the arguments it is handed over as, the tests it is written under - depends on the byte-order argument: such bytes are the same for
    '<' and '>' and one of them is read back wrongly.  Anything that does depend on it is left to the evaluation of the writer (R3)."""
    meth = _op4_methods(ctx)
    _Scope.meth = meth
    sites = []
    done = set()

    def scan(sc, depth):
        fn = sc.fn
        for n in walk_no_nested(fn):
            if not isinstance(n, ast.Call):
                continue
            f = n.func
            if isinstance(f, ast.Attribute) and f.attr in ("tobytes", "tofile"):
                par = sc.parents.get(n)
                written = f.attr == "tofile" or (isinstance(par, ast.Call) and isinstance(par.func, ast.Attribute) and par.func.attr == "write" and n in par.args)
                if not written:
                    continue
                dep = sc.reaches(f.value) or sc.under_test(n)
                sites.append((n, fn, dep))
                continue
            callee = None
            if isinstance(f, ast.Name):
                got = sc.lookup_fn(f.id)
                if got is not None:
                    callee, dscope = got
                off = 0
            elif isinstance(f, ast.Attribute) and isinstance(f.value, ast.Name) and f.value.id in ("self", "OP4") and f.attr in meth:
                callee, off, dscope = meth[f.attr], 1, None
            if callee is None or depth >= 4 or any(isinstance(x, ast.Starred) for x in n.args) or any(k.arg is None for k in n.keywords):
                continue
            key = (id(callee), id(n))
            if key in done:
                continue
            done.add(key)
            scan(_Scope.bind(callee, n, sc, bool(off), None, dscope), depth + 1)

    bound = 0
    for layout in LAYOUTS:
        nm = WRITERS[("binary", layout)]
        fn = meth.get(nm)
        names = [a.arg for a in fn.args.args] if fn is not None else []
        if len(names) < 5:
            ctx.error(f"{nm}: (f, name, matrix, byte order, form) signature", fn)
            continue
        bound += 1
        top = _Scope(fn, {names[4]}, {}, None)
        top.root = True
        scan(top, 0)
    bad = 0
    told = set()
    for n, fn, dep in sites:
        if not dep and id(n) not in told:
            told.add(id(n))
            bad += 1
            ctx.fail("a value block written as the raw bytes of an array is in the byte order the writer was asked for", n,
                     f"{fn.name}: `{ast.unparse(n)[:80]}` - nothing the array is computed from, handed over as or written under depends on the byte-order "
                     f"argument: the block has the machine's byte order for '<' and for '>' alike, the reader decodes it with the file's",
                     key=f"C04-R11|{fn.name}|{ast.unparse(n.func)[:40]}")
    if bound:
        ctx.ok(f"raw-bytes rule scanned the {bound} binary writers and the functions they call ({len(sites)} raw array writes)", meth.get(WRITERS[("binary", "dense")]),
               nontrivial=False)
        if not bad:
            ctx.ok("no binary writer emits the raw bytes of an array whose byte order does not depend on the requested one", meth.get(WRITERS[("binary", "dense")]))


class Scoped:
    """The context as a rule sees it: every obligation remembers the evaluation worlds it was derived from (`ctx.scope(writer world, loader
    world)` names them for what follows), so that a lowering gap in one world only touches what was concluded from that world."""

    def __init__(self, ctx):
        object.__setattr__(self, "_base", ctx)
        object.__setattr__(self, "_worlds", None)

    def __getattr__(self, k):
        return getattr(self._base, k)

    def __setattr__(self, k, v):
        setattr(self._base, k, v)

    def scope(self, *worlds):
        object.__setattr__(self, "_worlds", tuple(w for w in worlds if w is not None))

    def _tag(self, n):
        sc = self._base.__dict__.setdefault("_c04_scopes", {})
        for o in self._base.obls[n:]:
            sc[id(o)] = self._worlds

    def ok(self, *a, **k):
        n = len(self._base.obls)
        self._base.ok(*a, **k)
        self._tag(n)

    def fail(self, *a, **k):
        n = len(self._base.obls)
        self._base.fail(*a, **k)
        self._tag(n)

    def error(self, *a, **k):
        n = len(self._base.obls)
        self._base.error(*a, **k)
        self._tag(n)

    def check(self, *a, **k):
        n = len(self._base.obls)
        r = self._base.check(*a, **k)
        self._tag(n)
        return r


def guarded(rule):
    """Safety net shared by all rules.  The evaluator records a *lowering gap* whenever it skips or drops part of an analysed function (a statement
    kind it does not lower, a write whose value it could not build, writes / reads under a test it could not decide, a call of a module-level
    object it does not model).  A comparison that fails on such an incomplete trace is not a provable disagreement: every failed obligation of
    the rule that is not a listed known finding is recorded as "not decided" (exit 2) and the gaps are named once."""
    def run(ctx):
        n0 = len(ctx.obls)
        try:
            rule(Scoped(ctx))
        finally:
            gaps = list(getattr(ctx, "_c04_gaps", None) or [])
            if gaps:
                from .core import load_known
                known = {k["key"] for k in load_known() if k.get("property") == ctx.prop and k.get("status") == "known"}
                scopes = getattr(ctx, "_c04_scopes", {})
                for o in ctx.obls[n0:]:
                    if o.status != "fail" or o.key in known:
                        continue
                    worlds = scopes.get(id(o))
                    # derived from named worlds: only their own gaps count; not attributed: any gap counts
                    mine = gaps if worlds is None else [g for w in worlds for g in w.own_gaps]
                    if mine:
                        o.status = "error"
                        o.instance += " [not decided: the evaluation skipped a construct, see the lowering gaps]"
                # a trace with a hole is never certified either: the gaps are an analysis error of their own (exit 2, never a silent pass)
                if not getattr(ctx, "_c04_gaps_told", False):
                    ctx._c04_gaps_told = True
                    ctx.error("lowering gaps: constructs of the analysed functions the evaluator skipped (nothing that fails is reported as a violation "
                              "while they are open)", gaps[0][0], [f"{w}: {y}" for w, y in gaps[:12]])
    run.__name__ = rule.__name__
    run.__doc__ = rule.__doc__
    return run


RULES = [
    ("C04-R1", guarded(r1_ascii_field), 6),
    ("C04-R2", guarded(r2_headers), 40),
    ("C04-R3", guarded(r3_string_headers), 150),
    ("C04-R4", guarded(r4_ranges_and_dispatch), 8),
    ("C04-R7", guarded(r7_input_canonical), 14),
    ("C04-R8", guarded(r8_symmetry_test), 4),
    ("C04-R9", r9_no_byte_reinterpretation, 2),
    ("C04-R10", guarded(r10_format_detection), 16),
    ("C04-R11", r11_value_block_byte_order, 2),
]
LEVEL = "other"
EXPLANATION = ("Static reader/writer agreement for OUTPUT4, decided on values: every writer is evaluated on symbols for a generic matrix (generic column and "
               "string of non-zeros, complex ndarray and real scipy.sparse input, every regime of the row count) and the matching loader is evaluated on "
               "exactly the header / column / string records that run emitted; the rules compare what comes back with what went in, plus the declared "
               "word counts and record lengths, packing ranges over the layout's whole domain, the bigmat boundary shared by writers / loaders / skipper, "
               "the ASCII field width over all finite doubles and the input canonicalisation.")
MANIFEST = {
    "text": "Partial claim decided statically: the loader slices / unpacks exactly what the writer emits (ASCII header columns for both integer widths, binary "
            "header record), decode(encode(string header)) = identity for nonbigmat (2^16 packing) and bigmat layouts in ASCII and binary, declared "
            "nwords/reclen equal what readers consume, every layout switch uses the same rows >= 65536 boundary, the packed IS and the ASCII number "
            "field are checked over the whole value domain (two known findings: F1 ASCII field one character short for negative 3-digit exponents, "
            "F2 IS overflows int32 for strings >= 16384 rows; a mask / shift / modulus that is narrower or wider than the 16-bit row field is kept as "
            "the exact residue and fails the decode(encode) identity), sparse input is canonicalised, the sparse symmetry test that decides form 6 is "
            "mirror-symmetric under transposition (sort orders included) and applies the same closeness rule to a pair of mirror entries as the ndarray "
            "arm (same kind: exact / element-wise tolerance / tolerance from a reduction over the whole matrix; same tolerances), no function reachable "
            "from the binary loader reinterprets bytes read in the file's byte order. A construct of the analysed functions the evaluator cannot "
            "lower (a lowering gap: unknown statement kind, dropped write, effects under an undecided test, call of an unmodelled module-level object) "
            "is an analysis error and downgrades every failure derived from the same evaluation to 'not decided'. Not decided: float() parsing exactness, "
            "_sparse_col_stats on arbitrary patterns, scipy.sparse behaviour.",
    "note": "Trusted: CPython ast; verifier/e2_formula.py polynomial arithmetic with the bit-operator model of verifier/op4_model.py (<< k = * 2^k; >> k, // 2^k, % 2^k "
            "and & (2^k - 1) resolved only when the low part is declared below 2^k: first row + 1 <= rows < 2^16 for the nonbigmat layout; when its attained "
            "interval provably leaves [0, 2^k) the exact residue x mod 2^k / x // 2^k is kept instead); the symbolic "
            "text / struct-record model of verifier/c04_txt.py (Python format specifications, fixed-width slicing, struct codes).",
    "technique": "symbolic evaluation of writers and loaders on generic records (format specifications, struct codes, slices as values); interval regimes for the row "
                 "count; interval bound on packed values",
}
