"""C04 -- OUTPUT4 write -> read identity (partial claim; two known findings)."""
from __future__ import annotations

import ast
import re
from fractions import Fraction

from . import e2_formula as F
from . import op4_model as M
from .core import AnchorError, Unsupported
from .e1_srcmodel import dotted, walk_no_nested, parent, ancestors, utext
from .e2_eval import Evaluator, is_unknown, need

OP4 = M.OP4
STRUCT_RANGE = {"i": (-(2 ** 31), 2 ** 31 - 1), "q": (-(2 ** 63), 2 ** 63 - 1), "I": (0, 2 ** 32 - 1), "Q": (0, 2 ** 64 - 1)}


def _const_attr(ctx, name):
    """self.<name> = <int constant> in OP4.__init__"""
    fn = M.func(ctx, "OP4.__init__")
    for st in walk_no_nested(fn):
        if isinstance(st, ast.Assign) and ast.unparse(st.targets[0]) == f"self.{name}":
            try:
                return int(ast.literal_eval(st.value)), st
            except Exception:  # noqa
                return None, st
    raise AnchorError(f"OP4.__init__: self.{name}")


def r1_ascii_field(ctx):
    fn = M.func(ctx, "OP4._write_ascii_header")
    init = M.func(ctx, "OP4.__init__")
    # expdigits: constant-folded from whatever literal expression __init__ uses (today len('%.1E' % 1.2) - (find('E') + 2) = 2)
    from .constfold import fold_assignments
    cenv = fold_assignments([st for st in walk_no_nested(init) if isinstance(st, ast.Assign)])
    expdigits = cenv.get("self._expdigits")
    if not isinstance(expdigits, int):
        ctx.error("OP4.__init__: self._expdigits is not a foldable constant expression", init, repr(expdigits))
        return
    want = len("%.1E" % 1.2) - ("%.1E" % 1.2).find("E") - 2
    ctx.check(expdigits == want, f"OP4.__init__: _expdigits ({expdigits}) is the number of exponent digits Python prints for an E format ({want})", init)
    digits = F.sym("digits")
    ev = Evaluator(env={"digits": digits, "self._expdigits": F.const(expdigits)}, src=ctx.src)
    for st in fn.body:
        if isinstance(st, ast.Assign) and ast.unparse(st.targets[0]) in ("numlen", "perline"):
            ev.stmt(st)
    numlen = ev.env.get("numlen")
    nf = [s for s in fn.body if isinstance(s, ast.Assign) and ast.unparse(s.targets[0]) == "numform"]
    ok = bool(nf) and ast.unparse(nf[0].value).replace(" ", "") in ("f'%{numlen}.{digits}E'",)
    ctx.check(ok, "_write_ascii_header: values are printed with %{numlen}.{digits}E", nf[0] if nf else fn)
    if numlen is None or is_unknown(numlen):
        ctx.error("_write_ascii_header: numlen", fn, repr(numlen))
        return
    # widest rendering of %W.PE over finite doubles: sign + d + . + P + E + sign + 3 exponent digits
    widest = digits + 8
    ok = (numlen - widest).is_const() and (numlen - widest).const_value() >= 0
    ctx.check(ok, "_write_ascii_header: the announced field width `numlen` holds the widest value (negative, three-digit exponent: digits + 8 characters)",
              fn, None if ok else {"numlen": repr(numlen), "widest": repr(widest),
                                   "witness": "[[-1.5e-150, 2], [3, 4]] written with binary=False: the value takes numlen + 1 characters and fuses with its neighbour"},
              key="C04-R1|OP4._write_ascii_header|numlen < digits + 8")
    # the same (numlen, digits) drive header text, numform and the reader's line slicing
    hdr = [n for n in ast.walk(fn) if isinstance(n, ast.JoinedStr) and "1P," in ast.unparse(n)]
    ok = bool(hdr) and "1P,{perline}E{numlen}.{digits}{addon}" in ast.unparse(hdr[0]).replace(" ", "")
    ctx.check(ok, "_write_ascii_header: the header announces 1P,{perline}E{numlen}.{digits} - the same numbers used to print", hdr[0] if hdr else fn)
    rd = M.func(ctx, "OP4._loadop4_ascii")
    t = utext(rd)
    ok = "perline=int(numformat[:p])" in t and "numlen=int(numformat[p+1:].split('.')[0])" in t and "linelen=perline*numlen" in t \
        and "numformat.startswith('1P,')" in t and "p=numformat.replace('D','E').find('E')" in t
    ctx.check(ok, "_loadop4_ascii: perline and numlen are parsed back from that announcement and linelen = perline * numlen", rd)
    ok = ast.unparse(ev.env.get("perline") and fn).count("perline = 80 // numlen") == 1
    ctx.check(ok, "_write_ascii_header: perline = 80 // numlen (a line never exceeds 80 columns)", fn, nontrivial=False)


def r2_headers(ctx):
    fn = M.func(ctx, "OP4._write_ascii_header")
    hdr = [n for n in ast.walk(fn) if isinstance(n, ast.JoinedStr) and "1P," in ast.unparse(n)]
    if not hdr:
        raise AnchorError("_write_ascii_header: header f-string")
    widths = []
    names = []
    for v in hdr[0].values:
        if isinstance(v, ast.FormattedValue) and v.format_spec is not None:
            spec = ast.unparse(v.format_spec).strip("f'\"")
            names.append(ast.unparse(v.value))
            widths.append(spec)
    rd = M.func(ctx, "OP4._loadop4_ascii")
    # reader slice tables for both integer widths
    tables = {}
    for st in ast.walk(rd):
        if isinstance(st, ast.If) and "endswith('|I16')" in ast.unparse(st.test):
            for w, body in ((16, st.body), (8, st.orelse)):
                tb = {}
                for s2 in body:
                    if isinstance(s2, ast.Assign) and isinstance(s2.value, ast.Call) and dotted(s2.value.func) == "slice":
                        tb[ast.unparse(s2.targets[0])] = tuple(ast.literal_eval(a) for a in s2.value.args)
                tables[w] = tb
    ok = set(tables) == {8, 16}
    ctx.check(ok, "_loadop4_ascii: one slice table per header integer width, selected by the |I16 marker", rd)
    order = ["c_slice", "r_slice", "f_slice", "t_slice", "n_slice"]
    wnames = names[:5]
    ok = [n.split(".")[0] for n in wnames] == ["cols", "rows", "form", "mtype", "name"]
    ctx.check(ok, "_write_ascii_header: header fields are cols, rows, form, mtype, name in that order", hdr[0], wnames)
    for w, tb in tables.items():
        pos = 0
        exp = {}
        for nm, spec in zip(order, widths[:5]):
            fw = w if spec == "{int_width}" else int(re.sub(r"[^0-9]", "", spec) or 0)
            exp[nm] = (pos, pos + fw)
            pos += fw
        ok = all(tb.get(k) == v for k, v in exp.items())
        ctx.check(ok, f"header layout (integer width {w}): the reader slices exactly the columns the writer fills", rd,
                  None if ok else {"writer": exp, "reader": tb})
    t = utext(fn)
    ok = "addon='|I16'ifint_width==16else''" in t
    ctx.check(ok, "_write_ascii_header: the |I16 marker is written exactly when 16-wide integers are used", fn)
    gi = M.func(ctx, "OP4._get_header_info")
    t = utext(gi)
    ok = "int_width=16ifrows>9999999else8" in t
    ctx.check(ok, "_get_header_info: 16-wide header integers when rows needs more than 7 digits (room for the bigmat minus sign)", gi)
    # binary header: "5i8si" <-> read(4), 4 ints, 8 bytes, read(4)
    wb = M.func(ctx, "OP4._write_binary_header")
    packs = [c for c in ast.walk(wb) if isinstance(c, ast.Call) and dotted(c.func) == "struct.pack"]
    ok = len(packs) == 1 and "'5i8si'" in ast.unparse(packs[0].args[0]) and \
        [ast.unparse(a) for a in packs[0].args[1:]] == ["24", "cols", "rows", "form", "mtype", "name", "24"]
    ctx.check(ok, "_write_binary_header: record (24 | cols rows form mtype name[8] | 24)", packs[0] if packs else wb)
    rb = M.func(ctx, "OP4._loadop4_binary")
    t = utext(rb)
    ok = "cols,rows,form,mtype=self._Str_iiii.unpack(fp.read(self._bytes_iiii))" in t and "name=fp.read(8).decode()" in t
    ctx.check(ok, "_loadop4_binary: reads (cols rows form mtype) then the 8-byte name", rb)
    ok = "rows=-rows" in utext(wb) and "rows=-rows" in utext(fn)
    ctx.check(ok, "both header writers flag the bigmat layout with a negative row count", wb)
    ok = "abs(rows)" in ast.unparse(rb) and "abs(rows)" in ast.unparse(rd)
    ctx.check(ok, "both loaders size the matrix with abs(rows)", rb)


def _coeffs(poly, names):
    """{name: coefficient, 'const': c} of a polynomial that is affine in the given names"""
    r = need(poly)
    out = {}
    rest = r
    for nm in names:
        d = r.diff(nm)
        out[nm] = d
        rest = rest - d * F.sym(nm)
    out["const"] = rest
    return out


def r3_string_headers(ctx):
    r0, r1, mult = F.sym("r0"), F.sym("r1"), F.sym("mult")
    two = F.const(2)
    # ---- nonbigmat
    for wq, rqs in (("OP4._write_ascii_nonbigmat._write_data_string", ["OP4._rd_nonbigmat_ascii"]),
                    ("OP4._write_binary_nonbigmat._write_data_string", ["OP4._rd_nonbigmat_binary"])):
        w = M.string_writer(ctx, wq)
        IS, L = w["IS"], w["L"]
        if IS is None or is_unknown(IS) or L is None or is_unknown(L):
            ctx.error(f"{wq}: IS / L", w["fn"], f"{IS} {L}")
            continue
        ok = IS.equals((r0 + 1) + (L + 1) * 65536) and L.equals(2 * r1 * mult)
        ctx.check(ok, f"{wq.split('.')[1]}: IS = (first row + 1) + (L + 1) * 2^16 with L = 2 * length * multiplier words", w["fn"],
                  None if ok else {"IS": repr(IS), "L": repr(L)})
        for rq in rqs:
            rd = M.string_reader(ctx, rq, "nonbigmat", IS_value=IS)
            env = rd["env"]
            env_w2 = None
            Ld, rr, cnt = env.get("L"), env.get("r"), env.get(rd["count"])
            if any(v is None or is_unknown(v) for v in (Ld, rr, cnt)):
                ctx.fail(f"{rq.split('.')[1]}: decoding the packed header the writer produces", rd["loop"],
                         {"L": repr(Ld), "r": repr(rr), "count": repr(cnt)}, key=f"C04-R3|{rq}|decode")
                continue
            ok = rr.equals(r0)
            ctx.check(ok, f"{rq.split('.')[1]}: decode(encode) recovers the first row of the string (0-based)", rd["loop"], None if ok else repr(rr))
            dec = F.sym("W") - cnt
            ok = dec.equals(L + 1)
            ctx.check(ok, f"{rq.split('.')[1]}: each string consumes L + 1 words of the column's word count", rd["loop"], None if ok else repr(dec))
            # number of values read:  L // wper  with wper = 2 words per double  ->  r1 * mult doubles
            Lv = Ld.subs({"wper": 2}) if Ld.depends_on("wper") else Ld
            got = _resolve_floordiv(Lv)
            ok = got is not None and got.equals(r1 * mult)
            ctx.check(ok, f"{rq.split('.')[1]}: reads L // 2 = length * multiplier doubles (what the writer packed)", rd["loop"], None if ok else repr(Ld))
    # ---- bigmat
    for wq, rq in (("OP4._write_ascii_bigmat._write_data_string", "OP4._rd_bigmat_ascii"),
                   ("OP4._write_binary_bigmat._write_data_string", "OP4._rd_bigmat_binary")):
        w = M.string_writer(ctx, wq)
        hdr = [x for x in w["written"] if x[0] in ("text", "pack")]
        if not hdr:
            ctx.error(f"{wq}: header write", w["fn"])
            continue
        vals = [v[0] if isinstance(v, tuple) else v for v in hdr[0][1]]
        L = w["L"]
        ok = len(vals) == 2 and not any(is_unknown(v) for v in vals) and vals[0].equals(L + 1) and vals[1].equals(r0 + 1) and L.equals(2 * r1 * mult)
        ctx.check(ok, f"{wq.split('.')[1]}: string header is (L + 1, first row + 1) with L = 2 * length * multiplier", w["fn"],
                  None if ok else [repr(v) for v in vals])
        if not ok:
            continue
        rd = M.string_reader(ctx, rq, "bigmat", L_raw=vals[0], r_raw=vals[1])
        env = rd["env"]
        Ld, rr, cnt = env.get("L"), env.get("r"), env.get(rd["count"])
        if any(v is None or is_unknown(v) for v in (Ld, rr, cnt)):
            ctx.fail(f"{rq.split('.')[1]}: decoding the string header the writer produces", rd["loop"], {"L": repr(Ld), "r": repr(rr)},
                     key=f"C04-R3|{rq}|decode")
            continue
        ok = rr.equals(r0)
        ctx.check(ok, f"{rq.split('.')[1]}: recovers the first row of the string (0-based)", rd["loop"], None if ok else repr(rr))
        dec = F.sym("W") - cnt
        ok = dec.equals(L + 2)
        ctx.check(ok, f"{rq.split('.')[1]}: each string consumes L + 2 words (two header words + data)", rd["loop"], None if ok else repr(dec))
        got = _resolve_floordiv(Ld.subs({"wper": 2}) if Ld.depends_on("wper") else Ld)
        ok = got is not None and got.equals(r1 * mult)
        ctx.check(ok, f"{rq.split('.')[1]}: reads length * multiplier doubles", rd["loop"], None if ok else repr(Ld))
    # ---- declared word counts
    ns, S = F.sym("ns"), F.sym("S")
    for q, per_string in (("OP4._write_ascii_nonbigmat._write_col_header", 1), ("OP4._write_binary_nonbigmat._write_col_header", 1),
                          ("OP4._write_ascii_bigmat._write_col_header", 2), ("OP4._write_binary_bigmat._write_col_header", 2)):
        fn = M.func(ctx, q)

        def sub(node, ev):
            t = utext(node)
            if t == "ind.shape[0]":
                return ns
            if t == "ind[:,1]":
                return S
            return NotImplemented

        def call(node, ev):
            if dotted(node.func) == "sum" and node.args:
                return ev.ev(node.args[0])
            if (dotted(node.func) or "").endswith("write") or (dotted(node.func) or "").endswith("pack"):
                return F.const(0)
            return NotImplemented

        ev = Evaluator(env={"multiplier": mult}, src=ctx.src, subscript=sub, call=call)
        for st in fn.body:
            if isinstance(st, ast.Assign):
                ev.stmt(st)
        nw = ev.env.get("nwords")
        ok = nw is not None and not is_unknown(nw) and nw.equals(per_string * ns + 2 * S * mult)
        ctx.check(ok, f"{q.split('.')[1]}: declared nwords = {per_string} header word(s) per string + 2 words per double = what the reader subtracts", fn,
                  None if ok else repr(nw))
        if "binary" in q:
            rl = ev.env.get("reclen")
            ok = rl is not None and not is_unknown(rl) and nw is not None and rl.equals((3 + nw) * 4)
            ctx.check(ok, f"{q.split('.')[1]}: record length = (3 header words + nwords) * 4 bytes", fn, None if ok else repr(rl))
            packs = [c for c in ast.walk(fn) if isinstance(c, ast.Call) and isinstance(c.func, ast.Attribute) and c.func.attr == "pack"]
            ok = len(packs) == 1 and [utext(a) for a in packs[0].args] == ["reclen", "c+1", "0", "nwords"]
            ctx.check(ok, f"{q.split('.')[1]}: column header is (reclen, column + 1, 0, nwords)", fn)
        else:
            wr = [n for n in ast.walk(fn) if isinstance(n, ast.JoinedStr) and not isinstance(parent(n), ast.FormattedValue)]
            ok = len(wr) == 1 and ast.unparse(wr[0]).replace(" ", "") in ("f'{c+1:8}{0:8}{nwords:8}\\n'",)
            ctx.check(ok, f"{q.split('.')[1]}: column header is (column + 1, 0, nwords) in three 8-wide fields", fn)
    # ---- dense column headers
    for q in ("OP4._write_ascii._write_col_data",):
        fn = M.func(ctx, q)
        wr = [n for n in ast.walk(fn) if isinstance(n, ast.JoinedStr) and not isinstance(parent(n), ast.FormattedValue)]
        ok = bool(wr) and ast.unparse(wr[0]).replace(" ", "") == "f'{c+1:8}{s+1:8}{elems:8}\\n'"
        ctx.check(ok, "_write_ascii: dense column header is (column + 1, first row + 1, number of values)", fn)
    fn = M.func(ctx, "OP4._write_binary._write_col_data")
    t = utext(fn)
    ok = "reclen=3*4+elems*8" in t and "colHeader.pack(reclen,c+1,s+1,2*elems)" in t and "colTrailer.pack(reclen)" in t
    ctx.check(ok, "_write_binary: dense record = (reclen | column + 1, first row + 1, 2 * values | doubles | reclen), reclen = 12 + 8 * values", fn)
    for q in ("OP4._rd_dense_ascii", "OP4._rd_dense_binary"):
        fn = M.func(ctx, q)
        t = utext(fn)
        ok = "r-=1" in t and ("c=int(line[c_slice])-1" in t or "c-=1" in t)
        ctx.check(ok, f"{q.split('.')[1]}: converts the 1-based column and first row back to 0-based", fn)
    # the end-of-matrix sentinel column (cols + 1) with one dummy value
    for q in ("OP4._write_ascii", "OP4._write_ascii_sparse", "OP4._write_binary", "OP4._write_binary_sparse"):
        fn = M.func(ctx, q)
        t = utext(fn)
        ok = ("f'{cols+1:8}{1:8}{1:8}\\n'" in t) if "ascii" in q else ("colHeader.pack(reclen,cols+1,1,2)" in t and "reclen=3*4+8" in t)
        ctx.check(ok, f"{q.split('.')[1]}: terminates the matrix with the sentinel column cols + 1", fn)
    for q in ("OP4._rd_dense_ascii", "OP4._rd_bigmat_ascii", "OP4._rd_nonbigmat_ascii", "OP4._rd_dense_binary", "OP4._rd_bigmat_binary",
              "OP4._rd_nonbigmat_binary"):
        fn = M.func(ctx, q)
        loops = [n for n in fn.body if isinstance(n, ast.While)]
        ok = bool(loops) and ast.unparse(loops[0].test).replace(" ", "") == "c<cols"
        ctx.check(ok, f"{q.split('.')[1]}: reads columns until the sentinel (c < cols)", fn)


def _resolve_floordiv(r):
    """a floordiv(x, 2) atom with x an even polynomial -> x/2 ; returns None if unresolved"""
    if r is None or is_unknown(r):
        return None
    r = need(r)
    for a in list(r.n.atoms()):
        d = F.atom_desc(a)
        if d[0] == "fn" and d[1] == "floordiv":
            num = F.Rat(F._poly_from_key(d[2][0][1]), F._poly_from_key(d[2][0][2]))
            den = F.Rat(F._poly_from_key(d[2][1][1]), F._poly_from_key(d[2][1][2]))
            if not den.is_const():
                return None
            q = num / den
            if all(v.denominator == 1 for v in q.n.scale(1 / q.d.const_value()).t.values()):
                return r.subs({}) if False else _subs_atom(r, a, q)
            return None
    return r


def _subs_atom(r, a, val):
    tmp = F.sym("__tmp__")
    n = F.Poly({tuple((F._intern(("s", "__tmp__")) if x == a else x, e) for x, e in m): c for m, c in r.n.t.items()})
    d = F.Poly({tuple((F._intern(("s", "__tmp__")) if x == a else x, e) for x, e in m): c for m, c in r.d.t.items()})
    return F.Rat(n, d).subs({"__tmp__": val})


def r4_ranges_and_dispatch(ctx):
    rows4, st = _const_attr(ctx, "_rows4bigmat")
    ok = rows4 == 1 << M.SHIFT
    ctx.check(ok, "_rows4bigmat == 2^16, the shift used to pack the nonbigmat string header", st, rows4)
    # every comparison against _rows4bigmat uses the same inclusive boundary
    m = ctx.src.mod(OP4)
    comps = []
    for q, fn in sorted(m.funcs.items()):
        for n in walk_no_nested(fn):
            if isinstance(n, ast.Compare) and len(n.ops) == 1 and "self._rows4bigmat" in ast.unparse(n):
                comps.append((q, n))
    for q, n in comps:
        t = utext(n)
        ok = t in ("rows>=self._rows4bigmat", "self._rows4bigmat<=rows")
        ctx.check(ok, f"{q.split('.')[-1]}: layout switches to bigmat at rows >= 65536 (writers, loaders and skipper must agree on the boundary)", n,
                  None if ok else f"`{t}`: a matrix with exactly 65536 rows would be written in one layout and read in the other",
                  key=f"C04-R4|{q}|bigmat boundary {t}")
    ctx.check(len(comps) >= 4, f"bigmat boundary rule bound to {len(comps)} comparisons", OP4 + ":1", [q for q, _ in comps], nontrivial=False)
    # nonbigmat writers run only below the boundary
    for q in ("OP4._write_ascii_nonbigmat", "OP4._write_binary_nonbigmat"):
        fn = M.func(ctx, q)
        first = [s for s in fn.body if isinstance(s, ast.If) and "self._rows4bigmat" in ast.unparse(s.test)]
        ok = bool(first) and isinstance(first[0].body[-1], ast.Return) and "bigmat(" in ast.unparse(first[0].body[0])
        hdr = [s for s in fn.body if "_header(" in ast.unparse(s)]
        ok = ok and bool(hdr) and first[0].lineno < hdr[0].lineno
        ctx.check(ok, f"{q.split('.')[1]}: delegates to the bigmat writer before writing anything when rows >= 65536", fn)
    # packed ranges:  IS into a 4-byte signed integer
    w = M.string_writer(ctx, "OP4._write_binary_nonbigmat._write_data_string")
    IS = w["IS"]
    packs = [x for x in w["written"] if x[0] == "pack"]
    fnw = M.func(ctx, "OP4._write_binary_nonbigmat")
    code = None
    if packs:
        sname = packs[0][2]
        # the struct object reaching that parameter: positional argument of _write_binary_sparse
        params = [a.arg for a in w["fn"].args.args]
        pidx = params.index(sname) if sname in params else None
        call = [c for c in ast.walk(fnw) if isinstance(c, ast.Call) and dotted(c.func) == "OP4._write_binary_sparse"]
        if call and pidx is not None:
            sparse = M.func(ctx, "OP4._write_binary_sparse")
            sp_params = [a.arg for a in sparse.args.args]
            inner = [c for c in ast.walk(sparse) if isinstance(c, ast.Call) and dotted(c.func) == "_write_data_string"]
            if inner:
                arg = ast.unparse(inner[0].args[pidx])
                if arg in sp_params:
                    actual = ast.unparse(call[0].args[sp_params.index(arg)])
                    for st in walk_no_nested(fnw):
                        if isinstance(st, ast.Assign) and ast.unparse(st.targets[0]) == actual and "struct.Struct" in ast.unparse(st.value):
                            mm = re.search(r"'(\d*)([iqIQ])'", ast.unparse(st.value))
                            if mm:
                                code = mm.group(2)
    if IS is None or is_unknown(IS) or code is None:
        ctx.error("_write_binary_nonbigmat: packed IS / struct code", fnw, f"{IS} {code}")
    else:
        # domain: 0 <= r0 <= rows - 1, 1 <= r1 <= rows, rows <= 65535 (guard above), multiplier in {1, 2}
        hi = IS.subs({"r0": rows4 - 2, "r1": rows4 - 1, "mult": 2})
        hi = int(hi.const_value())
        lo_ok, hi_ok = STRUCT_RANGE[code]
        ok = hi <= hi_ok
        ctx.check(ok, f"_write_binary_nonbigmat: the packed header IS fits the struct code '{code}' for every string the layout allows "
                      "(any length up to rows < 65536)", packs[0][3],
                  None if ok else {"max IS": hi, "limit": hi_ok,
                                   "witness": "a 20000 x 1 dense column with 16384 leading non-zeros, sparse='nonbigmat': L + 1 = 32769 -> IS >= 2^31 -> struct.error; "
                                              "Nastran splits such strings, the writer does not"},
                  key="C04-R4|OP4._write_binary_nonbigmat._write_data_string|IS overflows 'i'")
    # ascii nonbigmat: the IS line is parsed whole by int(), any width works; writer uses 11 columns
    w2 = M.string_writer(ctx, "OP4._write_ascii_nonbigmat._write_data_string")
    txt = [x for x in w2["written"] if x[0] == "text"]
    ok = bool(txt) and txt[0][1][0][1] == "11"
    ctx.check(ok, "_write_ascii_nonbigmat: IS is written alone on its line (11 columns) and parsed with int(line)", w2["fn"], nontrivial=False)
    # dimension limits guarded before any header is written
    gi = M.func(ctx, "OP4._get_header_info")
    t = utext(gi)
    ok = "rows>99999999orcols>99999998" in t and "rows>2147483647orcols>2147483647" in t
    ctx.check(ok, "_get_header_info: refuses dimensions that do not fit the 8/16-digit ASCII or 32-bit binary header fields", gi)


def r7_input_canonical(ctx):
    fn = ctx.src.func(OP4, "_ensure_2d_dp")
    arm = [s for s in fn.body if isinstance(s, ast.If) and "sp.issparse" in ast.unparse(s.test)]
    if not arm:
        raise AnchorError("_ensure_2d_dp: sparse arm")
    t = ast.unparse(arm[0]).replace(" ", "")
    ok = "sp.find(m)" in t or "sum_duplicates()" in t
    ctx.check(ok, "_ensure_2d_dp: sparse input is reduced to duplicate-free (row, col, value) triplets (scipy.sparse.find sums repeated entries); "
                  "the writers place each triplet once and dense reads would otherwise overwrite instead of accumulate", arm[0],
              None if ok else "triplets taken without summing duplicates")
    ok = "_ensure_dp(v)" in t or "_ensure_dp(" in t
    ctx.check(ok, "_ensure_2d_dp: values are converted to double precision (the only types the writers emit)", arm[0])
    dp = ctx.src.func(OP4, "_ensure_dp")
    t = utext(dp)
    ok = "m.astype(np.complex128)" in t and "m.astype(np.float64)" in t and "np.iscomplexobj(m)" in t
    ctx.check(ok, "_ensure_dp: complex -> complex128, everything else -> float64", dp)
    gi = M.func(ctx, "OP4._get_header_info")
    t = utext(gi)
    ok = "mtype=4" in t and "multiplier=2" in t and "mtype=2" in t and "multiplier=1" in t
    ctx.check(ok, "_get_header_info: type 4 / two doubles per entry for complex, type 2 / one double for real", gi)
    # write dispatch: every named layout maps to its writer, for both encodings
    wr = M.func(ctx, "OP4.write")
    t = utext(wr)
    pairs = [("binary", "dense", "self._write_binary"), ("binary", "bigmat", "self._write_binary_bigmat"), ("binary", "nonbigmat", "self._write_binary_nonbigmat"),
             ("ascii", "dense", "self._write_ascii"), ("ascii", "bigmat", "self._write_ascii_bigmat"), ("ascii", "nonbigmat", "self._write_ascii_nonbigmat")]
    for enc, lay, f_ in pairs:
        ok = f"sparse=='{lay}':wrtfunc={f_}" in t.replace("\n", "").replace("if", "").replace("el", "") or f"sparse=='{lay}':\nwrtfunc={f_}\n" in t \
            or re.search(rf"sparse=='{lay}':\s*wrtfunc={re.escape(f_)}\b", t) is not None
        ctx.check(ok, f"write: sparse='{lay}' ({enc}) selects {f_.split('.')[-1]}", wr)


def r8_symmetry_test(ctx):
    """_is_symmetric (sparse arm) decides form 6 by pairing every lower-triangle entry (r, c, v) with the upper-triangle entry (c, r, v').  The test
    must therefore be invariant under transposition: swapping the roles of the row and column vectors must map each left-hand side of its
    comparisons onto the right-hand side - including the two sort orders that line the triangles up.  Decided on values (names irrelevant)."""
    from .sem import Sem, unfn
    fn = ctx.src.func(OP4, "OP4._is_symmetric")

    def cond(test, ev):
        t = utext(test)
        if t.startswith("isinstance(m,tuple)"):
            return True
        if "count_nonzero" in t:
            return False
        return None

    def sub(node, ev):
        # r, c, v = m[1:]
        if isinstance(node.value, ast.Name) and node.value.id == "m" and isinstance(node.slice, ast.Slice):
            return (F.sym("r"), F.sym("c"), F.sym("v"))
        return NotImplemented

    S = Sem(ctx, fn, cond=cond, subscript=sub)
    ret = S.ret()
    if ret is None or is_unknown(ret) or isinstance(ret, tuple):
        ctx.error("_is_symmetric: returned test", fn, repr(ret))
        return
    # collect the (left, right) pairs of every equality / closeness test in the returned conjunction
    pairs = []

    def walk(v):
        u = unfn(v)
        if u is None:
            return False
        name, args = u
        if name.startswith("bool:And"):
            return all(walk(a) for a in args)
        if name in ("call:np.all", "call:all") and len(args) >= 1:
            return walk(args[0])
        if name == "cmp:Eq" and len(args) == 2:
            pairs.append(("==", args[0], args[1]))
            return True
        if name in ("call:np.allclose", "call:np.array_equal", "call:np.isclose") and len(args) >= 2:
            pairs.append((name[5:], args[0], args[1]))
            return True
        return False

    if not walk(ret) or len(pairs) < 3:
        ctx.error("_is_symmetric: the sparse test is a conjunction of element-wise comparisons", S.ret_node(), repr(ret))
        return
    R, C = F.sym("r"), F.sym("c")
    T = F.sym("__t")
    n_ok = 0
    for kind, a, b in pairs:
        at = a.subs({"r": T}).subs({"c": R}).subs({"__t": C})      # transposition: r <-> c
        ok = at.equals(b)
        n_ok += ok
        ctx.check(ok, "_is_symmetric: each compared pair is mirror-symmetric - transposing (rows <-> columns) the lower-triangle side gives exactly the "
                      "upper-triangle side, sort order included", S.ret_node(),
                  None if ok else {"left": repr(a)[:300], "left transposed": repr(at)[:300], "right": repr(b)[:300]},
                  key=f"C04-R8|_is_symmetric|{kind} pair not mirror-symmetric")
    # the three compared quantities are the column, the row and the value of the entries
    kinds = set()
    for kind, a, b in pairs:
        u = unfn(a)
        if u and u[0] == "idx":
            base = unfn(u[1][0])
            if base and base[0] == "idx":
                kinds.add(repr(base[1][0]))
    ctx.check(kinds == {"r", "c", "v"}, "_is_symmetric: rows, columns and values of the two triangles are all compared", S.ret_node(), sorted(kinds))


def r9_no_byte_reinterpretation(ctx):
    """Binary files may be in either byte order: the loaders read numbers through struct formats / numpy dtypes that carry the file's byte
    order (`self._endian + ...`).  A value array obtained that way must never be *reinterpreted* (`.view(dtype)`, `np.frombuffer`, `.tobytes`
    round trips, `.byteswap`/`.newbyteorder` without the matching dtype change) on its way into the matrix: a native-dtype view of
    byte-swapped data yields garbage of the right shape.  Who-may rule over every function reachable from the binary loader; expected count 0."""
    mod = ctx.src.mod(OP4)
    # call graph restricted to methods of OP4 (self.x / OP4.x / bare names of the class)
    meth = {q.split(".", 1)[1]: f for q, f in mod.funcs.items() if q.startswith("OP4.") and q.count(".") == 1}
    seen, work = set(), ["_loadop4_binary"]
    while work:
        nm = work.pop()
        if nm in seen or nm not in meth:
            continue
        seen.add(nm)
        for c in ast.walk(meth[nm]):
            if isinstance(c, ast.Attribute) and isinstance(c.value, ast.Name) and c.value.id in ("self", "OP4") and c.attr in meth:
                work.append(c.attr)
            if isinstance(c, ast.Name) and c.id in meth:
                work.append(c.id)
    n = 0
    for nm in sorted(seen):
        fn = meth[nm]
        for c in ast.walk(fn):
            if not isinstance(c, ast.Call):
                continue
            d = dotted(c.func) or ""
            bad = None
            if isinstance(c.func, ast.Attribute) and c.func.attr == "view" and (c.args or c.keywords):
                bad = "`.view(dtype)` reinterprets the bytes in native order"
            elif isinstance(c.func, ast.Attribute) and c.func.attr in ("byteswap", "newbyteorder", "tobytes"):
                bad = f"`.{c.func.attr}()` on values read in the file's byte order"
            elif d in ("np.frombuffer",) and not any("endian" in ast.unparse(a) or "frm" in ast.unparse(a) or "numform" in ast.unparse(a) for a in list(c.args[1:]) + [k.value for k in c.keywords]):
                bad = "`np.frombuffer` without the file's byte-order-qualified dtype"
            if bad:
                n += 1
                ctx.fail("binary loaders never reinterpret the bytes of values read in the file's byte order", c,
                         f"OP4.{nm}: {bad}: `{ast.unparse(c)[:100]}` (non-native files decode to garbage of the right shape)",
                         key=f"C04-R9|OP4.{nm}|{ast.unparse(c.func)[:40]}")
    ctx.check(len(seen) >= 8, f"byte-reinterpretation rule scanned {len(seen)} methods reachable from _loadop4_binary", meth.get("_loadop4_binary"), sorted(seen),
              nontrivial=False)
    if not n:
        ctx.ok("binary loaders never reinterpret the bytes of values read in the file's byte order (no .view(dtype) / byteswap / frombuffer on the way "
               "into the matrix)", meth.get("_loadop4_binary"))


RULES = [
    ("C04-R1", r1_ascii_field, 6),
    ("C04-R2", r2_headers, 10),
    ("C04-R3", r3_string_headers, 38),
    ("C04-R4", r4_ranges_and_dispatch, 10),
    ("C04-R7", r7_input_canonical, 10),
    ("C04-R8", r8_symmetry_test, 4),
    ("C04-R9", r9_no_byte_reinterpretation, 2),
]
LEVEL = "other"
EXPLANATION = ("Static reader/writer agreement for OUTPUT4: header column tables, string-header encode/decode inverses (symbolic, with 2^16 packing), "
               "declared word counts vs what the readers subtract, record lengths, packing ranges over the layout's whole domain, the bigmat boundary "
               "shared by writers/loaders/skipper, ASCII field width over all finite doubles, input canonicalisation.")
MANIFEST = {
    "text": "Partial claim decided statically: the reader slices/unpacks exactly what the writer emits (ASCII header columns for both integer widths, binary "
            "header record), decode(encode(string header)) = identity for nonbigmat (2^16 packing) and bigmat layouts in ASCII and binary, declared "
            "nwords/reclen equal what readers consume, every layout switch uses the same rows >= 65536 boundary, the packed IS and the ASCII number "
            "field are checked over the whole value domain (two known findings: F1 ASCII field one character short for negative 3-digit exponents, "
            "F2 IS overflows int32 for strings >= 16384 rows), sparse input is canonicalised, and the sparse symmetry test that decides form 6 is "
            "mirror-symmetric under transposition (sort orders included), no method reachable from the binary loader reinterprets bytes read in the "
            "file's byte order. Not decided: float() parsing exactness, "
            "_sparse_col_stats on arbitrary patterns, scipy.sparse behaviour.",
    "note": "Trusted: CPython ast; verifier/e2_formula.py polynomial arithmetic with the bit-operator model of verifier/op4_model.py (<< k = * 2^k; >> k and & "
            "(2^k - 1) resolved only when the low part is declared below 2^k: first row + 1 <= rows < 2^16 for the nonbigmat layout).",
    "technique": "static layout extraction from f-strings / struct formats / slices and symbolic inverse check of header encode/decode; interval bound on packed values",
}
