"""C04 self-test recipes for the value-level rules (same tuple format as selftest.RECIPES)."""
F_ = "pyyeti/nastran/op4.py"

RECIPES = [
    # ---- break: one obligation each
    ("C04", "break", ["C04-R3"], F_,
     '            f.write(colTrailer.pack(IS))\n            f.write(struct.pack(endian + ("%dd" % len(string)), *string))',
     '            f.write(colTrailer.pack(IS))\n            f.write(struct.pack(endian + ("%dd" % r1), *string))',
     "binary nonbigmat: struct format counts entries, not reals (complex strings)"),
    ("C04", "break", ["C04-R3"], F_,
     '            f.write(struct.pack(endian + ("%dd" % elems), *v))\n            f.write(colTrailer.pack(reclen))',
     '            f.write(struct.pack(endian + ("%dd" % elems), *v))\n            f.write(colTrailer.pack(reclen + 4))',
     "dense binary: closing record length differs from the opening one"),
    ("C04", "break", ["C04-R1"], F_, '        numform = f"%{numlen}.{digits}E"', '        numform = f"%{numlen + 1}.{digits}E"',
     "values printed one character wider than announced"),
    ("C04", "break", ["C04-R1"], F_, "        linelen = perline * numlen\n", "        linelen = perline * numlen + 1\n", "loader cuts lines one character too long"),
    ("C04", "break", ["C04-R2", "C04-R3"], F_, "                name = fp.read(8).decode()", "                name = fp.read(4).decode()", "binary loader reads half of the name"),
    ("C04", "break", ["C04-R4"], F_, "            if rows < 0 or rows >= self._rows4bigmat:", "            if rows < 0 or rows > self._rows4bigmat:",
     "loader bigmat boundary"),
    ("C04", "break", ["C04-R2"], F_, "            int_width = 16 if rows > 9_999_999 else 8", "            int_width = 16 if rows > 99_999_999 else 8",
     "8-wide header field cannot hold -10000000"),
    ("C04", "break", ["C04-R3"], F_,
     "                    elems = (e - s + 1) * multiplier\n                    v = np.asarray(v[s : e + 1]).ravel()\n                    v.dtype = float\n"
     "                    _write_col_data(f, v, c, s, elems, perline, numform)",
     "                    elems = (e - s) * multiplier\n                    v = np.asarray(v[s : e + 1]).ravel()\n                    v.dtype = float\n"
     "                    _write_col_data(f, v, c, s, elems, perline, numform)",
     "dense ascii: announced count one entry short of the slice printed"),
    ("C04", "break", ["C04-R3"], F_,
     "                f.write(colTrailer.pack(reclen))\n        reclen = 3 * 4 + 8\n        f.write(colHeader.pack(reclen, cols + 1, 1, 2))",
     "                f.write(colTrailer.pack(reclen))\n        reclen = 3 * 4 + 8\n        f.write(colHeader.pack(reclen, cols + 2, 1, 2))",
     "binary sparse sentinel column number"),
    ("C04", "break", ["C04-R7"], F_, "        return m.astype(np.float64)", "        return m.astype(np.float32)", "_ensure_dp target type"),
    ("C04", "break", ["C04-R7"], F_, '            elif sparse == "nonbigmat":\n                wrtfunc = self._write_binary_nonbigmat',
     '            elif sparse == "nonbigmat":\n                wrtfunc = self._write_binary_bigmat', "write dispatch"),
    ("C04", "break", ["C04-R3"], F_, "                r = IS - ((L + 1) << 16) - 1  # irow-1\n                elems -= L + 1",
     "                r = IS - ((L + 1) << 16)  # irow-1\n                elems -= L + 1", "ascii nonbigmat reader keeps the 1-based row"),
    ("C04", "break", ["C04-R3"], F_, "            r -= 1\n            nwords //= wper", "            nwords //= wper", "dense binary reader keeps the 1-based row"),
    ("C04", "break", ["C04-R3"], F_, "            nwords = ind.shape[0] + 2 * sum(ind[:, 1]) * multiplier\n            f.write(f\"{c + 1:8}{0:8}{nwords:8}\\n\")",
     "            nwords = ind.shape[0] + sum(ind[:, 1]) * multiplier\n            f.write(f\"{c + 1:8}{0:8}{nwords:8}\\n\")", "ascii nonbigmat declared nwords"),
    ("C04", "break", ["C04-R3"], F_, "            while elems > 0:\n                line = self._fileh.readline()\n                L = int(line[c_slice]) - 1  # L",
     "            while elems >= 0:\n                line = self._fileh.readline()\n                L = int(line[c_slice]) - 1  # L",
     "bigmat ascii reader runs once more after the last string"),
    ("C04", "break", ["C04-R3"], F_, "            c = int(line[c_slice]) - 1\n            r = int(line[r_slice])\n        return retrn(rows, cols, X)",
     "            c = int(line[c_slice])\n            r = int(line[r_slice])\n        return retrn(rows, cols, X)",
     "dense ascii reader keeps the 1-based number of the next column"),
    # ---- neutral: refactorings the rules must not notice
    ("C04", "neutral", [], F_, '            f.write(f"{c + 1:8}{s + 1:8}{elems:8}\\n")', '            f.write("%8d%8d%8d\\n" % (c + 1, s + 1, elems))', "f-string -> % formatting"),
    ("C04", "neutral", [], F_,
     "                L = (IS >> 16) - 1  # L\n                r = IS - ((L + 1) << 16) - 1  # irow-1\n                nwords -= L + 1  # words left",
     "                Lp1, irow = divmod(IS, 65536)\n                L = Lp1 - 1\n                r = irow - 1\n                nwords -= Lp1  # words left",
     "shifts -> divmod"),
    ("C04", "neutral", [], F_,
     "        if rows >= self._rows4bigmat:\n            self._write_ascii_bigmat(f, name, matrix, digits, form)\n            return",
     "        too_big = not rows < self._rows4bigmat\n        if too_big:\n            return self._write_ascii_bigmat(f, name, matrix, digits, form)",
     "inverted boundary test, merged return"),
    ("C04", "neutral", [], F_, '        colHeader = struct.Struct(endian + "4i")\n        colTrailer = struct.Struct(endian + "i")\n        LrStruct = struct.Struct(endian + "ii")',
     '        colHeader = struct.Struct(f"{endian}4i")\n        colTrailer = struct.Struct("%si" % endian)\n        LrStruct = struct.Struct("{}2i".format(endian))',
     "struct formats spelled three ways"),
    ("C04", "neutral", [], F_, "        i, j, v = sp.find(m)\n        return m, i, j, _ensure_dp(v)",
     "        trip = sp.find(m)\n        return m, trip[0], trip[1], _ensure_dp(trip[2])", "triplets indexed instead of unpacked"),
    ("C04", "neutral", [], F_, "        i, j, v = sp.find(m)\n        return m, i, j, _ensure_dp(v)",
     "        coo = m.tocoo(copy=True)\n        coo.sum_duplicates()\n        coo.eliminate_zeros()\n        return m, coo.row, coo.col, _ensure_dp(coo.data)",
     "explicit sum_duplicates instead of scipy.sparse.find"),
    ("C04", "neutral", [], F_, "            nwords = 2 * ind.shape[0] + 2 * sum(ind[:, 1]) * multiplier\n            reclen = (3 + nwords) * 4",
     "            nstrings = len(ind)\n            nvalues = ind[:, 1].sum()\n            nwords = 2 * (nstrings + nvalues * multiplier)\n            reclen = 12 + 4 * nwords",
     "nwords / reclen re-associated, len() and .sum()"),
]

# ---------------------------------------------------------------------------------------------------------------------- pass 2
_ASC = "                L = (IS >> 16) - 1  # L\n                r = IS - ((L + 1) << 16) - 1  # irow-1\n                elems -= L + 1"
_BIN = "                L = (IS >> 16) - 1  # L\n                r = IS - ((L + 1) << 16) - 1  # irow-1\n                nwords -= L + 1  # words left"
_ROW = "r = IS - ((L + 1) << 16) - 1"
_LEN = "L = (IS >> 16) - 1"
_SPV = "                and np.allclose(vl[sortl], vu[sortu])\n"
_DNS = "        return np.allclose(m.transpose(), m)\n"
_SENT = '        f.write(f"{cols + 1:8}{1:8}{1:8}\\n")\n        f.write(numform % 2**0.5)\n        f.write("\\n")\n\n    def _write_ascii_nonbigmat('
_DCOL = "        while c < cols:\n            elems = int(line[e_slice])\n            r -= 1"
_NBLOOP = ("            while elems > 0:\n                line = self._fileh.readline()\n                IS = int(line)\n                L = (IS >> 16) - 1  # L\n"
           "                r = IS - ((L + 1) << 16) - 1  # irow-1\n                elems -= L + 1")
_INIT = ("        self._rows4bigmat = 65536\n        # Tunable value ... if number of values exceeds this, read\n        # with numpy.fromfile instead of struct.unpack.\n"
         "        self._rowsCutoff = 3000\n        self.save = self.write\n\n    def __del__(self):\n")
_HDRSL = ("""            if line.endswith("|I16"):
                line = line[:-4]
                c_slice = slice(0, 16)
                r_slice = slice(16, 32)
                f_slice = slice(32, 40)
                t_slice = slice(40, 48)
                n_slice = slice(48, 56)
            else:
                c_slice = slice(0, 8)
                r_slice = slice(8, 16)
                f_slice = slice(16, 24)
                t_slice = slice(24, 32)
                n_slice = slice(32, 40)
""")
_DENSECOLS = ("""        if isinstance(matrix, np.ndarray):
            for c in range(cols):
                v = matrix[:, c]
                if np.any(v):
                    pv = np.nonzero(v)[0]
                    s = pv[0]
                    e = pv[-1]
                    elems = (e - s + 1) * multiplier
                    v = np.asarray(v[s : e + 1]).ravel()
                    v.dtype = float
                    _write_col_data(f, v, c, s, elems, perline, numform)
""")

RECIPES += [
    # ---- break: the row / length field of the nonbigmat string header is 16 bits wide (siblings of round-3 seed H)
    ("C04", "break", ["C04-R3"], F_, _BIN, _BIN.replace(_ROW, "r = (IS & 0x7FFF) - 1"), "binary nonbigmat reader: 15-bit mask for a 16-bit row field"),
    ("C04", "break", ["C04-R3"], F_, _ASC, _ASC.replace(_ROW, "r = IS % 32768 - 1"), "ascii nonbigmat reader: row = IS mod 2^15"),
    ("C04", "break", ["C04-R3"], F_, _BIN, _BIN.replace(_ROW, "r = (IS & 0x1FFFF) - 1"), "binary nonbigmat reader: 17-bit mask takes one bit of the length field"),
    ("C04", "break", ["C04-R3"], F_, _ASC, _ASC.replace(_LEN, "L = (IS >> 15) - 1"), "ascii nonbigmat reader: length field shifted by 15 bits"),
    ("C04", "break", ["C04-R3"], F_, _BIN, _BIN.replace(_LEN, "L = IS // 32768 - 1"), "binary nonbigmat reader: length = IS // 2^15"),
    ("C04", "break", ["C04-R3"], F_, _BIN, _BIN.replace(_LEN, "L = (IS >> 17) - 1"), "binary nonbigmat reader: length field shifted by 17 bits"),
    ("C04", "neutral", [], F_, _BIN, _BIN.replace(_ROW, "r = (IS & 0xFFFF) - 1"), "binary nonbigmat reader: 16-bit mask"),
    ("C04", "neutral", [], F_, _ASC, _ASC.replace(_ROW, "r = IS % 65536 - 1"), "ascii nonbigmat reader: row = IS mod 2^16"),
    # ---- break: ndarray and sparse input apply the same closeness rule to a pair of mirror entries (siblings of round-3 seed G)
    ("C04", "break", ["C04-R8"], F_, _DNS, "        return abs(m.transpose() - m).max() <= 1e-8 + 1e-5 * abs(m).max()\n",
     "ndarray arm of _is_symmetric: tolerance relative to the global maximum"),
    ("C04", "break", ["C04-R8"], F_, _SPV, "                and np.allclose(vl[sortl], vu[sortu], rtol=1e-3)\n", "sparse arm of _is_symmetric: looser rtol than the ndarray arm"),
    ("C04", "break", ["C04-R8"], F_, _SPV, "                and np.all(vl[sortl] == vu[sortu])\n", "sparse arm of _is_symmetric: exact comparison, ndarray arm with tolerance"),
    ("C04", "break", ["C04-R8"], F_, _SPV, "                and abs(vl[sortl] - vu[sortu]).max() <= 1e-8 + 1e-5 * abs(v).max()\n",
     "sparse arm of _is_symmetric: triplet values against the global maximum"),
    ("C04", "break", ["C04-R8"], F_, _DNS, "        return np.allclose(m.transpose(), m, atol=1e-6)\n", "ndarray arm of _is_symmetric: other atol than the sparse arm"),
    ("C04", "break", ["C04-R8"], F_, _DNS, "        return np.allclose(m, m)\n", "ndarray arm of _is_symmetric compares the matrix with itself"),
    ("C04", "break", ["C04-R8"], F_, _DNS, "        return np.allclose(m.conj().T, m)\n", "ndarray arm of _is_symmetric tests for a Hermitian matrix"),
    ("C04", "neutral", [], F_, _SPV, "                and np.allclose(vl[sortl], vu[sortu], rtol=1e-5, atol=1e-8)\n", "sparse arm of _is_symmetric: numpy's default tolerances spelled out"),
    ("C04", "neutral", [], F_, _SPV, "                and np.isclose(vl[sortl], vu[sortu]).all()\n", "sparse arm of _is_symmetric: isclose(...).all()"),
    ("C04", "neutral", [], F_, _SPV, "                and np.all(abs(vl[sortl] - vu[sortu]) <= 1e-8 + 1e-5 * abs(vu[sortu]))\n",
     "sparse arm of _is_symmetric: the allclose inequality spelled out"),
    ("C04", "neutral", [], F_, _DNS, "        return bool(np.all(np.isclose(np.transpose(m), m, 1e-5, 1e-8)))\n", "ndarray arm of _is_symmetric: isclose with positional tolerances"),
    ("C04", "neutral", [], F_, _DNS, "        return np.allclose(m, m.T)\n", "ndarray arm of _is_symmetric: operands swapped, .T"),
    # ---- neutral: refactorings of kinds the stored patches do not have (written for pass 2)
    ("C04", "neutral", [], F_, _SENT, _SENT.replace("f.write(", "emit(").replace('        emit(f"{cols', '        emit = f.write\n        emit(f"{cols', 1),
     "bound method kept in a name: emit = f.write"),
    ("C04", "neutral", [], F_, "            while elems > 0:\n                line = self._fileh.readline()\n                L = int(line[c_slice]) - 1  # L",
     "            nextline = self._fileh.readline\n            while elems > 0:\n                line = nextline()\n                L = int(line[c_slice]) - 1  # L",
     "bound method kept in a name: nextline = self._fileh.readline"),
    ("C04", "neutral", [], F_, _DCOL, "        while True:\n            if c >= cols:\n                break\n            elems = int(line[e_slice])\n            r -= 1",
     "dense ascii reader: loop test moved into a leading break guard"),
    ("C04", "neutral", [], F_, _NBLOOP, _NBLOOP.replace("            while elems > 0:\n", "            while True:\n                if elems <= 0:\n                    break\n"),
     "nonbigmat ascii reader: word-count test moved into a leading break guard"),
    ("C04", "neutral", [], F_, _SENT,
     '        tail = [f"{cols + 1:8}{1:8}{1:8}\\n"]\n        tail.append(numform % 2**0.5)\n        tail.append("\\n")\n        f.write("".join(tail))\n\n    def _write_ascii_nonbigmat(',
     "sentinel lines collected in a list and written with join"),
    ("C04", "neutral", [], F_, _SENT, '        f.writelines([f"{cols + 1:8}{1:8}{1:8}\\n", numform % 2**0.5, "\\n"])\n\n    def _write_ascii_nonbigmat(',
     "sentinel lines written with writelines"),
    ("C04", "neutral", [], F_,
     "            L = r1 * 2 * multiplier\n            f.write(LrStruct.pack(L + 1, r0 + 1))\n            f.write(struct.pack(endian + (\"%dd\" % len(string)), *string))",
     "            L = r1 * 2 * multiplier\n            buf = bytearray(LrStruct.pack(L + 1, r0 + 1))\n            buf += struct.pack(endian + (\"%dd\" % len(string)), *string)\n            f.write(bytes(buf))",
     "binary bigmat string collected in a bytearray"),
    ("C04", "neutral", [], F_, _INIT,
     _INIT.replace("        self._rows4bigmat = 65536\n", "").replace("    def __del__(self):\n", "    @property\n    def _rows4bigmat(self):\n        return 1 << 16\n\n    def __del__(self):\n"),
     "bigmat limit as a read-only property"),
    ("C04", "neutral", [], F_, _HDRSL,
     "            _hdr = {\n                8: (slice(0, 8), slice(8, 16), slice(16, 24), slice(24, 32), slice(32, 40)),\n"
     "                16: (slice(0, 16), slice(16, 32), slice(32, 40), slice(40, 48), slice(48, 56)),\n            }\n"
     "            wide = line.endswith(\"|I16\")\n            if wide:\n                line = line[:-4]\n"
     "            c_slice, r_slice, f_slice, t_slice, n_slice = _hdr[16 if wide else 8]\n",
     "ascii header slices looked up in a table keyed by the integer width"),
    ("C04", "neutral", [], F_, _DENSECOLS,
     "        def _columns(matrix, cols):\n            for c in range(cols):\n                v = matrix[:, c]\n                if np.any(v):\n                    yield c, v\n\n"
     "        if isinstance(matrix, np.ndarray):\n            for c, v in _columns(matrix, cols):\n                pv = np.nonzero(v)[0]\n                s = pv[0]\n"
     "                e = pv[-1]\n                elems = (e - s + 1) * multiplier\n                v = np.asarray(v[s : e + 1]).ravel()\n                v.dtype = float\n"
     "                _write_col_data(f, v, c, s, elems, perline, numform)\n",
     "dense ascii writer: non-empty columns come from a nested generator"),
    ("C04", "neutral", [], F_, '            f.write(f"{c + 1:8}{s + 1:8}{elems:8}\\n")\n            neven = ((elems - 1) // perline) * perline',
     '            print(f"{c + 1:8}{s + 1:8}{elems:8}", file=f)\n            neven = ((elems - 1) // perline) * perline', "dense ascii column header written with print(..., file=f)"),
    ("C04", "neutral", [], F_, '            f.write(f"{L + 1:8}{r0 + 1:8}\\n")', '            print(f"{L + 1:8}", f"{r0 + 1:8}", sep="", file=f)',
     "bigmat ascii string header written with print(a, b, sep='', file=f)"),
    # ---- break: the same constructs carrying a defect
    ("C04", "break", ["C04-R3"], F_, _SENT, _SENT.replace("f.write(", "emit(").replace('        emit(f"{cols + 1', '        emit = f.write\n        emit(f"{cols + 2', 1),
     "aliased write: sentinel column number cols + 2"),
    ("C04", "break", ["C04-R3"], F_, _SENT,
     '        tail = [f"{cols + 1:8}{1:8}{2:8}\\n"]\n        tail.append(numform % 2**0.5)\n        tail.append("\\n")\n        f.write("".join(tail))\n\n    def _write_ascii_nonbigmat(',
     "buffered sentinel announcing two values"),
    ("C04", "break", ["C04-R3"], F_, _DCOL, "        while True:\n            if c > cols:\n                break\n            elems = int(line[e_slice])\n            r -= 1",
     "dense ascii reader: break guard lets the sentinel column through"),
    ("C04", "break", ["C04-R3"], F_, '            f.write(f"{L + 1:8}{r0 + 1:8}\\n")', '            print(f"{L + 1:8}", f"{r0 + 1:8}", file=f)',
     "bigmat ascii string header printed with the default separator (fields shifted by one blank)"),
    ("C04", "break", ["C04-R4"], F_, _INIT,
     _INIT.replace("        self._rows4bigmat = 65536\n", "").replace("    def __del__(self):\n", "    @property\n    def _rows4bigmat(self):\n        return (1 << 16) + 1\n\n    def __del__(self):\n"),
     "bigmat limit property one row too high"),
]

_CH = '            f.write(f"{c + 1:8}{s + 1:8}{elems:8}\\n")\n            neven = ((elems - 1) // perline) * perline'
_CHT = "\n            neven = ((elems - 1) // perline) * perline"
_NBIS = "                IS = int(line)\n                L = (IS >> 16) - 1  # L\n                r = IS - ((L + 1) << 16) - 1  # irow-1\n                elems -= L + 1"
RECIPES += [
    ("C04", "neutral", [], F_, _CH, '            fmt8 = "{:8}".format\n            f.write(fmt8(c + 1) + fmt8(s + 1) + fmt8(elems) + "\\n")' + _CHT, "column header through a bound str.format"),
    ("C04", "neutral", [], F_, _CH, '            w8 = lambda x: f"{x:8}"\n            f.write(w8(c + 1) + w8(s + 1) + w8(elems) + "\\n")' + _CHT, "column header through a lambda"),
    ("C04", "neutral", [], F_, _CH, '            f.write("".join(f"{x:8}" for x in (c + 1, s + 1, elems)) + "\\n")' + _CHT, "column header from a generator over a tuple"),
    ("C04", "neutral", [], F_, _CH, '            f.write("{0:8}{1:8}{2:8}\\n".format(*(c + 1, s + 1, elems)))' + _CHT, "column header: starred tuple into str.format"),
    ("C04", "neutral", [], F_, _CH, '            f.write(str(c + 1).rjust(8) + str(s + 1).rjust(8) + str(elems).rjust(8) + "\\n")' + _CHT, "column header with str().rjust(8)"),
    ("C04", "neutral", [], F_, _CH, '            f.write(format(c + 1, "8") + format(s + 1, "8d") + format(elems, ">8") + "\\n")' + _CHT, "column header with the format() builtin"),
    ("C04", "neutral", [], F_, _NBIS, _NBIS.replace("int(line)", "int(line.split()[0])"), "nonbigmat ascii reader: int(line.split()[0])"),
    ("C04", "break", ["C04-R3"], F_, _CH, '            f.write(str(c + 1).rjust(8) + str(s + 1).rjust(7) + str(elems).rjust(8) + "\\n")' + _CHT, "column header: first-row field 7 wide"),
    ("C04", "break", ["C04-R3"], F_, _CH, '            w8 = lambda x: f"{x:8}"\n            f.write(w8(c + 1) + w8(s) + w8(elems) + "\\n")' + _CHT, "column header through a lambda: 0-based first row"),
]

_IDX = "                np.all(cl[sortl] == ru[sortu])\n"
RECIPES += [
    ("C04", "break", ["C04-R8"], F_, _IDX, "                np.any(cl[sortl] == ru[sortu])\n", "sparse arm of _is_symmetric: column positions compared with any()"),
    ("C04", "break", ["C04-R8"], F_, _IDX, "                np.all(cl[sortl] != ru[sortu])\n", "sparse arm of _is_symmetric: column positions required to differ"),
    ("C04", "break", ["C04-R8"], F_, "                and np.all(rl[sortl] == cu[sortu])\n", "                or np.all(rl[sortl] == cu[sortu])\n",
     "sparse arm of _is_symmetric: positions joined by or"),
    ("C04", "neutral", [], F_, _IDX, "                not np.any(cl[sortl] != ru[sortu])\n", "sparse arm of _is_symmetric: not any(!=) for all(==)"),
    ("C04", "neutral", [], F_, _IDX, "                np.array_equal(cl[sortl], ru[sortu])\n", "sparse arm of _is_symmetric: array_equal for all(==)"),
]

RECIPES += [
    ("C04", "break", ["C04-R7"], F_, "            mtype = 4\n            multiplier = 2\n", "            mtype = 4\n            multiplier = 1\n", "_get_header_info: complex input with one real per entry"),
    ("C04", "break", ["C04-R7"], F_, "            mtype = 2\n            multiplier = 1\n", "            mtype = 1\n            multiplier = 1\n", "_get_header_info: real input announced as type 1"),
]
