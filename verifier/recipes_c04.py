"""C04 self-test recipes for the value-level rules (same tuple format as selftest.RECIPES)."""
F_ = "pyyeti/nastran/op4.py"

RECIPES = [
    # ---- break: one obligation each
    ("C04", "break", ["C04-R3"], F_,
     '            f.write(colTrailer.pack(IS))\n            f.write(struct.pack(endian + ("%dd" % len(string)), *string))',
     '            f.write(colTrailer.pack(IS))\n            f.write(struct.pack(endian + ("%dd" % r1), *string))',
     "binary nonbigmat: struct format counts entries, not reals (complex strings)"),
    ("C04", "break", ["C04-R3"], F_,
     '            f.write(struct.pack(endian + ("%dd" % elems), *v))\n            f.write(colTrailer.pack(reclen))',
     '            f.write(struct.pack(endian + ("%dd" % elems), *v))\n            f.write(colTrailer.pack(reclen + 4))',
     "dense binary: closing record length differs from the opening one"),
    ("C04", "break", ["C04-R1"], F_, '        numform = f"%{numlen}.{digits}E"', '        numform = f"%{numlen + 1}.{digits}E"',
     "values printed one character wider than announced"),
    ("C04", "break", ["C04-R1"], F_, "        linelen = perline * numlen\n", "        linelen = perline * numlen + 1\n", "loader cuts lines one character too long"),
    ("C04", "break", ["C04-R2", "C04-R3"], F_, "                name = fp.read(8).decode()", "                name = fp.read(4).decode()", "binary loader reads half of the name"),
    ("C04", "break", ["C04-R4"], F_, "            if rows < 0 or rows >= self._rows4bigmat:", "            if rows < 0 or rows > self._rows4bigmat:",
     "loader bigmat boundary"),
    ("C04", "break", ["C04-R2"], F_, "            int_width = 16 if rows > 9_999_999 else 8", "            int_width = 16 if rows > 99_999_999 else 8",
     "8-wide header field cannot hold -10000000"),
    ("C04", "break", ["C04-R3"], F_,
     "                    elems = (e - s + 1) * multiplier\n                    v = np.asarray(v[s : e + 1]).ravel()\n                    v.dtype = float\n"
     "                    _write_col_data(f, v, c, s, elems, perline, numform)",
     "                    elems = (e - s) * multiplier\n                    v = np.asarray(v[s : e + 1]).ravel()\n                    v.dtype = float\n"
     "                    _write_col_data(f, v, c, s, elems, perline, numform)",
     "dense ascii: announced count one entry short of the slice printed"),
    ("C04", "break", ["C04-R3"], F_,
     "                f.write(colTrailer.pack(reclen))\n        reclen = 3 * 4 + 8\n        f.write(colHeader.pack(reclen, cols + 1, 1, 2))",
     "                f.write(colTrailer.pack(reclen))\n        reclen = 3 * 4 + 8\n        f.write(colHeader.pack(reclen, cols + 2, 1, 2))",
     "binary sparse sentinel column number"),
    ("C04", "break", ["C04-R7"], F_, "        return m.astype(np.float64)", "        return m.astype(np.float32)", "_ensure_dp target type"),
    ("C04", "break", ["C04-R7"], F_, '            elif sparse == "nonbigmat":\n                wrtfunc = self._write_binary_nonbigmat',
     '            elif sparse == "nonbigmat":\n                wrtfunc = self._write_binary_bigmat', "write dispatch"),
    ("C04", "break", ["C04-R3"], F_, "                r = IS - ((L + 1) << 16) - 1  # irow-1\n                elems -= L + 1",
     "                r = IS - ((L + 1) << 16)  # irow-1\n                elems -= L + 1", "ascii nonbigmat reader keeps the 1-based row"),
    ("C04", "break", ["C04-R3"], F_, "            r -= 1\n            nwords //= wper", "            nwords //= wper", "dense binary reader keeps the 1-based row"),
    ("C04", "break", ["C04-R3"], F_, "            nwords = ind.shape[0] + 2 * sum(ind[:, 1]) * multiplier\n            f.write(f\"{c + 1:8}{0:8}{nwords:8}\\n\")",
     "            nwords = ind.shape[0] + sum(ind[:, 1]) * multiplier\n            f.write(f\"{c + 1:8}{0:8}{nwords:8}\\n\")", "ascii nonbigmat declared nwords"),
    ("C04", "break", ["C04-R3"], F_, "            while elems > 0:\n                line = self._fileh.readline()\n                L = int(line[c_slice]) - 1  # L",
     "            while elems >= 0:\n                line = self._fileh.readline()\n                L = int(line[c_slice]) - 1  # L",
     "bigmat ascii reader runs once more after the last string"),
    ("C04", "break", ["C04-R3"], F_, "            c = int(line[c_slice]) - 1\n            r = int(line[r_slice])\n        return retrn(rows, cols, X)",
     "            c = int(line[c_slice])\n            r = int(line[r_slice])\n        return retrn(rows, cols, X)",
     "dense ascii reader keeps the 1-based number of the next column"),
    # ---- neutral: refactorings the rules must not notice
    ("C04", "neutral", [], F_, '            f.write(f"{c + 1:8}{s + 1:8}{elems:8}\\n")', '            f.write("%8d%8d%8d\\n" % (c + 1, s + 1, elems))', "f-string -> % formatting"),
    ("C04", "neutral", [], F_,
     "                L = (IS >> 16) - 1  # L\n                r = IS - ((L + 1) << 16) - 1  # irow-1\n                nwords -= L + 1  # words left",
     "                Lp1, irow = divmod(IS, 65536)\n                L = Lp1 - 1\n                r = irow - 1\n                nwords -= Lp1  # words left",
     "shifts -> divmod"),
    ("C04", "neutral", [], F_,
     "        if rows >= self._rows4bigmat:\n            self._write_ascii_bigmat(f, name, matrix, digits, form)\n            return",
     "        too_big = not rows < self._rows4bigmat\n        if too_big:\n            return self._write_ascii_bigmat(f, name, matrix, digits, form)",
     "inverted boundary test, merged return"),
    ("C04", "neutral", [], F_, '        colHeader = struct.Struct(endian + "4i")\n        colTrailer = struct.Struct(endian + "i")\n        LrStruct = struct.Struct(endian + "ii")',
     '        colHeader = struct.Struct(f"{endian}4i")\n        colTrailer = struct.Struct("%si" % endian)\n        LrStruct = struct.Struct("{}2i".format(endian))',
     "struct formats spelled three ways"),
    ("C04", "neutral", [], F_, "        i, j, v = sp.find(m)\n        return m, i, j, _ensure_dp(v)",
     "        trip = sp.find(m)\n        return m, trip[0], trip[1], _ensure_dp(trip[2])", "triplets indexed instead of unpacked"),
    ("C04", "neutral", [], F_, "        i, j, v = sp.find(m)\n        return m, i, j, _ensure_dp(v)",
     "        coo = m.tocoo(copy=True)\n        coo.sum_duplicates()\n        coo.eliminate_zeros()\n        return m, coo.row, coo.col, _ensure_dp(coo.data)",
     "explicit sum_duplicates instead of scipy.sparse.find"),
    ("C04", "neutral", [], F_, "            nwords = 2 * ind.shape[0] + 2 * sum(ind[:, 1]) * multiplier\n            reclen = (3 + nwords) * 4",
     "            nstrings = len(ind)\n            nvalues = ind[:, 1].sum()\n            nwords = 2 * (nstrings + nvalues * multiplier)\n            reclen = 12 + 4 * nwords",
     "nwords / reclen re-associated, len() and .sum()"),
]

# ---------------------------------------------------------------------------------------------------------------------- pass 2
_ASC = "                L = (IS >> 16) - 1  # L\n                r = IS - ((L + 1) << 16) - 1  # irow-1\n                elems -= L + 1"
_BIN = "                L = (IS >> 16) - 1  # L\n                r = IS - ((L + 1) << 16) - 1  # irow-1\n                nwords -= L + 1  # words left"
_ROW = "r = IS - ((L + 1) << 16) - 1"
_LEN = "L = (IS >> 16) - 1"
_SPV = "                and np.allclose(vl[sortl], vu[sortu])\n"
_DNS = "        return np.allclose(m.transpose(), m)\n"
_SENT = '        f.write(f"{cols + 1:8}{1:8}{1:8}\\n")\n        f.write(numform % 2**0.5)\n        f.write("\\n")\n\n    def _write_ascii_nonbigmat('
_DCOL = "        while c < cols:\n            elems = int(line[e_slice])\n            r -= 1"
_NBLOOP = ("            while elems > 0:\n                line = self._fileh.readline()\n                IS = int(line)\n                L = (IS >> 16) - 1  # L\n"
           "                r = IS - ((L + 1) << 16) - 1  # irow-1\n                elems -= L + 1")
_INIT = ("        self._rows4bigmat = 65536\n        # Tunable value ... if number of values exceeds this, read\n        # with numpy.fromfile instead of struct.unpack.\n"
         "        self._rowsCutoff = 3000\n        self.save = self.write\n\n    def __del__(self):\n")
_HDRSL = ("""            if line.endswith("|I16"):
                line = line[:-4]
                c_slice = slice(0, 16)
                r_slice = slice(16, 32)
                f_slice = slice(32, 40)
                t_slice = slice(40, 48)
                n_slice = slice(48, 56)
            else:
                c_slice = slice(0, 8)
                r_slice = slice(8, 16)
                f_slice = slice(16, 24)
                t_slice = slice(24, 32)
                n_slice = slice(32, 40)
""")
_DENSECOLS = ("""        if isinstance(matrix, np.ndarray):
            for c in range(cols):
                v = matrix[:, c]
                if np.any(v):
                    pv = np.nonzero(v)[0]
                    s = pv[0]
                    e = pv[-1]
                    elems = (e - s + 1) * multiplier
                    v = np.asarray(v[s : e + 1]).ravel()
                    v.dtype = float
                    _write_col_data(f, v, c, s, elems, perline, numform)
""")

RECIPES += [
    # ---- break: the row / length field of the nonbigmat string header is 16 bits wide (siblings of round-3 seed H)
    ("C04", "break", ["C04-R3"], F_, _BIN, _BIN.replace(_ROW, "r = (IS & 0x7FFF) - 1"), "binary nonbigmat reader: 15-bit mask for a 16-bit row field"),
    ("C04", "break", ["C04-R3"], F_, _ASC, _ASC.replace(_ROW, "r = IS % 32768 - 1"), "ascii nonbigmat reader: row = IS mod 2^15"),
    ("C04", "break", ["C04-R3"], F_, _BIN, _BIN.replace(_ROW, "r = (IS & 0x1FFFF) - 1"), "binary nonbigmat reader: 17-bit mask takes one bit of the length field"),
    ("C04", "break", ["C04-R3"], F_, _ASC, _ASC.replace(_LEN, "L = (IS >> 15) - 1"), "ascii nonbigmat reader: length field shifted by 15 bits"),
    ("C04", "break", ["C04-R3"], F_, _BIN, _BIN.replace(_LEN, "L = IS // 32768 - 1"), "binary nonbigmat reader: length = IS // 2^15"),
    ("C04", "break", ["C04-R3"], F_, _BIN, _BIN.replace(_LEN, "L = (IS >> 17) - 1"), "binary nonbigmat reader: length field shifted by 17 bits"),
    ("C04", "neutral", [], F_, _BIN, _BIN.replace(_ROW, "r = (IS & 0xFFFF) - 1"), "binary nonbigmat reader: 16-bit mask"),
    ("C04", "neutral", [], F_, _ASC, _ASC.replace(_ROW, "r = IS % 65536 - 1"), "ascii nonbigmat reader: row = IS mod 2^16"),
    # ---- break: ndarray and sparse input apply the same closeness rule to a pair of mirror entries (siblings of round-3 seed G)
    ("C04", "break", ["C04-R8"], F_, _DNS, "        return abs(m.transpose() - m).max() <= 1e-8 + 1e-5 * abs(m).max()\n",
     "ndarray arm of _is_symmetric: tolerance relative to the global maximum"),
    ("C04", "break", ["C04-R8"], F_, _SPV, "                and np.allclose(vl[sortl], vu[sortu], rtol=1e-3)\n", "sparse arm of _is_symmetric: looser rtol than the ndarray arm"),
    ("C04", "break", ["C04-R8"], F_, _SPV, "                and np.all(vl[sortl] == vu[sortu])\n", "sparse arm of _is_symmetric: exact comparison, ndarray arm with tolerance"),
    ("C04", "break", ["C04-R8"], F_, _SPV, "                and abs(vl[sortl] - vu[sortu]).max() <= 1e-8 + 1e-5 * abs(v).max()\n",
     "sparse arm of _is_symmetric: triplet values against the global maximum"),
    ("C04", "break", ["C04-R8"], F_, _DNS, "        return np.allclose(m.transpose(), m, atol=1e-6)\n", "ndarray arm of _is_symmetric: other atol than the sparse arm"),
    ("C04", "break", ["C04-R8"], F_, _DNS, "        return np.allclose(m, m)\n", "ndarray arm of _is_symmetric compares the matrix with itself"),
    ("C04", "break", ["C04-R8"], F_, _DNS, "        return np.allclose(m.conj().T, m)\n", "ndarray arm of _is_symmetric tests for a Hermitian matrix"),
    ("C04", "neutral", [], F_, _SPV, "                and np.allclose(vl[sortl], vu[sortu], rtol=1e-5, atol=1e-8)\n", "sparse arm of _is_symmetric: numpy's default tolerances spelled out"),
    ("C04", "neutral", [], F_, _SPV, "                and np.isclose(vl[sortl], vu[sortu]).all()\n", "sparse arm of _is_symmetric: isclose(...).all()"),
    ("C04", "neutral", [], F_, _SPV, "                and np.all(abs(vl[sortl] - vu[sortu]) <= 1e-8 + 1e-5 * abs(vu[sortu]))\n",
     "sparse arm of _is_symmetric: the allclose inequality spelled out"),
    ("C04", "neutral", [], F_, _DNS, "        return bool(np.all(np.isclose(np.transpose(m), m, 1e-5, 1e-8)))\n", "ndarray arm of _is_symmetric: isclose with positional tolerances"),
    ("C04", "neutral", [], F_, _DNS, "        return np.allclose(m, m.T)\n", "ndarray arm of _is_symmetric: operands swapped, .T"),
    # ---- neutral: refactorings of kinds the stored patches do not have (written for pass 2)
    ("C04", "neutral", [], F_, _SENT, _SENT.replace("f.write(", "emit(").replace('        emit(f"{cols', '        emit = f.write\n        emit(f"{cols', 1),
     "bound method kept in a name: emit = f.write"),
    ("C04", "neutral", [], F_, "            while elems > 0:\n                line = self._fileh.readline()\n                L = int(line[c_slice]) - 1  # L",
     "            nextline = self._fileh.readline\n            while elems > 0:\n                line = nextline()\n                L = int(line[c_slice]) - 1  # L",
     "bound method kept in a name: nextline = self._fileh.readline"),
    ("C04", "neutral", [], F_, _DCOL, "        while True:\n            if c >= cols:\n                break\n            elems = int(line[e_slice])\n            r -= 1",
     "dense ascii reader: loop test moved into a leading break guard"),
    ("C04", "neutral", [], F_, _NBLOOP, _NBLOOP.replace("            while elems > 0:\n", "            while True:\n                if elems <= 0:\n                    break\n"),
     "nonbigmat ascii reader: word-count test moved into a leading break guard"),
    ("C04", "neutral", [], F_, _SENT,
     '        tail = [f"{cols + 1:8}{1:8}{1:8}\\n"]\n        tail.append(numform % 2**0.5)\n        tail.append("\\n")\n        f.write("".join(tail))\n\n    def _write_ascii_nonbigmat(',
     "sentinel lines collected in a list and written with join"),
    ("C04", "neutral", [], F_, _SENT, '        f.writelines([f"{cols + 1:8}{1:8}{1:8}\\n", numform % 2**0.5, "\\n"])\n\n    def _write_ascii_nonbigmat(',
     "sentinel lines written with writelines"),
    ("C04", "neutral", [], F_,
     "            L = r1 * 2 * multiplier\n            f.write(LrStruct.pack(L + 1, r0 + 1))\n            f.write(struct.pack(endian + (\"%dd\" % len(string)), *string))",
     "            L = r1 * 2 * multiplier\n            buf = bytearray(LrStruct.pack(L + 1, r0 + 1))\n            buf += struct.pack(endian + (\"%dd\" % len(string)), *string)\n            f.write(bytes(buf))",
     "binary bigmat string collected in a bytearray"),
    ("C04", "neutral", [], F_, _INIT,
     _INIT.replace("        self._rows4bigmat = 65536\n", "").replace("    def __del__(self):\n", "    @property\n    def _rows4bigmat(self):\n        return 1 << 16\n\n    def __del__(self):\n"),
     "bigmat limit as a read-only property"),
    ("C04", "neutral", [], F_, _HDRSL,
     "            _hdr = {\n                8: (slice(0, 8), slice(8, 16), slice(16, 24), slice(24, 32), slice(32, 40)),\n"
     "                16: (slice(0, 16), slice(16, 32), slice(32, 40), slice(40, 48), slice(48, 56)),\n            }\n"
     "            wide = line.endswith(\"|I16\")\n            if wide:\n                line = line[:-4]\n"
     "            c_slice, r_slice, f_slice, t_slice, n_slice = _hdr[16 if wide else 8]\n",
     "ascii header slices looked up in a table keyed by the integer width"),
    ("C04", "neutral", [], F_, _DENSECOLS,
     "        def _columns(matrix, cols):\n            for c in range(cols):\n                v = matrix[:, c]\n                if np.any(v):\n                    yield c, v\n\n"
     "        if isinstance(matrix, np.ndarray):\n            for c, v in _columns(matrix, cols):\n                pv = np.nonzero(v)[0]\n                s = pv[0]\n"
     "                e = pv[-1]\n                elems = (e - s + 1) * multiplier\n                v = np.asarray(v[s : e + 1]).ravel()\n                v.dtype = float\n"
     "                _write_col_data(f, v, c, s, elems, perline, numform)\n",
     "dense ascii writer: non-empty columns come from a nested generator"),
    ("C04", "neutral", [], F_, '            f.write(f"{c + 1:8}{s + 1:8}{elems:8}\\n")\n            neven = ((elems - 1) // perline) * perline',
     '            print(f"{c + 1:8}{s + 1:8}{elems:8}", file=f)\n            neven = ((elems - 1) // perline) * perline', "dense ascii column header written with print(..., file=f)"),
    ("C04", "neutral", [], F_, '            f.write(f"{L + 1:8}{r0 + 1:8}\\n")', '            print(f"{L + 1:8}", f"{r0 + 1:8}", sep="", file=f)',
     "bigmat ascii string header written with print(a, b, sep='', file=f)"),
    # ---- break: the same constructs carrying a defect
    ("C04", "break", ["C04-R3"], F_, _SENT, _SENT.replace("f.write(", "emit(").replace('        emit(f"{cols + 1', '        emit = f.write\n        emit(f"{cols + 2', 1),
     "aliased write: sentinel column number cols + 2"),
    ("C04", "break", ["C04-R3"], F_, _SENT,
     '        tail = [f"{cols + 1:8}{1:8}{2:8}\\n"]\n        tail.append(numform % 2**0.5)\n        tail.append("\\n")\n        f.write("".join(tail))\n\n    def _write_ascii_nonbigmat(',
     "buffered sentinel announcing two values"),
    ("C04", "break", ["C04-R3"], F_, _DCOL, "        while True:\n            if c > cols:\n                break\n            elems = int(line[e_slice])\n            r -= 1",
     "dense ascii reader: break guard lets the sentinel column through"),
    ("C04", "break", ["C04-R3"], F_, '            f.write(f"{L + 1:8}{r0 + 1:8}\\n")', '            print(f"{L + 1:8}", f"{r0 + 1:8}", file=f)',
     "bigmat ascii string header printed with the default separator (fields shifted by one blank)"),
    ("C04", "break", ["C04-R4"], F_, _INIT,
     _INIT.replace("        self._rows4bigmat = 65536\n", "").replace("    def __del__(self):\n", "    @property\n    def _rows4bigmat(self):\n        return (1 << 16) + 1\n\n    def __del__(self):\n"),
     "bigmat limit property one row too high"),
]

_CH = '            f.write(f"{c + 1:8}{s + 1:8}{elems:8}\\n")\n            neven = ((elems - 1) // perline) * perline'
_CHT = "\n            neven = ((elems - 1) // perline) * perline"
_NBIS = "                IS = int(line)\n                L = (IS >> 16) - 1  # L\n                r = IS - ((L + 1) << 16) - 1  # irow-1\n                elems -= L + 1"
RECIPES += [
    ("C04", "neutral", [], F_, _CH, '            fmt8 = "{:8}".format\n            f.write(fmt8(c + 1) + fmt8(s + 1) + fmt8(elems) + "\\n")' + _CHT, "column header through a bound str.format"),
    ("C04", "neutral", [], F_, _CH, '            w8 = lambda x: f"{x:8}"\n            f.write(w8(c + 1) + w8(s + 1) + w8(elems) + "\\n")' + _CHT, "column header through a lambda"),
    ("C04", "neutral", [], F_, _CH, '            f.write("".join(f"{x:8}" for x in (c + 1, s + 1, elems)) + "\\n")' + _CHT, "column header from a generator over a tuple"),
    ("C04", "neutral", [], F_, _CH, '            f.write("{0:8}{1:8}{2:8}\\n".format(*(c + 1, s + 1, elems)))' + _CHT, "column header: starred tuple into str.format"),
    ("C04", "neutral", [], F_, _CH, '            f.write(str(c + 1).rjust(8) + str(s + 1).rjust(8) + str(elems).rjust(8) + "\\n")' + _CHT, "column header with str().rjust(8)"),
    ("C04", "neutral", [], F_, _CH, '            f.write(format(c + 1, "8") + format(s + 1, "8d") + format(elems, ">8") + "\\n")' + _CHT, "column header with the format() builtin"),
    ("C04", "neutral", [], F_, _NBIS, _NBIS.replace("int(line)", "int(line.split()[0])"), "nonbigmat ascii reader: int(line.split()[0])"),
    ("C04", "break", ["C04-R3"], F_, _CH, '            f.write(str(c + 1).rjust(8) + str(s + 1).rjust(7) + str(elems).rjust(8) + "\\n")' + _CHT, "column header: first-row field 7 wide"),
    ("C04", "break", ["C04-R3"], F_, _CH, '            w8 = lambda x: f"{x:8}"\n            f.write(w8(c + 1) + w8(s) + w8(elems) + "\\n")' + _CHT, "column header through a lambda: 0-based first row"),
]

_IDX = "                np.all(cl[sortl] == ru[sortu])\n"
RECIPES += [
    ("C04", "break", ["C04-R8"], F_, _IDX, "                np.any(cl[sortl] == ru[sortu])\n", "sparse arm of _is_symmetric: column positions compared with any()"),
    ("C04", "break", ["C04-R8"], F_, _IDX, "                np.all(cl[sortl] != ru[sortu])\n", "sparse arm of _is_symmetric: column positions required to differ"),
    ("C04", "break", ["C04-R8"], F_, "                and np.all(rl[sortl] == cu[sortu])\n", "                or np.all(rl[sortl] == cu[sortu])\n",
     "sparse arm of _is_symmetric: positions joined by or"),
    ("C04", "neutral", [], F_, _IDX, "                not np.any(cl[sortl] != ru[sortu])\n", "sparse arm of _is_symmetric: not any(!=) for all(==)"),
    ("C04", "neutral", [], F_, _IDX, "                np.array_equal(cl[sortl], ru[sortu])\n", "sparse arm of _is_symmetric: array_equal for all(==)"),
]

RECIPES += [
    ("C04", "break", ["C04-R7"], F_, "            mtype = 4\n            multiplier = 2\n", "            mtype = 4\n            multiplier = 1\n", "_get_header_info: complex input with one real per entry"),
    ("C04", "break", ["C04-R7"], F_, "            mtype = 2\n            multiplier = 1\n", "            mtype = 1\n            multiplier = 1\n", "_get_header_info: real input announced as type 1"),
]


# ---------------------------------------------------------------------------------------------------------------- pass 3
# constructs the evaluator lowers since pass 3 (reads cut from one buffer, unpack_from, seek, numpy typed arrays, match, tables indexed by flags,
# records, counter loops, enumerate over the transpose, index loops, io buffers, partial, max()): a correct variant each, and a broken sibling
_TAIL = ("                Y = np.fromfile(fp, numform2, nwords)\n            put(X, r, c, Y)\n            fp.read(4)\n            reclen = s4(fp.read(4))[0]\n"
         "            c, r, nwords = s3(fp.read(b3))\n")
_TAIL_HEAD = "                Y = np.fromfile(fp, numform2, nwords)\n            put(X, r, c, Y)\n"
_LB = "        reclen = self._Str_i4.unpack(fp.read(4))[0]\n        c, r, nwords = self._Str_iii.unpack(fp.read(self._bytes_iii))\n"
_DW = '            f.write(struct.pack(endian + ("%dd" % elems), *v))\n'
_MT = ("        if mtype & 1:\n            numform = self._str_sr\n            numform2 = self._str_sr_fromfile\n            bytesreal = self._bytes_sr\n"
       "            wper = 1\n        else:\n            numform = self._str_dr\n            numform2 = self._str_dr_fromfile\n            bytesreal = 8\n"
       "            wper = self._wordsperdouble  # should this be 2 no matter what?\n")


def _mt(first):
    return (f"        match mtype & 1:\n            case {first}:\n                numform, numform2 = self._str_sr, self._str_sr_fromfile\n"
            "                bytesreal, wper = self._bytes_sr, 1\n            case _:\n                numform, numform2 = self._str_dr, self._str_dr_fromfile\n"
            "                bytesreal, wper = 8, self._wordsperdouble\n")


_WPER = "        wper = 1 if mtype & 1 else 2\n        line = self._fileh.readline()\n        linelen = perline * numlen\n"
_SL8 = ("                c_slice = slice(0, 8)\n                r_slice = slice(8, 16)\n                f_slice = slice(16, 24)\n                t_slice = slice(24, 32)\n"
        "                n_slice = slice(32, 40)\n")
_DA = ("            for c in range(cols):\n                v = matrix[:, c]\n                if np.any(v):\n                    pv = np.nonzero(v)[0]\n"
       "                    s = pv[0]\n                    e = pv[-1]\n                    elems = (e - s + 1) * multiplier\n"
       "                    v = np.asarray(v[s : e + 1]).ravel()\n                    v.dtype = float\n")
_DA_A = _DA + "                    _write_col_data(f, v, c, s, elems, perline, numform)\n"
_DA_B = _DA + "                    _write_col_data(f, v, c, s, elems, endian, colHeader, colTrailer)\n"


def _while_cols(step):
    return ("            c = 0\n            while c < cols:\n                v = matrix[:, c]\n                if np.any(v):\n                    pv = np.nonzero(v)[0]\n"
            "                    s = pv[0]\n                    e = pv[-1]\n                    elems = (e - s + 1) * multiplier\n"
            "                    v = np.asarray(v[s : e + 1]).ravel()\n                    v.dtype = float\n"
            f"                    _write_col_data(f, v, c{step}, s, elems, perline, numform)\n                c += 1\n")


def _enum_cols(start):
    return (f"            for c, v in enumerate(matrix.T{start}):\n                if not np.any(v):\n                    continue\n                pv = np.nonzero(v)[0]\n"
            "                s, e = pv[[0, -1]]\n                elems = (e - s + 1) * multiplier\n                v = np.asarray(v[s : e + 1]).ravel()\n"
            "                v.dtype = float\n                _write_col_data(f, v, c, s, elems, endian, colHeader, colTrailer)\n")


_IXL = ("                    for r0, r1 in ind:\n                        string = v[r0 : r0 + r1]\n                        string.dtype = float\n"
        "                        _write_data_string(\n                            f, string, r0, r1, multiplier, perline, numform\n                        )\n")


def _ixl(a, b):
    return (f"                    for k in range(len(ind)):\n                        {a}, {b} = ind[k]\n                        string = v[r0 : r0 + r1]\n"
            "                        string.dtype = float\n                        _write_data_string(\n"
            "                            f, string, r0, r1, multiplier, perline, numform\n                        )\n")


_LIM = ("            if rows > 99_999_999 or cols > 99_999_998:\n                raise ValueError(\n"
        "                    \"current maximum matrix dimensions for ascii writes are:\"\n                    f\" (99999999, 99999998). Have: {mat.shape}.\"\n                )\n")


def _lim(rmax):
    return (f"            if max(rows - {rmax}, cols - 99_999_998) > 0:\n                raise ValueError(\n"
            "                    \"current maximum matrix dimensions for ascii writes are:\"\n                    f\" (99999999, 99999998). Have: {mat.shape}.\"\n                )\n")


_BREC = ("            f.write(colHeader.pack(reclen, c + 1, s + 1, 2 * elems))\n            f.write(struct.pack(endian + (\"%dd\" % elems), *v))\n"
         "            f.write(colTrailer.pack(reclen))\n")


def _brec(order):
    parts = {"h": "            rec.write(colHeader.pack(reclen, c + 1, s + 1, 2 * elems))\n",
             "d": "            rec.write(struct.pack(endian + (\"%dd\" % elems), *v))\n", "t": "            rec.write(colTrailer.pack(reclen))\n"}
    return "            import io\n\n            rec = io.BytesIO()\n" + "".join(parts[k] for k in order) + "            f.write(rec.getvalue())\n"


_NBH = ("        def _write_col_header(f, ind, c, multiplier):\n            nwords = ind.shape[0] + 2 * sum(ind[:, 1]) * multiplier\n"
        "            f.write(f\"{c + 1:8}{0:8}{nwords:8}\\n\")\n")


def _nbh(hw):
    return ("        import functools\n\n        def _col_header(f, ind, c, multiplier, *, hdrwords):\n"
            "            nwords = hdrwords * ind.shape[0] + 2 * sum(ind[:, 1]) * multiplier\n            f.write(f\"{c + 1:8}{0:8}{nwords:8}\\n\")\n\n"
            f"        _write_col_header = functools.partial(_col_header, hdrwords={hw})\n")


_EDP = ("    if np.iscomplexobj(m):\n        if m.dtype != np.complex128:\n            return m.astype(np.complex128)\n    elif m.dtype != np.float64:\n"
        "        return m.astype(np.float64)\n    return m\n")
_FUNCS = ("        if not sparse:\n            if mtype < 3:\n                funcs = (OP4._init_dense_real, put_values, OP4._dense_matrix)\n            else:\n"
          "                funcs = (OP4._init_dense_complex, put_values_c, OP4._dense_matrix)\n")

RECIPES += [
    ("C04", "neutral", [], F_, _TAIL, _TAIL_HEAD + "            tail = fp.read(8 + b3)\n            reclen = s4(tail[4:8])[0]\n            c, r, nwords = s3(tail[8:])\n",
     "dense binary reader: trailer, next record length and next column header cut from one read"),
    ("C04", "break", ["C04-R3"], F_, _TAIL, _TAIL_HEAD + "            tail = fp.read(8 + b3)\n            reclen = s4(tail[4:8])[0]\n            c, r, nwords = s3(tail[4 : 4 + b3])\n",
     "dense binary reader: column header cut four bytes early from the bytes read"),
    ("C04", "neutral", [], F_, _TAIL, _TAIL_HEAD + "            fp.seek(4, 1)\n            (reclen,) = s4(fp.read(4))\n            c, r, nwords = s3(fp.read(b3))\n",
     "dense binary reader: the record trailer is skipped with seek(4, 1)"),
    ("C04", "break", ["C04-R3"], F_, _TAIL, _TAIL_HEAD + "            fp.seek(8, 1)\n            (reclen,) = s4(fp.read(4))\n            c, r, nwords = s3(fp.read(b3))\n",
     "dense binary reader: seek skips eight bytes where the trailer has four"),
    ("C04", "neutral", [], F_, _LB, "        buf = fp.read(4 + self._bytes_iii)\n        (reclen,) = self._Str_i4.unpack_from(buf)\n"
     "        c, r, nwords = self._Str_iii.unpack_from(buf, 4)\n", "binary loader: first column header through unpack_from on one buffer"),
    ("C04", "break", ["C04-R2", "C04-R3"], F_, _LB, "        buf = fp.read(4 + self._bytes_iii)\n        (reclen,) = self._Str_i4.unpack_from(buf)\n"
     "        c, r, nwords = self._Str_iii.unpack_from(buf, 8)\n", "binary loader: unpack_from at offset 8 runs past the bytes read"),
    ("C04", "neutral", [], F_, _DW, '            f.write(np.asarray(v, dtype=endian + "f8").tobytes())\n', "dense binary writer: values through numpy (asarray with the file's dtype, tobytes)"),
    ("C04", "break", ["C04-R3"], F_, _DW, '            f.write(np.asarray(v, dtype=endian + "f4").tobytes())\n', "dense binary writer: values converted to 4-byte reals"),
    ("C04", "neutral", [], F_, _MT, _mt(1), "binary loader: precision selected by a match statement"),
    ("C04", "break", ["C04-R3"], F_, _MT, _mt(0), "binary loader: match arms exchanged (double precision read as single)"),
    ("C04", "neutral", [], F_, _WPER, _WPER.replace("1 if mtype & 1 else 2", "(2, 1)[bool(mtype & 1)]"), "ascii loader: words per value from a table indexed by a flag"),
    ("C04", "break", ["C04-R3"], F_, _WPER, _WPER.replace("1 if mtype & 1 else 2", "(1, 2)[bool(mtype & 1)]"), "ascii loader: flag-indexed table with its entries exchanged"),
    ("C04", "neutral", [], F_, _SL8, "                c_slice, r_slice, *rest = slice(0, 8), slice(8, 16), slice(16, 24), slice(24, 32), slice(32, 40)\n"
     "                f_slice, t_slice, n_slice = rest\n", "ascii loader: header slices through a starred unpacking"),
    ("C04", "break", ["C04-R2"], F_, _SL8, "                c_slice, r_slice, *rest = slice(0, 8), slice(8, 16), slice(16, 24), slice(24, 32), slice(32, 40)\n"
     "                f_slice, t_slice, n_slice = rest[0], rest[1], rest[1]\n", "ascii loader: starred unpacking, name read from the type field"),
    ("C04", "neutral", [], F_, _DA_A, _while_cols(""), "dense ascii writer: columns counted by a while loop"),
    ("C04", "break", ["C04-R3"], F_, _DA_A, _while_cols(" + 1"), "dense ascii writer: while-loop counter announced one column too high"),
    ("C04", "neutral", [], F_, _DA_B, _enum_cols(""), "dense binary writer: columns by enumerate over the transpose, first / last row by a list index"),
    ("C04", "break", ["C04-R3"], F_, _DA_B, _enum_cols(", 1"), "dense binary writer: enumerate starts at 1 (column number off by one)"),
    ("C04", "neutral", [], F_, _IXL, _ixl("r0", "r1"), "ascii sparse writer: strings reached through an index loop"),
    ("C04", "break", ["C04-R3"], F_, _IXL, _ixl("r1", "r0"), "ascii sparse writer: index loop unpacks (length, start) for (start, length)"),
    ("C04", "neutral", [], F_, _LIM, _lim("99_999_999"), "_get_header_info: dimension limits tested through max()"),
    ("C04", "break", ["C04-R2", "C04-R4"], F_, _LIM, _lim("999_999_999"), "_get_header_info: max() test admits nine-digit row counts"),
    ("C04", "neutral", [], F_, _BREC, _brec("hdt"), "dense binary writer: record assembled in an io.BytesIO"),
    ("C04", "break", ["C04-R3"], F_, _BREC, _brec("htd"), "dense binary writer: buffered record with the trailer in front of the values"),
    ("C04", "neutral", [], F_, _NBH, _nbh(1), "nonbigmat ascii column header through functools.partial with a keyword-only argument"),
    ("C04", "break", ["C04-R3"], F_, _NBH, _nbh(2), "nonbigmat ascii column header: partial binds two header words per string"),
    ("C04", "neutral", [], F_, _EDP, "    target = np.complex128 if np.iscomplexobj(m) else np.float64\n    return m if m.dtype == target else m.astype(target)\n",
     "_ensure_dp as two conditional expressions"),
    ("C04", "break", ["C04-R7"], F_, _EDP, "    target = np.complex64 if np.iscomplexobj(m) else np.float64\n    return m if m.dtype == target else m.astype(target)\n",
     "_ensure_dp as conditional expressions: complex64 target"),
    ("C04", "neutral", [], F_, _FUNCS, "        if not sparse:\n            init = (OP4._init_dense_real, OP4._init_dense_complex)[mtype >= 3]\n"
     "            funcs = (init, (put_values, put_values_c)[not mtype < 3], OP4._dense_matrix)\n", "_get_funcs: callbacks from tables indexed by comparisons"),
]

_SYM = ("        if isinstance(m, tuple):\n            r, c, v = m[1:]\n            low = r > c  # values in lower triangle\n            upp = c > r  # values in upper triangle\n\n"
        "            if np.count_nonzero(low) != np.count_nonzero(upp):\n                return False\n\n            rl = r[low]\n            cl = c[low]\n"
        "            vl = v[low]\n            ru = r[upp]\n            cu = c[upp]\n            vu = v[upp]\n\n            sortl = np.lexsort((cl, rl))\n"
        "            sortu = np.lexsort((ru, cu))\n            return (\n                np.all(cl[sortl] == ru[sortu])\n                and np.all(rl[sortl] == cu[sortu])\n"
        "                and np.allclose(vl[sortl], vu[sortu])\n            )\n        return np.allclose(m.transpose(), m)\n")


def _sym_helper(second):
    return ("        if not isinstance(m, tuple):\n            return np.allclose(m.transpose(), m)\n\n        _, r, c, v = m\n\n        def triangle(major, minor):\n"
            "            # entries with major > minor, ordered by (major, minor)\n            pick = major > minor\n"
            "            order = np.lexsort((minor[pick], major[pick]))\n"
            "            return np.count_nonzero(pick), major[pick][order], minor[pick][order], v[pick][order]\n\n"
            "        nlow, rl, cl, vl = triangle(r, c)\n        nupp, cu, ru, vu = triangle(c, r)\n        if nlow != nupp:\n            return False\n"
            f"        for lower, upper in ((cl, ru), {second}):\n            if not np.array_equal(lower, upper):\n                return False\n"
            "        return np.allclose(vl, vu)\n")


def _sym_early(rows_rhs):
    return ("        if not isinstance(m, tuple):\n            return np.allclose(m.transpose(), m)\n\n        r, c, v = m[1:]\n        low = r > c\n        upp = c > r\n\n"
            "        if np.count_nonzero(low) != np.count_nonzero(upp):\n            return False\n\n        rl, cl, vl = r[low], c[low], v[low]\n"
            "        ru, cu, vu = r[upp], c[upp], v[upp]\n        sortl = np.lexsort((cl, rl))\n        sortu = np.lexsort((ru, cu))\n"
            "        same_cols = np.all(cl[sortl] == ru[sortu])\n        if not same_cols:\n            return same_cols\n"
            f"        same_rows = np.all(rl[sortl] == {rows_rhs}[sortu])\n        if not same_rows:\n            return False\n"
            "        return np.allclose(vl[sortl], vu[sortu])\n")


_WB = ('            if sparse == "dense":\n                wrtfunc = self._write_binary\n            elif sparse == "bigmat":\n                wrtfunc = self._write_binary_bigmat\n'
       '            elif sparse == "nonbigmat":\n                wrtfunc = self._write_binary_nonbigmat\n            elif sparse != "auto":\n'
       '                raise ValueError("invalid sparse option")\n            if endian == "":\n')


def _wb_match(nb):
    return ('            match sparse:\n                case "dense":\n                    wrtfunc = self._write_binary\n                case "bigmat":\n'
            f'                    wrtfunc = self._write_binary_bigmat\n                case "nonbigmat":\n                    wrtfunc = self.{nb}\n'
            '                case "auto":\n                    pass\n                case _:\n                    raise ValueError("invalid sparse option")\n'
            '            if endian == "":\n')


_WA = ('            if sparse == "dense":\n                wrtfunc = self._write_ascii\n            elif sparse == "bigmat":\n                wrtfunc = self._write_ascii_bigmat\n'
       '            elif sparse == "nonbigmat":\n                wrtfunc = self._write_ascii_nonbigmat\n            elif sparse != "auto":\n'
       '                raise ValueError("invalid sparse option")\n            with open(filename, "w") as f:\n')


def _wa_table(dense):
    return (f'            ascii_writers = {{\n                "dense": self.{dense},\n                "bigmat": self._write_ascii_bigmat,\n'
            '                "nonbigmat": self._write_ascii_nonbigmat,\n            }\n            if sparse in ascii_writers:\n'
            '                wrtfunc = ascii_writers[sparse]\n            elif sparse != "auto":\n                raise ValueError("invalid sparse option")\n'
            '            with open(filename, "w") as f:\n')


_E2D = "        i, j, v = sp.find(m)\n        return m, i, j, _ensure_dp(v)\n"
_BGR = ("            while nwords > 0:\n                L, r = s2(fp.read(b2))\n                nwords -= L + 1\n                L = (L - 1) // wper\n                r -= 1\n"
        "                if L < cutoff:\n                    Y = struct.unpack(numform % L, fp.read(bytesreal * L))\n                else:\n"
        "                    Y = np.fromfile(fp, numform2, L)\n                put(X, r, c, Y)\n")


def _bgr(row):
    return ("            def strings(nwords):\n                while nwords > 0:\n                    L, r = s2(fp.read(b2))\n                    nwords -= L + 1\n"
            "                    L = (L - 1) // wper\n                    if L < cutoff:\n"
            f"                        yield {row}, struct.unpack(numform % L, fp.read(bytesreal * L))\n                    else:\n"
            f"                        yield {row}, np.fromfile(fp, numform2, L)\n\n            for r, Y in strings(nwords):\n                put(X, r, c, Y)\n")


_SKB = "        bigmat = rows < 0 or rows >= self._rows4bigmat\n        if mtype & 1:\n            wper = 1\n        else:\n            wper = 2\n"

RECIPES += [
    ("C04", "neutral", [], F_, _SYM, _sym_helper("(rl, cu)"), "_is_symmetric: triangles from a nested helper, positions compared in a loop with early returns"),
    ("C04", "break", ["C04-R8"], F_, _SYM, _sym_helper("(rl, ru)"), "_is_symmetric with a helper: rows of the lower triangle compared with rows of the upper one"),
    ("C04", "neutral", [], F_, _SYM, _sym_early("cu"), "_is_symmetric: the conjunction unrolled into early returns (return the failed test / return False)"),
    ("C04", "break", ["C04-R8"], F_, _SYM, _sym_early("ru"), "_is_symmetric unrolled: second early return compares rows with rows"),
    ("C04", "neutral", [], F_, _WB, _wb_match("_write_binary_nonbigmat"), "write: binary dispatch by a match statement"),
    ("C04", "break", ["C04-R7"], F_, _WB, _wb_match("_write_binary_bigmat"), "write: match statement sends 'nonbigmat' to the bigmat writer"),
    ("C04", "neutral", [], F_, _WA, _wa_table("_write_ascii"), "write: ascii dispatch through a dictionary of bound methods"),
    ("C04", "break", ["C04-R7"], F_, _WA, _wa_table("_write_ascii_bigmat"), "write: dictionary maps 'dense' to the bigmat writer"),
    ("C04", "neutral", [], F_, _E2D, "        triplets = sp.find(m)\n        return (m, *triplets[:2], _ensure_dp(triplets[2]))\n", "_ensure_2d_dp: triplets passed on through a starred slice"),
    ("C04", "break", ["C04-R7"], F_, _E2D, "        triplets = sp.find(m)\n        return (m, *triplets[1::-1], _ensure_dp(triplets[2]))\n".replace("triplets[1::-1]", "(triplets[1], triplets[0])"),
     "_ensure_2d_dp: starred tuple passes (col, row) for (row, col)"),
    ("C04", "neutral", [], F_, _BGR, _bgr("r - 1"), "bigmat binary reader: strings of a column from a nested generator"),
    ("C04", "break", ["C04-R3"], F_, _BGR, _bgr("r"), "bigmat binary reader: generator yields the 1-based row"),
    ("C04", "neutral", [], F_, _SKB, "        bigmat = not 0 <= rows < self._rows4bigmat\n        wper = 1 if mtype & 1 else 2\n", "skipper: chained comparison for the bigmat test"),
    ("C04", "break", ["C04-R4"], F_, _SKB, "        bigmat = not 0 <= rows <= self._rows4bigmat\n        wper = 1 if mtype & 1 else 2\n", "skipper: chained comparison admits 65536 rows as nonbigmat"),
]

_FB = ("            if nwords < cutoff:\n                Y = struct.unpack(numform % nwords, fp.read(bytesreal * nwords))\n            else:\n"
       "                Y = np.fromfile(fp, numform2, nwords)\n")


def _fb(nbytes):
    return (f"            raw = fp.read({nbytes} * nwords)\n            if nwords < cutoff:\n                Y = struct.unpack(numform % nwords, raw)\n"
            "            else:\n                Y = np.frombuffer(raw, numform2)\n")


_NM = ("            if self._bit64:\n                name = fp.read(16).decode()\n            else:\n                name = fp.read(8).decode()\n"
       "            name = self._check_name(name)\n")
_BH = ('        name = (f"{name.upper():<8}").encode()\n        if bigmat:\n            # ~~ if rows < self._rows4bigmat:\n            rows = -rows\n'
       '        f.write(struct.pack(endian + "5i8si", 24, cols, rows, form, mtype, name, 24))\n')


def _bh(pad, closing):
    return (f'        name = name.upper().{pad}(8).encode()\n        if bigmat:\n            # ~~ if rows < self._rows4bigmat:\n            rows = -rows\n'
            '        mark = struct.pack(f"{endian}i", 24)\n'
            f'        f.write(mark + struct.pack(f"{{endian}}4i8s", cols, rows, form, mtype, name) + {closing})\n')


_WR = ('        if binary:\n            if sparse == "dense":\n                wrtfunc = self._write_binary\n            elif sparse == "bigmat":\n'
       '                wrtfunc = self._write_binary_bigmat\n            elif sparse == "nonbigmat":\n                wrtfunc = self._write_binary_nonbigmat\n'
       '            elif sparse != "auto":\n                raise ValueError("invalid sparse option")\n            if endian == "":\n'
       '                endian = "="  # for backwards compatibility\n            with open(filename, "wb") as f:\n'
       '                for name, matrix, form in zip(names, matrices, forms):\n                    if sparse == "auto":\n'
       '                        if isinstance(matrix, tuple):\n                            wrtfunc = self._write_binary_bigmat\n                        else:\n'
       '                            wrtfunc = self._write_binary\n                    wrtfunc(f, name, matrix, endian, form)\n        else:\n'
       '            if sparse == "dense":\n                wrtfunc = self._write_ascii\n            elif sparse == "bigmat":\n                wrtfunc = self._write_ascii_bigmat\n'
       '            elif sparse == "nonbigmat":\n                wrtfunc = self._write_ascii_nonbigmat\n            elif sparse != "auto":\n'
       '                raise ValueError("invalid sparse option")\n            with open(filename, "w") as f:\n'
       '                for name, matrix, form in zip(names, matrices, forms):\n                    if sparse == "auto":\n'
       '                        if isinstance(matrix, tuple):\n                            wrtfunc = self._write_ascii_bigmat\n                        else:\n'
       '                            wrtfunc = self._write_ascii\n                    wrtfunc(f, name, matrix, digits, form)\n')


def _wr(ascii_nonbigmat):
    return ('        binary = bool(binary)\n        writers = {\n            (True, "dense"): self._write_binary,\n            (True, "bigmat"): self._write_binary_bigmat,\n'
            '            (True, "nonbigmat"): self._write_binary_nonbigmat,\n            (False, "dense"): self._write_ascii,\n'
            f'            (False, "bigmat"): self._write_ascii_bigmat,\n            (False, "nonbigmat"): self.{ascii_nonbigmat},\n        }}\n'
            '        if sparse != "auto" and (binary, sparse) not in writers:\n            raise ValueError("invalid sparse option")\n'
            '        if binary and endian == "":\n            endian = "="  # for backwards compatibility\n        setting = endian if binary else digits\n'
            '        with open(filename, "wb" if binary else "w") as f:\n            for name, matrix, form in zip(names, matrices, forms):\n'
            '                if sparse == "auto":\n                    layout = "bigmat" if isinstance(matrix, tuple) else "dense"\n                else:\n'
            '                    layout = sparse\n                writers[binary, layout](f, name, matrix, setting, form)\n')


RECIPES += [
    ("C04", "neutral", [], F_, _FB, _fb("bytesreal"),
     "dense binary reader: one read for the column, np.frombuffer (dtype with the file's byte order) for large ones"),
    ("C04", "break", ["C04-R3"], F_, _FB, _fb("4"), "dense binary reader: the column read with four bytes per value"),
    ("C04", "neutral", [], F_, _NM, "            name = self._check_name(fp.read(16 if self._bit64 else 8).decode())\n", "binary loader: name read with a conditional size"),
    ("C04", "break", ["C04-R2", "C04-R3"], F_, _NM, "            name = self._check_name(fp.read(8 if self._bit64 else 16).decode())\n",
     "binary loader: conditional name size with its arms exchanged"),
    ("C04", "neutral", [], F_, _BH, _bh("ljust", "mark"), "binary header: record marks packed on their own, name padded with ljust"),
    ("C04", "break", ["C04-R2"], F_, _BH, _bh("rjust", "mark"), "binary header: name padded on the left"),
    ("C04", "break", ["C04-R2", "C04-R3"], F_, _BH, _bh("ljust", 'struct.pack(f"{endian}i", 20)'), "binary header: closing record mark 20"),
    ("C04", "neutral", [], F_, "        perline = 80 // numlen\n", "        perline = int(80 / numlen)\n", "_write_ascii_header: perline through int() of a true division"),
    ("C04", "break", ["C04-R1", "C04-R2", "C04-R3"], F_, "        perline = 80 // numlen\n", "        perline = 80 / numlen\n",
     "_write_ascii_header: perline a true quotient (announced as a float, not parsed back by int())"),
    ("C04", "neutral", [], F_, '        numform = f"%{numlen}.{digits}E"\n', '        numform = "%" + str(numlen) + "." + str(digits) + "E"\n',
     "_write_ascii_header: number format assembled from str() pieces"),
    ("C04", "neutral", [], F_, _WR, _wr("_write_ascii_nonbigmat"), "write: one dictionary keyed by (binary, layout)"),
    ("C04", "break", ["C04-R7"], F_, _WR, _wr("_write_ascii_bigmat"), "write: (False, 'nonbigmat') mapped to the bigmat writer"),
]


# ---------------------------------------------------------------------------------------------------------------------- pass 4
# constructs of the last fresh round (C04-N42: itertools.accumulate + map(slice, ..), next(generator, None), `fixed or table[key]`) and the helper's own
# refactorings: nested writer taking f / perline / numform from the enclosing call (defined before they are bound), the closing record packed by one
# call, header slices from a generator over neighbouring edges with a starred target, abs() as a conditional expression, writers looked up by a
# computed name, sum() of a literal table and divmod, str.removesuffix / str.removeprefix
_WA = (
    '        (cols, multiplier, perline, numlen, numform) = self._write_ascii_header(\n'
    '            f, name, matrix, digits, bigmat=False, form=form\n'
    '        )\n'
    '\n'
    '        def _write_col_data(f, v, c, s, elems, perline, numform):\n'
    '            f.write(f"{c + 1:8}{s + 1:8}{elems:8}\\n")\n'
    '            neven = ((elems - 1) // perline) * perline\n'
    '            for i in range(0, neven, perline):\n'
    '                for j in range(perline):\n'
    '                    f.write(numform % v[i + j])\n'
    '                f.write("\\n")\n'
    '            for i in range(neven, elems):\n'
    '                f.write(numform % v[i])\n'
    '            f.write("\\n")\n'
    '\n'
    '        if isinstance(matrix, np.ndarray):\n'
    '            for c in range(cols):\n'
    '                v = matrix[:, c]\n'
    '                if np.any(v):\n'
    '                    pv = np.nonzero(v)[0]\n'
    '                    s = pv[0]\n'
    '                    e = pv[-1]\n'
    '                    elems = (e - s + 1) * multiplier\n'
    '                    v = np.asarray(v[s : e + 1]).ravel()\n'
    '                    v.dtype = float\n'
    '                    _write_col_data(f, v, c, s, elems, perline, numform)\n'
    '        else:\n'
    '            # sparse matrix:\n'
    '            rs, cs, vs, cols_with_data = OP4._sparse_sort(matrix)\n'
    '            dt = float if multiplier == 1 else complex\n'
    '            for c in cols_with_data:\n'
    '                pv = (cs == c).nonzero()[0]  # find data for column c\n'
    '                s = rs[pv[0]]  # first row with value\n'
    '                e = rs[pv[-1]]  # last row with value\n'
    '                elems = e - s + 1\n'
    '                vec = np.zeros(elems, dt)\n'
    '                vec[rs[pv] - s] = vs[pv]\n'
    '                elems *= multiplier\n'
    '                vec.dtype = float\n'
    '                _write_col_data(f, vec, c, s, elems, perline, numform)\n'
)


def _wa(first_row):
    return (
        "        def _write_col_data(v, c, s, elems):\n"
        "            # f, perline and numform are those of the enclosing call\n"
        f"            f.write(f\"{{c + 1:8}}{{{first_row}:8}}{{elems:8}}\\n\")\n"
        "            neven = ((elems - 1) // perline) * perline\n"
        "            for i in range(0, neven, perline):\n"
        "                for j in range(perline):\n"
        "                    f.write(numform % v[i + j])\n"
        "                f.write(\"\\n\")\n"
        "            for i in range(neven, elems):\n"
        "                f.write(numform % v[i])\n"
        "            f.write(\"\\n\")\n"
        "\n"
        "        (cols, multiplier, perline, numlen, numform) = self._write_ascii_header(\n"
        "            f, name, matrix, digits, bigmat=False, form=form\n"
        "        )\n"
        "        if isinstance(matrix, np.ndarray):\n"
        "            for c in range(cols):\n"
        "                v = matrix[:, c]\n"
        "                if np.any(v):\n"
        "                    pv = np.nonzero(v)[0]\n"
        "                    s = pv[0]\n"
        "                    e = pv[-1]\n"
        "                    elems = (e - s + 1) * multiplier\n"
        "                    v = np.asarray(v[s : e + 1]).ravel()\n"
        "                    v.dtype = float\n"
        "                    _write_col_data(v, c, s, elems)\n"
        "        else:\n"
        "            # sparse matrix:\n"
        "            rs, cs, vs, cols_with_data = OP4._sparse_sort(matrix)\n"
        "            dt = float if multiplier == 1 else complex\n"
        "            for c in cols_with_data:\n"
        "                pv = (cs == c).nonzero()[0]  # find data for column c\n"
        "                s = rs[pv[0]]  # first row with value\n"
        "                e = rs[pv[-1]]  # last row with value\n"
        "                elems = e - s + 1\n"
        "                vec = np.zeros(elems, dt)\n"
        "                vec[rs[pv] - s] = vs[pv]\n"
        "                elems *= multiplier\n"
        "                vec.dtype = float\n"
        "                _write_col_data(vec, c, s, elems)\n")


_SENT = ('        reclen = 3 * 4 + 8\n        f.write(colHeader.pack(reclen, cols + 1, 1, 2))\n        f.write(struct.pack(endian + "d", 2**0.5))\n'
         '        f.write(colTrailer.pack(reclen))\n\n    @staticmethod\n    def _write_binary_sparse(')


def _sent(fmt, vals):
    return ('        reclen = 3 * 4 + 8\n        # the closing dummy column as one record (a standard layout: no padding between the items)\n'
            f'        f.write(struct.pack(endian + "{fmt}", {vals}))\n\n    @staticmethod\n    def _write_binary_sparse(')


_HS = ('                line = line[:-4]\n                c_slice = slice(0, 16)\n                r_slice = slice(16, 32)\n                f_slice = slice(32, 40)\n'
       '                t_slice = slice(40, 48)\n                n_slice = slice(48, 56)\n            else:\n                c_slice = slice(0, 8)\n'
       '                r_slice = slice(8, 16)\n                f_slice = slice(16, 24)\n                t_slice = slice(24, 32)\n                n_slice = slice(32, 40)\n\n'
       '            cols = int(line[c_slice])\n            rows = int(line[r_slice])\n            form = int(line[f_slice])\n            mtype = int(line[t_slice])\n')


def _hs_edges(wide, names):
    return (f'                line = line[:-4]\n                edges = {wide}\n            else:\n                edges = (0, 8, 16, 24, 32, 40)\n'
            '            *int_slices, n_slice = (slice(a, b) for a, b in zip(edges, edges[1:]))\n'
            f'            {names} = (int(line[field]) for field in int_slices)\n')


def _hs_acc(widths):
    return ('                line = line[:-4]\n                width = 16\n            else:\n                width = 8\n'
            f'            stops = list(it.accumulate({widths}))\n'
            '            c_slice, r_slice, f_slice, t_slice, n_slice = map(\n                slice, [0] + stops[:-1], stops\n            )\n\n'
            '            cols = int(line[c_slice])\n            rows = int(line[r_slice])\n            form = int(line[f_slice])\n            mtype = int(line[t_slice])\n')


_ABS = "        X = rdfunc(wper, r, c, abs(rows), cols, line, numlen, perline, linelen, funcs)\n"


def _wr_getattr(nonbigmat):
    return ('        enc = "binary" if binary else "ascii"\n'
            f'        suffix = {{"dense": "", "bigmat": "_bigmat", "nonbigmat": "{nonbigmat}"}}\n'
            '        if sparse in ("dense", "bigmat", "nonbigmat"):\n            wrtfunc = getattr(self, "_write_" + enc + suffix[sparse])\n'
            '        elif sparse != "auto":\n            raise ValueError("invalid sparse option")\n'
            '        if binary and endian == "":\n            endian = "="  # for backwards compatibility\n'
            '        with open(filename, "wb" if binary else "w") as f:\n            for name, matrix, form in zip(names, matrices, forms):\n'
            '                if sparse == "auto":\n                    layout = "bigmat" if isinstance(matrix, tuple) else "dense"\n'
            '                    wrtfunc = getattr(self, "_write_" + enc + suffix[layout])\n'
            '                wrtfunc(f, name, matrix, endian if binary else digits, form)\n')


def _wr_next(test):
    return ('        if binary:\n            writers = {\n                "dense": self._write_binary,\n                "bigmat": self._write_binary_bigmat,\n'
            '                "nonbigmat": self._write_binary_nonbigmat,\n            }\n            mode = "wb"\n'
            '            setting = "=" if endian == "" else endian\n        else:\n            writers = {\n                "dense": self._write_ascii,\n'
            '                "bigmat": self._write_ascii_bigmat,\n                "nonbigmat": self._write_ascii_nonbigmat,\n            }\n'
            '            mode = "w"\n            setting = digits\n\n'
            f'        fixed = next((func for key, func in writers.items() if {test}), None)\n'
            '        if fixed is None and sparse != "auto":\n            raise ValueError("invalid sparse option")\n\n'
            '        with open(filename, mode) as f:\n            for name, matrix, form in zip(names, matrices, forms):\n'
            '                auto = "bigmat" if isinstance(matrix, tuple) else "dense"\n                wrtfunc = fixed or writers[auto]\n'
            '                wrtfunc(f, name, matrix, setting, form)\n')


_NL = "        numlen = digits + 5 + self._expdigits  # -1.digitsE-009\n        perline = 80 // numlen\n"
_SFX = '            if line.endswith("|I16"):\n                line = line[:-4]\n'
_PFX = '                if numformat.startswith("1P,"):\n                    numformat = numformat[3:]\n'

RECIPES += [
    ("C04", "neutral", [], F_, _WA, _wa("s + 1"), "dense ascii writer: the nested column writer is defined first and takes f, perline, numform from the enclosing call"),
    ("C04", "break", ["C04-R3"], F_, _WA, _wa("s"), "dense ascii writer with a closure: 0-based first row announced"),
    ("C04", "neutral", [], F_, _SENT, _sent("4idi", "reclen, cols + 1, 1, 2, 2**0.5, reclen"), "dense binary writer: the closing record packed by one call"),
    ("C04", "break", ["C04-R3"], F_, _SENT, _sent("4idi", "reclen, cols + 1, 2, 1, 2**0.5, reclen"), "dense binary writer, one pack: first row and word count exchanged"),
    ("C04", "break", ["C04-R3"], F_, _SENT, _sent("4ifi", "reclen, cols + 1, 1, 2, 2**0.5, reclen"), "dense binary writer, one pack: the closing value as a 4-byte real"),
    ("C04", "neutral", [], F_, _HS, _hs_edges("(0, 16, 32, 40, 48, 56)", "cols, rows, form, mtype"),
     "ascii loader: header slices from a generator over neighbouring edges (starred target), integers from a generator over the slices"),
    ("C04", "break", ["C04-R2"], F_, _HS, _hs_edges("(0, 16, 32, 48, 56, 64)", "cols, rows, form, mtype"), "ascii loader: edges of the wide header put the form field 16 wide"),
    ("C04", "break", ["C04-R2"], F_, _HS, _hs_edges("(0, 16, 32, 40, 48, 56)", "rows, cols, form, mtype"), "ascii loader: generator unpacked into (rows, cols, ..)"),
    ("C04", "neutral", [], F_, _HS, _hs_acc("[width, width, 8, 8, 8]"), "ascii loader: header slices through itertools.accumulate and map(slice, starts, stops)"),
    ("C04", "break", ["C04-R2"], F_, _HS, _hs_acc("[width, 8, width, 8, 8]"), "ascii loader: accumulated widths in the wrong order (wide header only)"),
    ("C04", "neutral", [], F_, _ABS, "        nrows = -rows if rows < 0 else rows\n        X = rdfunc(wper, r, c, nrows, cols, line, numlen, perline, linelen, funcs)\n",
     "ascii loader: abs(rows) as a conditional expression"),
    ("C04", "break", ["C04-R2"], F_, _ABS, "        nrows = rows if rows < 0 else -rows\n        X = rdfunc(wper, r, c, nrows, cols, line, numlen, perline, linelen, funcs)\n",
     "ascii loader: conditional expression hands on -|rows|"),
    ("C04", "neutral", [], F_, _WR, _wr_getattr("_nonbigmat"), "write: writers looked up by a computed name (getattr, suffix table)"),
    ("C04", "break", ["C04-R7"], F_, _WR, _wr_getattr("_bigmat"), "write: suffix table sends 'nonbigmat' to the bigmat writers"),
    ("C04", "neutral", [], F_, _WR, _wr_next("sparse == key"), "write: fixed writer through next(generator, None), `fixed or writers[auto]`"),
    ("C04", "break", ["C04-R7"], F_, _WR, _wr_next("sparse != key"), "write: next(generator) with the filter inverted picks another layout's writer"),
    ("C04", "neutral", [], F_, _NL, "        numlen = sum((digits, 5, self._expdigits))  # -1.digitsE-009\n        perline, _unused = divmod(80, numlen)\n",
     "_write_ascii_header: numlen through sum() of a literal table, perline through divmod"),
    ("C04", "neutral", [], F_, _SFX, '            if line.endswith("|I16"):\n                line = line.removesuffix("|I16")\n', "ascii loader: str.removesuffix for the slice"),
    ("C04", "neutral", [], F_, _PFX, '                numformat = numformat.removeprefix("1P,")\n', "ascii loader: str.removeprefix for the guarded slice"),
    ("C04", "break", ["C04-R1", "C04-R3"], F_, _PFX, '                numformat = numformat.removeprefix("1P")\n', "ascii loader: removeprefix leaves the comma in front of perline"),
]


def _wr_dictcomp(big, nonbig):
    return ('        enc = "binary" if binary else "ascii"\n        writers = {\n            layout: getattr(self, f"_write_{enc}{tail}")\n'
            f'            for layout, tail in (("dense", ""), ("bigmat", "{big}"), ("nonbigmat", "{nonbig}"))\n        }}\n'
            '        if sparse != "auto" and sparse not in tuple(writers):\n            raise ValueError("invalid sparse option")\n'
            '        if binary and endian == "":\n            endian = "="  # for backwards compatibility\n'
            '        with open(filename, "wb" if binary else "w") as f:\n            for name, matrix, form in zip(names, matrices, forms):\n'
            '                if sparse == "auto":\n                    layout = "bigmat" if isinstance(matrix, tuple) else "dense"\n                else:\n'
            '                    layout = sparse\n                writers[layout](f, name, matrix, endian if binary else digits, form)\n')


RECIPES += [
    ("C04", "neutral", [], F_, _WR, _wr_dictcomp("_bigmat", "_nonbigmat"), "write: writers from a dictionary comprehension over (layout, name tail) pairs"),
    ("C04", "break", ["C04-R7"], F_, _WR, _wr_dictcomp("_nonbigmat", "_bigmat"), "write: dictionary comprehension with the sparse name tails exchanged"),
]


# ---- last pass: R10, the reader's format autodetection on the headers the writers produce
_DF = "        if min(bytes_[:4]) == 0:\n"
RECIPES += [
    ("C04", "break", ["C04-R10"], F_, _DF, "        if not bytes_[:8].strip().isdigit():\n",
     "_decode_format: 'ASCII starts with an 8-character count' - the 16-wide header (rows > 9999999) starts with 8 blanks"),
    ("C04", "break", ["C04-R10"], F_, _DF, "        if bytes_[0] == 0:\n", "_decode_format: only the first byte is tested - a little-endian record length starts with 0x18"),
    ("C04", "break", ["C04-R10"], F_, _DF, "        if not bytes_[:16].replace(b' ', b'').isdigit():\n",
     "_decode_format: 'blanks and digits only' - the bigmat header carries a minus sign in the first 16 bytes"),
    ("C04", "break", ["C04-R10"], F_, _DF, "        if not bytes_[:4].strip().isdigit():\n",
     "_decode_format: the first four characters of an ASCII header are blank for up to 9999 columns"),
    ("C04", "break", ["C04-R10"], F_, "            if reclen <= 48:\n", "            if reclen < 24:\n", "_decode_format: byte-order test excludes the record length 24 itself"),
    ("C04", "break", ["C04-R10"], F_, '            if reclen <= 48:\n                self._endian = "<"\n', '            if reclen <= 48:\n                self._endian = ">"\n',
     "_decode_format: little-endian record length answered with '>'"),
    ("C04", "break", ["C04-R10"], F_, "            if reclen == 24:\n", "            if reclen == 48:\n", "_decode_format: 32-bit files taken for 64-bit ones"),
    ("C04", "neutral", [], F_, _DF, "        if 0 in bytes_[:4]:\n", "_decode_format: membership test for the zero byte"),
    ("C04", "neutral", [], F_, _DF, "        if any(b == 0 for b in bytes_[:4]):\n", "_decode_format: generator over the first four bytes"),
    ("C04", "neutral", [], F_, _DF, "        if not (bytes_[:4].isspace() or bytes_[:4].strip().isdigit()):\n",
     "_decode_format: 'blank or blank-padded digits' in the first four characters (true for both integer widths)"),
    ("C04", "neutral", [], F_, '            reclen = np.frombuffer(bytes_[:4], "<u4")\n', '            reclen = int.from_bytes(bytes_[:4], "little")\n',
     "_decode_format: int.from_bytes for the little-endian record length"),
    ("C04", "neutral", [], F_, '                reclen = np.frombuffer(bytes_[:4], ">u4")\n', '                (reclen,) = struct.unpack(">I", bytes_[:4])\n',
     "_decode_format: struct.unpack for the big-endian record length"),
    ("C04", "neutral", [], F_, "            if reclen <= 48:\n", "            if reclen < 256:\n", "_decode_format: any bound below 2^24 separates the byte orders of 24 / 48"),
]


# ---- last pass: R11, raw bytes of an array written by a binary writer must be in the requested byte order
_PK = '            f.write(struct.pack(endian + ("%dd" % elems), *v))\n'
_PS = '            f.write(colTrailer.pack(IS))\n            f.write(struct.pack(endian + ("%dd" % len(string)), *string))\n'
_PL = '            f.write(LrStruct.pack(L + 1, r0 + 1))\n            f.write(struct.pack(endian + ("%dd" % len(string)), *string))\n'
RECIPES += [
    ("C04", "break", ["C04-R11"], F_, _PK,
     '            if elems < self._rowsCutoff:\n                f.write(struct.pack(endian + ("%dd" % elems), *v))\n            else:\n                f.write(v.tobytes())\n',
     "dense binary: long columns written with tobytes() (native order whatever `endian`)"),
    ("C04", "break", ["C04-R11"], F_, _PK, "            f.write(v.tobytes())\n", "dense binary: every column written with tobytes()"),
    ("C04", "break", ["C04-R11"], F_, _PK, "            v.tofile(f)\n", "dense binary: every column written with tofile()"),
    ("C04", "break", ["C04-R11"], F_, _PS, "            f.write(colTrailer.pack(IS))\n            f.write(np.asarray(string, dtype=float).tobytes())\n",
     "binary nonbigmat: strings (call-back of _write_binary_sparse) written as native float64 bytes"),
    ("C04", "break", ["C04-R11"], F_, _PL, "            f.write(LrStruct.pack(L + 1, r0 + 1))\n            np.asarray(string, dtype='f8').tofile(f)\n",
     "binary bigmat: strings written with tofile() of a native 'f8' array"),
    ("C04", "neutral", [], F_, _PK, '            f.write(np.asarray(v, dtype=endian + "f8").tobytes())\n', "dense binary: tobytes() of an array typed with the file's byte order"),
    ("C04", "neutral", [], F_, _PK, '            v.astype(endian + "f8").tofile(f)\n', "dense binary: tofile() of an array typed with the file's byte order"),
    ("C04", "neutral", [], F_, _PL, '            f.write(LrStruct.pack(L + 1, r0 + 1))\n            f.write(np.asarray(string, dtype=endian + "f8").tobytes())\n',
     "binary bigmat: strings as tobytes() of an array typed with the file's byte order"),
]
RECIPES += [
    ("C04", "break", ["C04-R10"], F_, "            if reclen <= 48:\n", "            if reclen < 48:\n",
     "_decode_format: a little-endian 64-bit file (record length 48) is taken for big-endian"),
    ("C04", "neutral", [], F_, "            if reclen <= 48:\n", "            if reclen in (24, 48):\n", "_decode_format: the two admissible record lengths as a tuple"),
]


# ---- pass 5 (round-5 seeds L, P): R8 by value on a finite world of sparse patterns; R3 follows str.split() on adjacent fixed-width fields
_HL = "                L = int(line[c_slice]) - 1  # L\n                r = int(line[r_slice]) - 1  # irow-1\n"
_SY = "                np.all(cl[sortl] == ru[sortu])\n                and np.all(rl[sortl] == cu[sortu])\n"
RECIPES += [
    ("C04", "break", ["C04-R3"], F_, _HL, "                L, r = map(int, line.split())\n                L -= 1\n                r -= 1\n",
     "_rd_bigmat_ascii: string header (two I8 fields) tokenised with split(): the fields touch from row 10^7 on"),
    ("C04", "break", ["C04-R3"], F_, _HL, "                L, r = (int(w) - 1 for w in line.split())\n",
     "_rd_bigmat_ascii: string header tokenised with split() in a generator"),
    ("C04", "break", ["C04-R3"], F_, _HL, "                words = line.split()\n                L = int(words[0]) - 1\n                r = int(words[1]) - 1\n",
     "_rd_bigmat_ascii: string header tokenised with split(), words picked by index"),
    ("C04", "neutral", [], F_, _HL, "                L = int(line[:8]) - 1\n                r = int(line[8:16]) - 1\n",
     "_rd_bigmat_ascii: string header cut by literal columns"),
    ("C04", "neutral", [], F_, _HL, "                L, r = int(line[slice(0, 8)]) - 1, int(line[slice(8, 16)]) - 1\n",
     "_rd_bigmat_ascii: string header cut with inline slice objects, tuple assignment"),
    ("C04", "break", ["C04-R8"], F_, _SY, "                np.all(rl[sortl] == cu[sortu])\n",
     "_is_symmetric: cols(lower) == rows(upper) no longer compared (entries (1,0),(3,2),(0,1),(0,3) pass)"),
    ("C04", "break", ["C04-R8"], F_, _SY, "                np.all(cl[sortl] == ru[sortu])\n",
     "_is_symmetric: rows(lower) == cols(upper) no longer compared (entries (2,0),(1,2) pass)"),
    ("C04", "break", ["C04-R8"], F_, "            sortu = np.lexsort((ru, cu))\n", "            sortu = np.lexsort((cu, ru))[::-1]\n",
     "_is_symmetric: upper triangle sorted by (row, col) descending: mirrored entries no longer line up"),
    ("C04", "break", ["C04-R8"], F_, "            low = r > c  # values in lower triangle\n", "            low = r >= c  # values in lower triangle\n",
     "_is_symmetric: diagonal entries counted with the lower triangle (a symmetric matrix with a diagonal entry is called unsymmetric)"),
    ("C04", "neutral", [], F_, "            sortl = np.lexsort((cl, rl))\n            sortu = np.lexsort((ru, cu))\n",
     "            sortl = np.lexsort((rl, cl))\n            sortu = np.lexsort((cu, ru))\n",
     "_is_symmetric: both triangles sorted the other way round (lower by (col, row), upper by (row, col)): mirrored entries still line up"),
]
